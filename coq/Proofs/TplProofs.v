(* The hand translation of the HTML template (Model/Html.v html_exec, which
   the C06 theorems are about) IS the interpretation of the template as the
   source has it (Model/Tpl.v tpl_run model_template), for every wrapper
   setting, every row-class script and every table. *)
From Tab Require Import Model.Html Model.Tpl.

Section TplProofs.
  Variable x : html_in.

  Lemma execd_nil d env st : execd x (S d) [] env st = Ok st.
  Proof. reflexivity. Qed.

  Lemma execd_cons d n r env st :
    execd x (S d) (n :: r) env st = bind (step x (execd x d) n env st) (fun st' => execd x (S d) r env st').
  Proof. reflexivity. Qed.

  Lemma ctx_after_app c a b : ctx_after (ctx_after c a) b = ctx_after c (a ++ b).
  Proof. unfold ctx_after. rewrite fold_left_app. reflexivity. Qed.

  Lemma execd_step_ok d n r env st st1 :
    step x (execd x d) n env st = Ok st1 -> execd x (S d) (n :: r) env st = execd x (S d) r env st1.
  Proof. intros H. rewrite execd_cons, H. reflexivity. Qed.

  Lemma step_text run s env st : step x run (NText s) env st = Ok (put_text s st).
  Proof. reflexivity. Qed.

  Lemma eval_dot env st : eval x env st P.dot = Ok (e_dot env, st).
  Proof. reflexivity. Qed.

  (* {{.}} of a string: element content / quoted attribute value *)
  Lemma step_dot_text run i row s out calls rcs :
    step x run (NAction P.dot) (mkTEnv (VStr s) i row) (mkTS out calls rcs CText)
    = Ok (mkTS (out ++ html_escape s) calls rcs CText).
  Proof. reflexivity. Qed.
  Lemma step_dot_attr run i row s out calls rcs :
    step x run (NAction P.dot) (mkTEnv (VStr s) i row) (mkTS out calls rcs CAttr)
    = Ok (mkTS (out ++ attr_escape s) calls rcs CAttr).
  Proof. reflexivity. Qed.

  Lemma put_text_eq s out calls rcs c : put_text s (mkTS out calls rcs c) = mkTS (out ++ s) calls rcs (ctx_after c s).
  Proof. reflexivity. Qed.

  (* ---- {{range <strings>}}OPEN{{.}}CLOSE{{end}} in element content *)
  Lemma cells_once d i row open close s out calls rcs :
    ctx_after CText open = CText -> ctx_after CText close = CText ->
    execd x (S d) (T.cells open close) (mkTEnv (VStr s) i row) (mkTS out calls rcs CText)
    = Ok (mkTS (out ++ open ++ html_escape s ++ close) calls rcs CText).
  Proof.
    intros Ho Hc. unfold T.cells.
    rewrite (execd_step_ok d _ _ _ _ _ (step_text _ _ _ _)), put_text_eq, Ho.
    rewrite (execd_step_ok d _ _ _ _ _ (step_dot_text _ _ _ _ _ _ _)).
    rewrite (execd_step_ok d _ _ _ _ _ (step_text _ _ _ _)), put_text_eq, Hc.
    rewrite execd_nil, <- !app_assoc. reflexivity.
  Qed.

  Lemma cells_loop d env open close :
    ctx_after CText open = CText -> ctx_after CText close = CText ->
    forall l out calls rcs,
    each_str (execd x (S d) (T.cells open close)) env l (mkTS out calls rcs CText)
    = Ok (mkTS (out ++ tpl_cells open close l) calls rcs CText).
  Proof.
    intros Ho Hc. induction l as [|s l IH]; intros out calls rcs.
    - cbn [each_str tpl_cells]. rewrite app_nil_r. reflexivity.
    - cbn [each_str]. rewrite (cells_once d _ _ open close s out calls rcs Ho Hc). cbn [bind].
      rewrite IH. cbn [tpl_cells]. rewrite <- !app_assoc. reflexivity.
  Qed.

  (* ---- {{if HAVE}} class="{{RowClass n}}"{{end}} inside a tag *)
  Lemma step_call run env p n out calls rcs :
    (forall st, eval x env st p = call_rc n st) ->
    step x run (NAction p) env (mkTS out calls rcs CAttr)
    = match rcs with
      | [] => Panic
      | c :: rest => Ok (mkTS (out ++ attr_escape c) (calls ++ [n]) rest CAttr)
      end.
  Proof. intros Hp. cbn [step]. rewrite Hp. unfold call_rc. cbn [s_rcs]. destruct rcs; reflexivity. Qed.

  Lemma cls_block d env p n :
    (forall st, eval x env st p = call_rc n st) ->
    forall out calls rcs,
    execd x (S d) (T.cls p) env (mkTS out calls rcs CTag)
    = match rcs with
      | [] => Panic
      | c :: rest => Ok (mkTS (out ++ Tpl.class_open ++ attr_escape c ++ Tpl.quote) (calls ++ [n]) rest CTag)
      end.
  Proof.
    intros Hp out calls rcs. unfold T.cls.
    rewrite (execd_step_ok d _ _ _ _ _ (step_text _ _ _ _)), put_text_eq.
    change (ctx_after CTag Tpl.class_open) with CAttr.
    rewrite execd_cons, (step_call _ env p n _ _ _ Hp).
    destruct rcs as [|c rest]; [reflexivity|]. cbn [bind].
    rewrite (execd_step_ok d _ _ _ _ _ (step_text _ _ _ _)), put_text_eq.
    change (ctx_after CAttr Tpl.quote) with CTag.
    rewrite execd_nil, <- !app_assoc. reflexivity.
  Qed.

  Lemma if_have_block d env ptest p n :
    (forall st, eval x env st ptest = Ok (VBool (h_have_rc x), st)) ->
    (forall st, eval x env st p = call_rc n st) ->
    forall out calls rcs,
    step x (execd x (S d)) (NIf ptest (T.cls p)) env (mkTS out calls rcs CTag)
    = match tpl_row_class (h_have_rc x) n rcs with
      | Ok (cls, cl, rcs') => Ok (mkTS (out ++ cls) (calls ++ cl) rcs' CTag)
      | Err => Err
      | Panic => Panic
      end.
  Proof.
    intros Ht Hp out calls rcs. cbn [step]. rewrite Ht. cbn [bind truthy]. unfold tpl_row_class.
    destruct (h_have_rc x).
    - rewrite (cls_block d env p n Hp). destruct rcs as [|c rest]; reflexivity.
    - rewrite !app_nil_r. reflexivity.
  Qed.

  (* ---- the body rows *)
  Definition row_body : list tnode :=
    [NIf P.notsep
       [NText Tpl.tr_open;
        NIf P.have_top (T.cls P.rci);
        NText Tpl.gt;
        NRange P.cellsof (T.cells Tpl.td_open Tpl.td_close);
        NText Tpl.tr_close]].

  Lemma eval_notsep_some i cells st :
    eval x (mkTEnv (VRow (Some cells)) i (Some (Some cells))) st P.notsep = Ok (VBool true, st).
  Proof. reflexivity. Qed.
  Lemma eval_notsep_none i st : eval x (mkTEnv (VRow None) i (Some None)) st P.notsep = Ok (VBool false, st).
  Proof. reflexivity. Qed.
  Lemma eval_cellsof dot i cells st :
    eval x (mkTEnv dot i (Some (Some cells))) st P.cellsof = Ok (VStrs (row_texts cells), st).
  Proof. reflexivity. Qed.
  Lemma eval_have_top env st : eval x env st P.have_top = Ok (VBool (h_have_rc x), st).
  Proof. reflexivity. Qed.
  Lemma eval_rci env st : eval x env st P.rci = call_rc (S (e_i env)) st.
  Proof. reflexivity. Qed.

  Lemma row_sep d i st : execd x (S (S (S d))) row_body (mkTEnv (VRow None) i (Some None)) st = Ok st.
  Proof.
    unfold row_body. rewrite execd_cons. cbn [step]. rewrite eval_notsep_none. reflexivity.
  Qed.

  Lemma row_once d i cells out calls rcs :
    execd x (S (S (S d))) row_body (mkTEnv (VRow (Some cells)) i (Some (Some cells))) (mkTS out calls rcs CText)
    = match tpl_row_class (h_have_rc x) (S i) rcs with
      | Ok (cls, cl, rcs') =>
          Ok (mkTS (out ++ Tpl.tr_open ++ cls ++ Tpl.gt
                    ++ tpl_cells Tpl.td_open Tpl.td_close (row_texts cells) ++ Tpl.tr_close)
                   (calls ++ cl) rcs' CText)
      | Err => Err
      | Panic => Panic
      end.
  Proof.
    set (env := mkTEnv (VRow (Some cells)) i (Some (Some cells))).
    unfold row_body. rewrite execd_cons. cbn [step]. unfold env at 1. rewrite eval_notsep_some.
    cbn [bind truthy]. fold env.
    rewrite (execd_step_ok (S d) _ _ _ _ _ (step_text _ _ _ _)), put_text_eq.
    change (ctx_after CText Tpl.tr_open) with CTag.
    rewrite execd_cons.
    rewrite (if_have_block d env P.have_top P.rci (S i) (eval_have_top env) (eval_rci env)).
    destruct (tpl_row_class (h_have_rc x) (S i) rcs) as [[[cls cl] rcs']| |]; [|reflexivity|reflexivity].
    cbn [bind].
    rewrite (execd_step_ok (S d) _ _ _ _ _ (step_text _ _ _ _)), put_text_eq.
    change (ctx_after CTag Tpl.gt) with CText.
    rewrite execd_cons. cbn [step]. unfold env at 1. rewrite eval_cellsof. cbn [bind]. fold env.
    rewrite (cells_loop d env Tpl.td_open Tpl.td_close eq_refl eq_refl). cbn [bind].
    rewrite (execd_step_ok (S d) _ _ _ _ _ (step_text _ _ _ _)), put_text_eq.
    change (ctx_after CText Tpl.tr_close) with CText.
    rewrite execd_nil. cbn [bind]. rewrite <- !app_assoc. reflexivity.
  Qed.

  Definition rows_rel (r : res (bytes * list nat)) (out : bytes) (calls : list nat) (got : res tstate) : Prop :=
    match r with
    | Ok (o, c) => exists rcs', got = Ok (mkTS (out ++ o) (calls ++ c) rcs' CText)
    | Err => False
    | Panic => got = Panic
    end.

  Lemma rows_loop d : forall rows i out calls rcs,
    rows_rel (tpl_rows (h_have_rc x) i rows rcs) out calls
             (each_row (execd x (S (S (S d))) row_body) i rows (mkTS out calls rcs CText)).
  Proof.
    induction rows as [|row rows IH]; intros i out calls rcs.
    - cbn [each_row tpl_rows rows_rel]. exists rcs. rewrite !app_nil_r. reflexivity.
    - cbn [each_row tpl_rows]. destruct row as [cells|].
      + rewrite row_once.
        destruct (tpl_row_class (h_have_rc x) (S i) rcs) as [[[cls cl] rcs']| |] eqn:Erc.
        * cbn [bind].
          match goal with |- rows_rel _ _ _ (each_row _ _ _ (mkTS ?o2 ?c2 _ _)) => specialize (IH (S i) o2 c2 rcs') end.
          destruct (tpl_rows (h_have_rc x) (S i) rows rcs') as [[o c]| |]; cbn [rows_rel bind] in *.
          -- destruct IH as (r' & ->). exists r'. rewrite <- !app_assoc. reflexivity.
          -- exact IH.
          -- exact IH.
        * exfalso. unfold tpl_row_class in Erc. destruct (h_have_rc x); [destruct rcs|]; discriminate.
        * cbn [bind rows_rel]. reflexivity.
      + rewrite row_sep. cbn [bind]. apply IH.
  Qed.

  (* ---- {{with .Field}}PRE{{.}}POST{{end}} *)
  Lemma with_block d p s pre post c c1 esc out calls rcs :
    (forall st, eval x (mkTEnv VData 0 None) st p = Ok (VStr s, st)) ->
    ctx_after c pre = c1 -> ctx_after c1 post = c ->
    (forall o cl r, step x (execd x d) (NAction P.dot) (mkTEnv (VStr s) 0 None) (mkTS o cl r c1) = Ok (mkTS (o ++ esc s) cl r c1)) ->
    step x (execd x (S d)) (NWith p [NText pre; NAction P.dot; NText post]) (mkTEnv VData 0 None) (mkTS out calls rcs c)
    = Ok (mkTS (out ++ tpl_with s pre post esc) calls rcs c).
  Proof.
    intros Hp H1 H2 Hdot. cbn [step]. rewrite Hp. cbn [bind truthy e_i e_row]. unfold tpl_with.
    destruct s as [|b s']; [rewrite app_nil_r; reflexivity|].
    rewrite (execd_step_ok d _ _ _ _ _ (step_text _ _ _ _)), put_text_eq, H1.
    rewrite (execd_step_ok d _ _ _ _ _ (Hdot _ _ _)).
    rewrite (execd_step_ok d _ _ _ _ _ (step_text _ _ _ _)), put_text_eq, H2.
    rewrite execd_nil, <- !app_assoc. reflexivity.
  Qed.

  Lemma eval_class st : eval x (mkTEnv VData 0 None) st P.class = Ok (VStr (h_class x), st).
  Proof. reflexivity. Qed.
  Lemma eval_id st : eval x (mkTEnv VData 0 None) st P.id = Ok (VStr (h_id x), st).
  Proof. reflexivity. Qed.
  Lemma eval_caption st : eval x (mkTEnv VData 0 None) st P.caption = Ok (VStr (h_caption x), st).
  Proof. reflexivity. Qed.
  Lemma eval_have st : eval x (mkTEnv VData 0 None) st P.have = Ok (VBool (h_have_rc x), st).
  Proof. reflexivity. Qed.
  Lemma eval_rc0 env st : eval x env st P.rc0 = call_rc 0 st.
  Proof. reflexivity. Qed.
  Lemma eval_headers env st : eval x env st P.headers = Ok (VStrs (header_texts (h_view x)), st).
  Proof. reflexivity. Qed.
  Lemma eval_rows env st : eval x env st P.rows = Ok (VRows (v_rows (h_view x)), st).
  Proof. reflexivity. Qed.

  (* ---- the whole template *)
  Theorem template_is_model : tpl_run x model_template = html_exec x.
  Proof.
    unfold tpl_run, tpl_depth, model_template, html_exec.
    set (env := mkTEnv VData 0 None).
    rewrite (execd_step_ok 15 _ _ _ _ _ (step_text _ _ _ _)), put_text_eq.
    change (ctx_after CText Tpl.table_open) with CTag. cbn [app].
    rewrite (execd_step_ok 15 _ _ _ _ _
               (with_block 14 P.class (h_class x) Tpl.class_open Tpl.quote CTag CAttr attr_escape _ _ _
                           eval_class eq_refl eq_refl (fun o cl r => step_dot_attr _ _ _ _ _ _ _))).
    rewrite (execd_step_ok 15 _ _ _ _ _
               (with_block 14 P.id (h_id x) Tpl.id_open Tpl.quote CTag CAttr attr_escape _ _ _
                           eval_id eq_refl eq_refl (fun o cl r => step_dot_attr _ _ _ _ _ _ _))).
    rewrite (execd_step_ok 15 _ _ _ _ _ (step_text _ _ _ _)), put_text_eq.
    change (ctx_after CTag Tpl.gt) with CText.
    rewrite (execd_step_ok 15 _ _ _ _ _
               (with_block 14 P.caption (h_caption x) Tpl.caption_open Tpl.caption_close CText CText html_escape _ _ _
                           eval_caption eq_refl eq_refl (fun o cl r => step_dot_text _ _ _ _ _ _ _))).
    rewrite (execd_step_ok 15 _ _ _ _ _ (step_text _ _ _ _)), put_text_eq.
    change (ctx_after CText Tpl.thead_tr) with CTag.
    rewrite execd_cons.
    rewrite (if_have_block 14 env P.have P.rc0 0 eval_have (eval_rc0 env)).
    destruct (tpl_row_class (h_have_rc x) 0 (h_rcs x)) as [[[hcls hcalls] rcs']| |] eqn:Erc.
    2:{ exfalso. unfold tpl_row_class in Erc. destruct (h_have_rc x); [destruct (h_rcs x)|]; discriminate. }
    2:{ reflexivity. }
    cbn [bind].
    rewrite (execd_step_ok 15 _ _ _ _ _ (step_text _ _ _ _)), put_text_eq.
    change (ctx_after CTag Tpl.gt) with CText.
    rewrite execd_cons. cbn [step]. rewrite eval_headers. cbn [bind].
    rewrite (cells_loop 14 env Tpl.th_open Tpl.th_close eq_refl eq_refl). cbn [bind].
    rewrite (execd_step_ok 15 _ _ _ _ _ (step_text _ _ _ _)), put_text_eq.
    change (ctx_after CText Tpl.thead_end) with CText.
    rewrite execd_cons. cbn [step]. rewrite eval_rows. cbn [bind].
    fold row_body.
    match goal with |- context [each_row _ 0 _ (mkTS ?o ?c _ _)] =>
      pose proof (rows_loop 12 (v_rows (h_view x)) 0 o c rcs') as HR end.
    destruct (tpl_rows (h_have_rc x) 0 (v_rows (h_view x)) rcs') as [[body bcalls]| |]; cbn [rows_rel] in HR.
    - destruct HR as (r' & ->). cbn [bind].
      rewrite (execd_step_ok 15 _ _ _ _ _ (step_text _ _ _ _)), put_text_eq, execd_nil.
      cbn [bind s_out s_calls app]. rewrite <- !app_assoc. reflexivity.
    - destruct HR.
    - rewrite HR. reflexivity.
  Qed.
End TplProofs.
