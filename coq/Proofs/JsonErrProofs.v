(* C07, part 3: the outcome theorems (Err exactly on the error conditions, no
   panic on well-formed views, Render's empty string) and the reading of the
   decidable error condition as a plain disjunction. *)
From Tab Require Import Model.Json Spec.JsonParse Spec.JsonExpect Proofs.JsonModelProofs Proofs.JsonProofs.

Lemma wf_view_skip_len v : wf_view v -> length (v_skip v) = S (v_ncols v).
Proof. intros (_ & _ & _ & H). exact H. Qed.

Section Outcome.
  Variable strenc : bytes -> bytes.

  Lemma render_outcome v : length (v_skip v) = S (v_ncols v) ->
    match json_render strenc v with
    | Ok _ => json_errb v = false
    | Err => json_errb v = true
    | Panic => False
    end.
  Proof.
    intros H. unfold json_render. pose proof (render_writes_cases strenc v H) as Hc.
    destruct (json_render_writes strenc v); cbn [bind]; [apply Hc | exact Hc | exact Hc].
  Qed.

  Theorem json_err_iff v : wf_view v -> (json_render strenc v = Err <-> json_error_condition v).
  Proof.
    intros Hwf. pose proof (render_outcome v (wf_view_skip_len v Hwf)) as H. unfold json_error_condition.
    destruct (json_render strenc v); split; intros E; try discriminate; try congruence; try contradiction.
  Qed.

  Theorem json_ok_iff v : wf_view v -> ((exists out, json_render strenc v = Ok out) <-> ~ json_error_condition v).
  Proof.
    intros Hwf. pose proof (render_outcome v (wf_view_skip_len v Hwf)) as H. unfold json_error_condition.
    destruct (json_render strenc v) as [out| |]; split.
    - intros _. congruence.
    - intros _. eauto.
    - intros [out E]. discriminate.
    - intros E. congruence.
    - contradiction.
    - contradiction.
  Qed.

  Theorem json_no_panic v : wf_view v -> json_render strenc v <> Panic.
  Proof.
    intros Hwf E. pose proof (render_outcome v (wf_view_skip_len v Hwf)) as H. rewrite E in H. exact H.
  Qed.

  Theorem json_render_empty_on_error v : json_render strenc v = Err -> json_render_string strenc v = [].
  Proof. intros E. unfold json_render_string. rewrite E. reflexivity. Qed.

  Theorem json_render_string_ok v out : json_render strenc v = Ok out -> json_render_string strenc v = out.
  Proof. intros E. unfold json_render_string. rewrite E. reflexivity. Qed.

  Theorem json_render_is_writes v ws : json_render_writes strenc v = Ok ws -> json_render strenc v = Ok (concat ws).
  Proof. intros H. unfold json_render. rewrite H. reflexivity. Qed.

  Section WithValues.
    Variable strval : bytes -> bytes.
    Variable encval : bytes -> jvalue.

    Theorem json_valid_and_mirrors v :
      wf_view v -> encodings_ok strenc strval encval v ->
      match json_render strenc v with
      | Ok out =>
          ~ json_error_condition v
          /\ parse_json out = Some (json_expected strval (cell_denotation strval encval) v)
      | Err => json_error_condition v
      | Panic => False
      end.
    Proof.
      intros Hwf Henc. pose proof (render_outcome v (wf_view_skip_len v Hwf)) as H.
      destruct (json_render strenc v) as [out| |] eqn:E; [|exact H|exact H].
      split.
      - unfold json_error_condition. congruence.
      - apply (json_roundtrip strenc strval encval v out (wf_view_skip_len v Hwf) Henc E).
    Qed.
  End WithValues.
End Outcome.

(* ---------- the error condition, read as a disjunction ---------- *)

Lemma existsb_is_empty (l : list bytes) : existsb is_empty l = true <-> In [] l.
Proof.
  rewrite existsb_exists. split.
  - intros (x & Hx & E). destruct x; [exact Hx | discriminate].
  - intros H. exists []. auto.
Qed.

Lemma existsb_skip_nonbool l : existsb skip_nonbool l = true <-> In (Some SkOther) l.
Proof.
  rewrite existsb_exists. split.
  - intros (x & Hx & E). destruct x as [[b|]|]; try discriminate. exact Hx.
  - intros H. exists (Some SkOther). auto.
Qed.

Lemma has_dup_false_NoDup l : has_dup l = false <-> NoDup l.
Proof.
  induction l as [|x l IH]; cbn [has_dup].
  - split; [constructor | reflexivity].
  - rewrite orb_false_iff, IH. split.
    + intros [H1 H2]. constructor; [|exact H2]. intros Hin.
      assert (existsb (bytes_eqb x) l = true) by (apply existsb_exists; exists x; split; [exact Hin | apply bytes_eqb_refl]).
      congruence.
    + intros H. inversion H as [|? ? Hn Hd]; subst. split; [|exact Hd].
      destruct (existsb (bytes_eqb x) l) eqn:E; [|reflexivity].
      apply existsb_exists in E as (y & Hy & Ey). apply bytes_eqb_eq in Ey. subst. contradiction.
Qed.

Lemma has_dup_true l : has_dup l = true <-> ~ NoDup l.
Proof.
  rewrite <- has_dup_false_NoDup. destruct (has_dup l); split; intros H; congruence.
Qed.

Lemma marshal_fails_true v : forall cells i,
  marshal_fails v i cells = true <->
  exists j c, nth_error cells j = Some c /\ vc_json c = None /\ (eff_skip v (i + j) && vc_empty c) = false.
Proof.
  induction cells as [|c cells IH]; intros i; cbn [marshal_fails].
  - split; [discriminate | intros (j & c & H & _); destruct j; discriminate].
  - rewrite orb_true_iff, IH. split.
    + intros [H | (j & c' & H1 & H2 & H3)].
      * apply andb_true_iff in H as [H1 H2]. exists 0, c. rewrite Nat.add_0_r.
        destruct (vc_json c); [discriminate|]. apply negb_true_iff in H1. auto.
      * exists (S j), c'. rewrite <- plus_n_Sm. auto.
    + intros (j & c' & H1 & H2 & H3). destruct j as [|j].
      * left. inversion H1; subst c'. rewrite Nat.add_0_r in H3. rewrite H3, H2. reflexivity.
      * right. exists j, c'. rewrite <- plus_n_Sm in H3. auto.
Qed.

Lemma in_body_rows v cells : In cells (body_rows v) <-> In (Some cells) (v_rows v).
Proof.
  unfold body_rows. rewrite in_flat_map. split.
  - intros ([cs|] & H1 & H2); [|contradiction]. destruct H2 as [<- | []]. exact H1.
  - intros H. exists (Some cells). split; [exact H | left; reflexivity].
Qed.

Theorem json_error_condition_reading v :
  json_error_condition v <->
  (v_ncols v = 0
   \/ nth_error (v_skip v) 0 = Some (Some SkOther)
   \/ v_header v = None
   \/ exists h, v_header v = Some h
        /\ (length h < v_ncols v
            \/ In [] (key_texts v h)
            \/ ~ NoDup (key_texts v h)
            \/ In (Some SkOther) (firstn (v_ncols v) (tl (v_skip v)))
            \/ exists cells, In (Some cells) (v_rows v)
                 /\ (v_ncols v < length cells
                     \/ exists i c, nth_error cells i = Some c /\ vc_json c = None
                                    /\ (eff_skip v i && vc_empty c) = false))).
Proof.
  unfold json_error_condition, json_errb. rewrite !orb_true_iff, Nat.eqb_eq.
  assert (E0 : skip_nonbool (match nth_error (v_skip v) 0 with Some o => o | None => None end) = true
               <-> nth_error (v_skip v) 0 = Some (Some SkOther)).
  { destruct (nth_error (v_skip v) 0) as [[[b|]|]|]; cbn; split; intros H; try discriminate; reflexivity. }
  rewrite E0.
  assert (E1 : match v_header v with
               | Some h => (length h <? v_ncols v) || existsb is_empty (key_texts v h) || has_dup (key_texts v h)
                           || existsb skip_nonbool (firstn (v_ncols v) (tl (v_skip v)))
                           || existsb (row_errb v) (body_rows v)
               | None => true
               end = true
               <-> (v_header v = None \/ exists h, v_header v = Some h
                     /\ (length h < v_ncols v \/ In [] (key_texts v h) \/ ~ NoDup (key_texts v h)
                         \/ In (Some SkOther) (firstn (v_ncols v) (tl (v_skip v)))
                         \/ exists cells, In (Some cells) (v_rows v)
                              /\ (v_ncols v < length cells
                                  \/ exists i c, nth_error cells i = Some c /\ vc_json c = None
                                                 /\ (eff_skip v i && vc_empty c) = false)))).
  { destruct (v_header v) as [h|].
    - rewrite !orb_true_iff, Nat.ltb_lt, existsb_is_empty, has_dup_true, existsb_skip_nonbool.
      assert (Er : existsb (row_errb v) (body_rows v) = true
                   <-> exists cells, In (Some cells) (v_rows v)
                         /\ (v_ncols v < length cells
                             \/ exists i c, nth_error cells i = Some c /\ vc_json c = None
                                            /\ (eff_skip v i && vc_empty c) = false)).
      { rewrite existsb_exists. split.
        - intros (cells & Hin & Hr). exists cells. split; [apply in_body_rows, Hin|].
          unfold row_errb in Hr. apply orb_true_iff in Hr as [Hr | Hr].
          + left. apply Nat.ltb_lt, Hr.
          + right. apply marshal_fails_true in Hr. exact Hr.
        - intros (cells & Hin & Hr). exists cells. split; [apply in_body_rows, Hin|].
          unfold row_errb. apply orb_true_iff. destruct Hr as [Hr | Hr].
          + left. apply Nat.ltb_lt, Hr.
          + right. apply marshal_fails_true. exact Hr. }
      rewrite Er. split.
      + intros H. right. exists h. split; [reflexivity|]. tauto.
      + intros [H | (h' & Hh & H)]; [discriminate|]. inversion Hh; subst h'. tauto.
    - split; [intros _; left; reflexivity | reflexivity]. }
  split.
  - intros [[H | H] | H]; [left; exact H | right; left; exact H |].
    apply E1 in H. destruct H as [H | H]; [right; right; left; exact H | right; right; right; exact H].
  - intros [H | [H | [H | H]]]; [left; left; exact H | left; right; exact H | right; apply E1; left; exact H
                                | right; apply E1; right; exact H].
Qed.
