(* First half of the refinement: what the renderer's first pass and its
   width / alignment / row-to-lines loops compute, in terms of the spec's
   declarative functions. *)
From Tab Require Import Model.Text Spec.TextLayout Proofs.TextBase.

Local Open Scope nat_scope.

Section Measure.
  Variable W : bytes -> nat.

  (* ---------------------------------------------------------------- *)
  (* dimensionSetter                                                   *)
  Definition mline (c : vcell) (s : bytes) : wstr := mkWS s (Z.of_nat (linew W c s)).
  Definition mlines (c : vcell) : list wstr :=
    map (mline c) (cell_lines c) ++ repeat ws_zero (cell_height c - length (cell_lines c)).
  Definition mcell_of (c : vcell) : mcell := mkMC (vc_tw c) (vc_h c) (mlines c).

  Lemma lines_cell_lines c : lines (vc_text c) = Ok (cell_lines c).
  Proof.
    unfold cell_lines, lines_of. destruct (lines_ok (vc_text c)) as [ls E]. rewrite E. reflexivity.
  Qed.

  Lemma fill_lines_ok ls : forall pre k,
    fill_lines W (length pre) ls (pre ++ repeat ws_zero (length ls + k))
    = Ok (pre ++ map (fun l => mkWS l (Z.of_nat (W l))) ls ++ repeat ws_zero k).
  Proof.
    induction ls as [|l ls IH]; intros pre k; [reflexivity|].
    cbn [fill_lines length Nat.add repeat map].
    rewrite upd_app_mid by reflexivity. cbn [bind].
    replace (pre ++ mkWS l (Z.of_nat (W l)) :: repeat ws_zero (length ls + k))
      with ((pre ++ [mkWS l (Z.of_nat (W l))]) ++ repeat ws_zero (length ls + k))
      by (rewrite <- app_assoc; reflexivity).
    replace (S (length pre)) with (length (pre ++ [mkWS l (Z.of_nat (W l))]))
      by (rewrite app_length; simpl; lia).
    rewrite IH. rewrite <- app_assoc. reflexivity.
  Qed.

  Lemma dimension_setter_ok c :
    (0 <= vc_tw c)%Z -> (0 <= vc_h c)%Z -> dimension_setter W c = Ok (mcell_of c).
  Proof.
    intros Htw Hh. unfold dimension_setter. rewrite lines_cell_lines. cbn [bind].
    set (ls := cell_lines c).
    set (nl := if (vc_h c <? Zlen ls)%Z then Zlen ls else vc_h c).
    assert (Hnl : Z.to_nat nl = cell_height c).
    { unfold nl, cell_height, Zlen. fold ls. destruct (Z.ltb_spec (vc_h c) (Z.of_nat (length ls))); lia. }
    assert (Hnl0 : (nl <? 0)%Z = false).
    { apply Z.ltb_ge. unfold nl, Zlen. destruct (Z.ltb_spec (vc_h c) (Z.of_nat (length ls))); lia. }
    rewrite Hnl0, Hnl.
    assert (Hk : cell_height c = length ls + (cell_height c - length ls)).
    { unfold cell_height. fold ls. lia. }
    replace (repeat ws_zero (cell_height c))
      with (repeat ws_zero (length ls + (cell_height c - length ls))) by (rewrite <- Hk; reflexivity).
    pose proof (fill_lines_ok ls [] (cell_height c - length ls)) as Efill.
    cbn [length app] in Efill. rewrite Efill. clear Efill. cbn [bind app].
    unfold mcell_of, mlines. fold ls.
    destruct ((length ls =? 1) && vc_widther c) eqn:E.
    - apply andb_true_iff in E as [E1 E2]. apply Nat.eqb_eq in E1.
      destruct ls as [|s [|s2 ls']] eqn:Els; simpl in E1; try lia.
      cbn [map app idx nth_error bind ws_s].
      unfold upd. cbn [length Nat.ltb Nat.leb firstn skipn app bind].
      unfold mline, linew, declares_line_width. fold ls. rewrite Els, E2. cbn [length Nat.eqb andb].
      rewrite Z2Nat.id by exact Htw. reflexivity.
    - cbn [bind]. do 3 f_equal. apply map_ext. intros s.
      unfold mline, linew, declares_line_width. fold ls. rewrite andb_comm, E. reflexivity.
  Qed.

  Lemma mlines_length c : length (mlines c) = cell_height c.
  Proof.
    unfold mlines. rewrite app_length, map_length, repeat_length. unfold cell_height. lia.
  Qed.

  Lemma mlines_nth c k :
    match nth_error (mlines c) k with Some x => x | None => ws_zero end
    = match nth_error (cell_lines c) k with Some s => mline c s | None => ws_zero end.
  Proof.
    unfold mlines. destruct (Nat.lt_ge_cases k (length (cell_lines c))) as [H|H].
    - rewrite nth_error_app1 by (rewrite map_length; exact H).
      rewrite nth_error_map. destruct (nth_error (cell_lines c) k); reflexivity.
    - rewrite nth_error_app2 by (rewrite map_length; exact H).
      rewrite nth_error_repeat_dflt.
      apply nth_error_None in H. rewrite H. reflexivity.
  Qed.

  (* ---------------------------------------------------------------- *)
  (* domain facts                                                      *)
  Lemma tw_cellw c : cell_ok W c -> vc_tw c = Z.of_nat (cellw W c).
  Proof.
    intros (H1 & H2 & H3). unfold cellw. destruct (vc_widther c).
    - rewrite Z2Nat.id by exact H1. reflexivity.
    - apply H3. reflexivity.
  Qed.

  Lemma measure_row_ok r :
    Forall (cell_ok W) r -> measure_row W r = Ok (map mcell_of r).
  Proof.
    intros H. unfold measure_row. apply mapM_ok_map. intros c Hc.
    rewrite Forall_forall in H. destruct (H c Hc) as (H1 & H2 & _).
    apply dimension_setter_ok; assumption.
  Qed.

  Definition mrow_of (r : vrow) : option (list mcell) := option_map (map mcell_of) r.

  Definition vrow_ok (r : vrow) : Prop := match r with Some cs => Forall (cell_ok W) cs | None => True end.

  Lemma measure_opt_ok r : vrow_ok r -> measure_opt W r = Ok (mrow_of r).
  Proof.
    destruct r as [cs|]; simpl; intros H; [|reflexivity]. rewrite measure_row_ok by exact H. reflexivity.
  Qed.

  (* ---------------------------------------------------------------- *)
  (* column widths                                                     *)
  Definition cellw_at' := cellw_at W.

  Lemma cellw_at_nil i : cellw_at W [] i = 0.
  Proof. unfold cellw_at. destruct i; reflexivity. Qed.

  Lemma header_widths_ok n : forall r,
    Forall (cell_ok W) r ->
    header_widths (repeat 0%Z n) (map mcell_of r)
    = map Z.of_nat (map (fun i => cellw_at W r i) (seq 0 n)).
  Proof.
    induction n as [|n IH]; intros r Hr; [reflexivity|].
    cbn [repeat seq map].
    destruct r as [|c r'].
    - cbn [map header_widths]. rewrite cellw_at_nil. cbn [Z.of_nat]. f_equal.
      rewrite <- seq_shift, !map_map.
      rewrite (map_ext _ (fun _ => 0%Z)) by (intros; rewrite cellw_at_nil; reflexivity).
      rewrite map_const_repeat, seq_length. reflexivity.
    - inversion Hr as [|? ? Hc Hr']; subst.
      cbn [map header_widths mc_w mcell_of]. f_equal.
      + unfold cellw_at. cbn [nth_error]. apply tw_cellw. exact Hc.
      + rewrite IH by exact Hr'. rewrite <- seq_shift, !map_map. reflexivity.
  Qed.

  (* pointwise maximum against a (shorter) row *)
  Fixpoint zmax (cur ws : list nat) : list nat :=
    match cur, ws with
    | x :: c', w :: w' => Nat.max x w :: zmax c' w'
    | _, _ => cur
    end.

  (* a row may have more cells than there are columns: the loop stops at the
     column count and the extra cells widen nothing *)
  Lemma row_widths_ok n r : forall pre cur,
    Forall (cell_ok W) r ->
    length (pre ++ cur) = n ->
    row_widths n (length pre) (map mcell_of r) (map Z.of_nat (pre ++ cur))
    = Ok (map Z.of_nat (pre ++ zmax cur (map (cellw W) r))).
  Proof.
    induction r as [|c r IH]; intros pre cur Hr Hn.
    - cbn [map row_widths]. destruct cur; reflexivity.
    - inversion Hr as [|? ? Hc Hr']; subst.
      cbn [map row_widths length] in *.
      destruct cur as [|x cur'].
      { cbn [zmax]. rewrite !app_nil_r. rewrite Nat.leb_refl. reflexivity. }
      replace (length (pre ++ x :: cur') <=? length pre) with false
        by (symmetry; apply Nat.leb_gt; rewrite app_length; simpl; lia).
      rewrite map_app. cbn [map].
      rewrite idx_app_mid by (rewrite map_length; reflexivity). cbn [bind mc_w mcell_of].
      rewrite (tw_cellw c Hc).
      assert (E : (if (Z.of_nat x <? Z.of_nat (cellw W c))%Z
                   then upd (map Z.of_nat pre ++ Z.of_nat x :: map Z.of_nat cur') (length pre) (Z.of_nat (cellw W c))
                   else Ok (map Z.of_nat pre ++ Z.of_nat x :: map Z.of_nat cur'))
                  = Ok (map Z.of_nat ((pre ++ [Nat.max x (cellw W c)]) ++ cur'))).
      { rewrite <- app_assoc. cbn [app]. rewrite map_app. cbn [map].
        destruct (Z.ltb_spec (Z.of_nat x) (Z.of_nat (cellw W c))).
        - rewrite upd_app_mid by (rewrite map_length; reflexivity).
          rewrite Nat.max_r by lia. reflexivity.
        - rewrite Nat.max_l by lia. reflexivity. }
      rewrite E. cbn [bind].
      replace (S (length pre)) with (length (pre ++ [Nat.max x (cellw W c)]))
        by (rewrite app_length; simpl; lia).
      rewrite IH.
      + cbn [zmax]. rewrite <- app_assoc. reflexivity.
      + exact Hr'.
      + rewrite !app_length in *. simpl in *. lia.
  Qed.

  Lemma zmax_seq m : forall (f : nat -> nat) r,
    zmax (map f (seq 0 m)) (map (cellw W) r)
    = map (fun i => Nat.max (f i) (cellw_at W r i)) (seq 0 m).
  Proof.
    induction m as [|m IH]; intros f r; [reflexivity|].
    cbn [seq map]. destruct r as [|c r'].
    - cbn [map zmax]. rewrite cellw_at_nil, Nat.max_0_r. f_equal.
      apply map_ext. intros i. rewrite cellw_at_nil, Nat.max_0_r. reflexivity.
    - cbn [map zmax]. f_equal.
      rewrite <- seq_shift, !map_map. rewrite (IH (fun i => f (S i)) r'). reflexivity.
  Qed.

  Definition vrow_fits (n : nat) (r : vrow) : Prop := row_fits n r.

  Lemma body_widths_ok n rows : forall (f : nat -> nat),
    Forall vrow_ok rows ->
    body_widths n (map mrow_of rows) (map Z.of_nat (map f (seq 0 n)))
    = Ok (map Z.of_nat
            (map (fun i => fold_left Nat.max
                             (map (fun r => cellw_at W r i)
                                  (flat_map (fun r => match r with Some cs => [cs] | None => [] end) rows))
                             (f i))
                 (seq 0 n))).
  Proof.
    induction rows as [|r rows IH]; intros f Hok.
    - reflexivity.
    - inversion Hok as [|? ? Ho1 Hok']; subst.
      destruct r as [cs|]; cbn [map mrow_of option_map body_widths flat_map app].
      + pose proof (row_widths_ok n cs [] (map f (seq 0 n)) Ho1) as E.
        cbn [length app Nat.add] in E. rewrite E.
        * cbn [bind]. rewrite zmax_seq. rewrite IH by assumption.
          do 2 f_equal.
        * rewrite map_length, seq_length. reflexivity.
      + apply IH; assumption.
  Qed.

  (* ---------------------------------------------------------------- *)
  (* alignment resolution                                              *)
  Definition al_of (v : view) (i : nat) : alignment :=
    match own_align v i with
    | Some a => AlKnown a
    | None => match default_align v with Some a => AlKnown a | None => AlNil end
    end.

  Lemma column_aligns_ok v :
    length (v_align v) = S (v_ncols v) ->
    column_aligns v = Ok (map (al_of v) (seq 0 (v_ncols v))).
  Proof.
    intros Hlen. unfold column_aligns.
    destruct (idx_lt (v_align v) 0) as (a0 & E0 & N0); [lia|].
    rewrite E0. cbn [bind]. apply mapM_ok_map. intros i Hi. apply in_seq in Hi.
    destruct (idx_lt (v_align v) (S i)) as (a & Ea & Na); [lia|].
    rewrite Ea. cbn [bind]. unfold al_of, own_align, default_align. rewrite Na, N0. reflexivity.
  Qed.

  Definition norm_al (how : alignment) : alignment :=
    match how with AlNil => AlKnown ALeft | x => x end.

  Lemma al_of_eff v i : norm_al (al_of v i) = AlKnown (eff_align v i).
  Proof.
    unfold norm_al, al_of, eff_align. destruct (own_align v i); [reflexivity|].
    destruct (default_align v); reflexivity.
  Qed.

  (* ---------------------------------------------------------------- *)
  (* RowToLinesOfWidthStrings                                          *)
  Definition wat (r : list vcell) (i k : nat) : wstr :=
    mkWS (fst (cell_line W r i k)) (Z.of_nat (snd (cell_line W r i k))).

  Definition wat_opt (k : nat) (oc : option vcell) : wstr :=
    match oc with
    | Some c => match nth_error (cell_lines c) k with Some s => mline c s | None => ws_zero end
    | None => ws_zero
    end.

  Lemma wat_wat_opt r i k : wat r i k = wat_opt k (nth_error r i).
  Proof.
    unfold wat, wat_opt, cell_line. destruct (nth_error r i) as [c|]; [|reflexivity].
    destruct (nth_error (cell_lines c) k); reflexivity.
  Qed.

  Lemma row_to_lines_fit n r :
    length r <= n ->
    row_to_lines n (map mcell_of r)
    = map (fun k => map (fun i => wat r i k) (seq 0 n))
          (seq 0 (Nat.max 1 (list_max (map cell_height (firstn n r))))).
  Proof.
    intros Hlen. unfold row_to_lines. rewrite map_length.
    rewrite Nat.min_l by exact Hlen.
    rewrite firstn_all2 by (rewrite map_length; lia).
    rewrite (firstn_all2 r) by exact Hlen.
    rewrite fold_left_max. rewrite !map_map.
    rewrite (map_ext (fun x => length (mc_lines (mcell_of x))) cell_height)
      by (intros c; apply mlines_length).
    apply map_ext. intros k.
    transitivity (map (fun i => wat r i k) (seq 0 (length r) ++ seq (length r) (n - length r))).
    2:{ rewrite <- seq_app. replace (length r + (n - length r)) with n by lia. reflexivity. }
    rewrite map_app. f_equal.
    - rewrite (map_ext (fun i => wat r i k) (fun i => wat_opt k (nth_error r i)))
        by (intros; apply wat_wat_opt).
      rewrite (map_nth_error_seq (wat_opt k) r). rewrite map_map.
      apply map_ext. intros c. cbn [mc_lines mcell_of wat_opt]. apply mlines_nth.
    - rewrite (map_ext_in _ (fun _ => ws_zero)).
      + rewrite map_const_repeat, seq_length. reflexivity.
      + intros i Hi. apply in_seq in Hi. rewrite wat_wat_opt.
        replace (nth_error r i) with (@None vcell) by (symmetry; apply nth_error_None; lia).
        reflexivity.
  Qed.

  Lemma nth_error_firstn_lt {A} (l : list A) : forall n i, i < n -> nth_error (firstn n l) i = nth_error l i.
  Proof.
    induction l as [|a l IH]; intros n i H.
    - rewrite firstn_nil. reflexivity.
    - destruct n; [lia|]. destruct i; [reflexivity|]. simpl. apply IH. lia.
  Qed.

  (* cells beyond the column count are not laid out at all *)
  Lemma row_to_lines_trunc n r :
    row_to_lines n (map mcell_of r) = row_to_lines n (map mcell_of (firstn n r)).
  Proof.
    destruct (Nat.le_gt_cases (length r) n) as [H|H].
    - rewrite firstn_all2 by exact H. reflexivity.
    - unfold row_to_lines. rewrite !map_length, firstn_length.
      rewrite (Nat.min_r (length r) n) by lia.
      rewrite (Nat.min_l n (length r)) by lia. rewrite Nat.min_id.
      rewrite !firstn_map, firstn_firstn, Nat.min_id. reflexivity.
  Qed.

  Lemma row_to_lines_ok n r :
    row_to_lines n (map mcell_of r)
    = map (fun k => map (fun i => wat r i k) (seq 0 n))
          (seq 0 (Nat.max 1 (list_max (map cell_height (firstn n r))))).
  Proof.
    rewrite row_to_lines_trunc.
    rewrite row_to_lines_fit by (apply firstn_le_length).
    rewrite firstn_firstn, Nat.min_id.
    apply map_ext. intros k. apply map_ext_in. intros i Hi. apply in_seq in Hi.
    rewrite !wat_wat_opt, nth_error_firstn_lt by lia. reflexivity.
  Qed.
End Measure.
