(* C17, round 6.  Three facts about ALL histories, for the two families the
   correspondence check gained (harness/c17_r6.go):

   - round trip, for every name (any length, any bytes): once a registration of
     (n, d) is in the history and no later registration of n lies before a
     lookup of n, every route - Named, SetDecorationNamed, auto.New, the
     listings - shows d / contains n;
   - names are exact: a lookup of n depends on the registrations of exactly n
     and on nothing else in the history (no other name, however similar - same
     length, same prefix - can stand in for it or hide it);
   - locality: what a goroutine observes (lookups, listings, selections by name
     and every render of its own tables) is exactly what it observes in the
     history from which every operation of every OTHER goroutine has been
     deleted except their registrations.  Goroutines share nothing but the
     content of the registry: a render, a lookup or a listing by somebody else
     changes nothing for anybody. *)
From Coq Require Import Sorting.Sorted Lia.
From Tab Require Import Model.Registry Spec.RegistrySpec Proofs.RegistryProofs.

(* ---------------------------------------------------------------- names are exact *)
Definition is_reg_of (n : bytes) (o : op) : bool :=
  match o with OReg m _ => bytes_eqb m n | _ => false end.

Lemma last_reg_filter ops n : last_reg ops n = last_reg (filter (is_reg_of n) ops) n.
Proof.
  induction ops as [|o r IH]; simpl; [reflexivity|].
  destruct o as [m d| | | | | | | |]; simpl;
    try (rewrite IH; destruct (last_reg (filter (is_reg_of n) r) n); reflexivity).
  destruct (bytes_eqb m n) eqn:E; simpl.
  - rewrite IH, E. reflexivity.
  - rewrite IH. destruct (last_reg (filter (is_reg_of n) r) n); reflexivity.
Qed.

Lemma spec_named_exact init ops n :
  spec_named init ops n = spec_named init (filter (is_reg_of n) ops) n.
Proof. unfold spec_named. rewrite <- last_reg_filter. reflexivity. Qed.

Lemma is_reg_of_spec n o : is_reg_of n o = true <-> exists d, o = OReg n d.
Proof.
  destruct o as [m d| | | | | | | |]; simpl; try (split; [discriminate | intros [d0 H0]; discriminate]).
  split.
  - intros H. apply bytes_eqb_eq in H. subst. eauto.
  - intros [d0 H]. inversion H; subst. apply bytes_eqb_refl.
Qed.

Lemma name_exact init ops n :
  spec_named init ops n = spec_named init (filter (is_reg_of n) ops) n
  /\ forall o, is_reg_of n o = true <-> exists d, o = OReg n d.
Proof. split; [apply spec_named_exact | apply is_reg_of_spec]. Qed.

(* ---------------------------------------------------------------- round trip *)
Lemma last_reg_since ops1 n d mid :
  (forall d', ~ In (OReg n d') mid) ->
  last_reg (ops1 ++ OReg n d :: mid) n = Some d.
Proof.
  intros H. apply last_reg_none_iff in H. rewrite last_reg_app. simpl. rewrite H, bytes_eqb_refl. reflexivity.
Qed.

Section R6.
  Variable body : decoration -> res bytes.
  Variable init : registry.

  Lemma spec_named_since (tr : list (nat * op)) i j g n d :
    i < j ->
    nth_error tr i = Some (g, OReg n d) ->
    (forall m g' d', i < m < j -> nth_error tr m <> Some (g', OReg n d')) ->
    spec_named init (map snd (firstn j tr)) n = d.
  Proof.
    intros Lt Hi Hno.
    destruct (firstn_le_split tr (S i) j) as [mid [E Hm]]; [lia|].
    rewrite E, (firstn_S_nth tr i _ Hi), <- app_assoc, !map_app. simpl.
    unfold spec_named. rewrite last_reg_since; [reflexivity|].
    intros d' I. apply in_map_iff in I. destruct I as [[g' o] [Eo I]]. simpl in Eo. subst o.
    destruct (Hm _ I) as [m [R N]]. apply (Hno m g' d'); [lia | exact N].
  Qed.

  Lemma obs_set tr i g n :
    nth_error tr i = Some (g, OSet n) ->
    nth_error (run body (init_state init) tr) i
    = Some (VSet (dec_is_empty (spec_named init (map snd (firstn i tr)) n))
                 (spec_render body (spec_named init (map snd (firstn i tr)) n))).
  Proof.
    intros H. rewrite (run_nth body tr _ _ _ H). simpl. fold (after body init (firstn i tr)).
    rewrite (text_render_spec body), (inv_named body init). reflexivity.
  Qed.

  Lemma obs_auto tr i g n :
    nth_error tr i = Some (g, OAutoNew n) ->
    nth_error (run body (init_state init) tr) i
    = Some (VRender (spec_render body (spec_named init (map snd (firstn i tr)) n))).
  Proof.
    intros H. rewrite (run_nth body tr _ _ _ H). simpl. fold (after body init (firstn i tr)).
    rewrite (text_render_spec body), (inv_named body init). reflexivity.
  Qed.

  Lemma roundtrip (progs : list (list (nat * op))) tr :
    is_merge progs tr -> forall i j g n d,
    i < j ->
    nth_error tr i = Some (g, OReg n d) ->
    (forall m g' d', i < m < j -> nth_error tr m <> Some (g', OReg n d')) ->
    forall g',
      (nth_error tr j = Some (g', ONamed n) ->
         nth_error (run body (init_state init) tr) j = Some (VDec d))
   /\ (nth_error tr j = Some (g', OSet n) ->
         nth_error (run body (init_state init) tr) j = Some (VSet (dec_is_empty d) (spec_render body d)))
   /\ (nth_error tr j = Some (g', OAutoNew n) ->
         nth_error (run body (init_state init) tr) j = Some (VRender (spec_render body d)))
   /\ (NoDup (map fst init) -> nth_error tr j = Some (g', ONames) ->
         exists l, nth_error (run body (init_state init) tr) j = Some (VNames l) /\ In n l).
  Proof.
    intros _ i j g n d Lt Hi Hno g'.
    pose proof (spec_named_since tr i j g n d Lt Hi Hno) as HS.
    repeat split.
    - intros Hj. rewrite (reg_named body init tr j g' n Hj), HS. reflexivity.
    - intros Hj. rewrite (obs_set tr j g' n Hj), HS. reflexivity.
    - intros Hj. rewrite (obs_auto tr j g' n Hj), HS. reflexivity.
    - intros Nd Hj. destruct (reg_names_obs body init tr j g' Nd Hj) as [l [A [_ [_ C]]]].
      exists l. split; [exact A|]. apply C. right. exists d.
      destruct (firstn_le_split tr (S i) j) as [mid [E _]]; [lia|].
      rewrite E, (firstn_S_nth tr i _ Hi), <- app_assoc, !map_app. simpl.
      apply in_or_app. right. left. reflexivity.
  Qed.

  (* ---------------------------------------------------------------- locality *)
  Definition is_reg (o : op) : bool := match o with OReg _ _ => true | _ => false end.

  (* the operations that concern goroutine g: its own, and everybody's registrations *)
  Definition concerns (g : nat) (a : nat * op) : bool := Nat.eqb (fst a) g || is_reg (snd a).

  (* what goroutine g did and saw, in order *)
  Fixpoint view (g : nat) (tr : list (nat * op)) (vs : list obs) : list (op * obs) :=
    match tr, vs with
    | (g', o) :: tr', v :: vs' => if Nat.eqb g' g then (o, v) :: view g tr' vs' else view g tr' vs'
    | _, _ => []
    end.

  Definition rel (g : nat) (s1 s2 : gstate) : Prop :=
    g_reg s1 = g_reg s2 /\ g_tabs s1 g = g_tabs s2 g.

  Lemma run_cons st a r : run body st (a :: r) = snd (step body st a) :: run body (fst (step body st a)) r.
  Proof. simpl. destruct (step body st a). reflexivity. Qed.

  Lemma step_same g o s1 s2 : rel g s1 s2 ->
    snd (step body s1 (g, o)) = snd (step body s2 (g, o))
    /\ rel g (fst (step body s1 (g, o))) (fst (step body s2 (g, o))).
  Proof.
    destruct s1 as [r1 t1], s2 as [r2 t2]. unfold rel. simpl. intros [Hr Ht]. subst r2.
    destruct o; unfold set_decoration_named; simpl; rewrite <- ?Ht;
      repeat match goal with |- context [nth_error ?l ?k] => destruct (nth_error l k) end;
      simpl; unfold upd; rewrite ?Nat.eqb_refl; auto.
  Qed.

  Lemma step_other_tabs g g' o st : Nat.eqb g' g = false ->
    g_tabs (fst (step body st (g', o))) g = g_tabs st g.
  Proof.
    intros E. assert (E' : Nat.eqb g g' = false) by (rewrite Nat.eqb_sym; exact E).
    destruct o; simpl; try reflexivity; try (unfold upd; rewrite E'; reflexivity);
      destruct (nth_error (g_tabs st g') k); simpl; try reflexivity; unfold upd; rewrite E'; reflexivity.
  Qed.

  Lemma local_gen g tr : forall s1 s2, rel g s1 s2 ->
    view g tr (run body s1 tr)
    = view g (filter (concerns g) tr) (run body s2 (filter (concerns g) tr)).
  Proof.
    induction tr as [|[g' o] tr IH]; intros s1 s2 R; [reflexivity|].
    rewrite run_cons. cbn [view filter].
    change (concerns g (g', o)) with (Nat.eqb g' g || is_reg o).
    destruct (Nat.eqb g' g) eqn:E.
    - apply Nat.eqb_eq in E. subst g'. cbn [orb]. rewrite run_cons. cbn [view]. rewrite Nat.eqb_refl.
      destruct (step_same g o s1 s2 R) as [A B]. rewrite A. f_equal. apply IH. exact B.
    - cbn [orb]. destruct (is_reg o) eqn:Q.
      + rewrite run_cons. cbn [view]. rewrite E. apply IH.
        destruct R as [Rr Rt]. split.
        * rewrite !(step_reg body). rewrite Rr. reflexivity.
        * rewrite !step_other_tabs by exact E. exact Rt.
      + apply IH. destruct R as [Rr Rt]. split.
        * rewrite (step_reg body). destruct o; try exact Rr. discriminate.
        * rewrite step_other_tabs by exact E. exact Rt.
  Qed.

  Lemma local (progs : list (list (nat * op))) tr g :
    is_merge progs tr ->
    view g tr (run body (init_state init) tr)
    = view g (filter (concerns g) tr) (run body (init_state init) (filter (concerns g) tr)).
  Proof. intros _. apply local_gen. split; reflexivity. Qed.
End R6.
