(* The wrapper machine (Model/HtmlWrap.v: template heap, closures over a
   wrapper, shared template pointers of by-value copies) refines the history
   reading of Spec/HtmlWrapSpec.v: every render of every history is html_exec
   of the wrapper's CURRENT settings over the CURRENT view of the table it
   points at NOW - whatever was rendered before, through whichever wrapper. *)
From Tab Require Import Model.HtmlWrap Spec.HtmlWrapSpec Spec.HtmlTok Proofs.HtmlProofs.

(* one render's input, as Model/Html.v takes it *)
Definition in_of (cv : hcfg * view) : html_in :=
  mkHtmlIn (c_id (fst cv)) (c_class (fst cv)) (c_caption (fst cv))
           (gen_set (c_gen (fst cv))) (gen_script (c_gen (fst cv))) (snd cv).

Definition exec_of (r : res (hcfg * view)) : res (bytes * list nat) :=
  bind r (fun cv => html_exec (in_of cv)).

(* a wrapper's template pointer always points into the heap *)
Definition tpl_inv (s : hstate) : Prop :=
  forall w wr k, nth_error (hs_wraps s) w = Some wr -> hw_tpl wr = Some k -> k < length (hs_tpls s).

Definition sim (s : hstate) (p : hspec_state) : Prop :=
  hs_tables s = ss_tables p /\ map hw_cfg (hs_wraps s) = ss_cfgs p /\ tpl_inv s.

Lemma sim_init : sim hs_init ss_init.
Proof.
  repeat split. intros [|w] wr k H; discriminate H.
Qed.

Lemma nth_error_snoc {A} (l : list A) a : nth_error (l ++ [a]) (length l) = Some a.
Proof. rewrite nth_error_app2 by lia. rewrite Nat.sub_diag. reflexivity. Qed.

Lemma nth_error_snoc_inv {A} (l : list A) a i x :
  nth_error (l ++ [a]) i = Some x -> nth_error l i = Some x \/ (i = length l /\ x = a).
Proof.
  intros H. destruct (Nat.lt_ge_cases i (length l)) as [Hlt|Hge].
  - rewrite nth_error_app1 in H by exact Hlt. auto.
  - rewrite nth_error_app2 in H by exact Hge.
    destruct (i - length l) as [|d] eqn:E.
    + cbn in H. inversion H. right. split; [lia | reflexivity].
    + cbn in H. destruct d; discriminate H.
Qed.

(* RenderTo's set-up never fails on an existing wrapper, changes nothing the
   caller can see, and leaves the template's functions reading THIS wrapper *)
Lemma prepare_ok s w wr : tpl_inv s -> nth_error (hs_wraps s) w = Some wr ->
  exists s', h_prepare s w = Ok s'
    /\ hs_tables s' = hs_tables s
    /\ map hw_cfg (hs_wraps s') = map hw_cfg (hs_wraps s)
    /\ tpl_inv s'
    /\ h_execute s' w = bind (idx (hs_tables s) (c_table (hw_cfg wr)))
                             (fun v => html_exec (in_of (hw_cfg wr, v))).
Proof.
  intros Hinv Hw. unfold h_prepare.
  rewrite (proj2 (idx_ok_nth _ _ _) Hw). cbn [bind].
  destruct (hw_tpl wr) as [k|] eqn:Et.
  - (* the cached template: its functions are registered again *)
    pose proof (Hinv w wr k Hw Et) as Hk.
    destruct (idx_lt (hs_tpls s) k Hk) as (b0 & Hb0 & Hn0).
    rewrite Hb0. cbn [bind].
    eexists. split; [reflexivity|]. cbn [hs_tables hs_wraps hs_tpls].
    split; [reflexivity|]. split; [reflexivity|]. split.
    + intros w' wr' k' H1 H2. cbn [hs_wraps hs_tpls] in *. rewrite modify_length. eapply Hinv; eassumption.
    + unfold h_execute. cbn [hs_tables hs_wraps hs_tpls].
      rewrite (proj2 (idx_ok_nth _ _ _) Hw). cbn [bind]. rewrite Et.
      assert (Hb : idx (modify (hs_tpls s) k (fun _ => w)) k = Ok w).
      { apply idx_ok_nth. rewrite modify_nth_eq, Hn0. reflexivity. }
      rewrite Hb. cbn [bind]. rewrite (proj2 (idx_ok_nth _ _ _) Hw). cbn [bind].
      reflexivity.
  - (* the first render of this wrapper: a new template *)
    eexists. split; [reflexivity|]. cbn [hs_tables hs_wraps hs_tpls].
    split; [reflexivity|]. split.
    { apply modify_map_id. reflexivity. }
    assert (Hw' : nth_error (modify (hs_wraps s) w (fun x => mkHW (hw_cfg x) (Some (length (hs_tpls s))))) w
                  = Some (mkHW (hw_cfg wr) (Some (length (hs_tpls s))))).
    { rewrite modify_nth_eq, Hw. reflexivity. }
    split.
    + intros w' wr' k' H1 H2. cbn [hs_wraps hs_tpls] in *. rewrite app_length. cbn [length].
      destruct (Nat.eq_dec w w') as [<-|Hne].
      * rewrite Hw' in H1. inversion H1; subst wr'. cbn [hw_tpl] in H2. inversion H2. lia.
      * rewrite modify_nth_neq in H1 by exact Hne. pose proof (Hinv w' wr' k' H1 H2). lia.
    + unfold h_execute. cbn [hs_tables hs_wraps hs_tpls].
      rewrite (proj2 (idx_ok_nth _ _ _) Hw'). cbn [bind hw_tpl hw_cfg].
      rewrite (proj2 (idx_ok_nth _ _ _) (nth_error_snoc (hs_tpls s) w)). cbn [bind].
      rewrite (proj2 (idx_ok_nth _ _ _) Hw'). cbn [bind hw_tpl hw_cfg].
      reflexivity.
Qed.

Lemma prepare_missing s w : nth_error (hs_wraps s) w = None -> h_prepare s w = Panic.
Proof. intros H. unfold h_prepare, idx. rewrite H. reflexivity. Qed.

Lemma sim_render s p w : sim s p ->
  match nth_error (hs_wraps s) w with
  | Some wr => bind (idx (hs_tables s) (c_table (hw_cfg wr))) (fun v => html_exec (in_of (hw_cfg wr, v)))
  | None => Panic
  end = exec_of (ss_render p w).
Proof.
  intros (Ht & Hc & _). unfold ss_render. rewrite <- Hc, <- Ht, nth_error_map.
  destruct (nth_error (hs_wraps s) w) as [wr|]; cbn [option_map]; [|reflexivity].
  unfold idx. destruct (nth_error (hs_tables s) (c_table (hw_cfg wr))); reflexivity.
Qed.

Lemma sim_step s p o : sim s p ->
  sim (fst (h_step s o)) (fst (ss_step p o))
  /\ snd (h_step s o) = map exec_of (snd (ss_step p o)).
Proof.
  intros Hs. pose proof Hs as (Ht & Hc & Hinv).
  destruct o as [t v|t|w|w t|w id cls cap g|w|w]; cbn [h_step ss_step].
  - (* HTable *)
    cbn [fst snd map]. split; [|reflexivity]. repeat split; cbn [hs_tables hs_wraps hs_tpls ss_tables ss_cfgs]; auto.
    rewrite Ht. reflexivity.
  - (* HWrap *)
    cbn [fst snd map]. split; [|reflexivity]. repeat split; cbn [hs_tables hs_wraps hs_tpls ss_tables ss_cfgs]; auto.
    + rewrite map_app, Hc. reflexivity.
    + intros w' wr' k' H1 H2. cbn [hs_wraps hs_tpls] in *.
      apply nth_error_snoc_inv in H1 as [H1|[_ ->]]; [eapply Hinv; eassumption | discriminate H2].
  - (* HCopy *)
    rewrite <- Hc, nth_error_map.
    destruct (nth_error (hs_wraps s) w) as [wr|] eqn:Ew; cbn [option_map fst snd map].
    + split; [|reflexivity]. repeat split; cbn [hs_tables hs_wraps hs_tpls ss_tables ss_cfgs]; auto.
      * rewrite map_app. reflexivity.
      * intros w' wr' k' H1 H2. cbn [hs_wraps hs_tpls] in *.
        apply nth_error_snoc_inv in H1 as [H1|[_ ->]]; eapply Hinv; eassumption.
    + split; [|reflexivity]. exact Hs.
  - (* HPoint *)
    cbn [fst snd map]. split; [|reflexivity]. repeat split; cbn [hs_tables hs_wraps hs_tpls ss_tables ss_cfgs]; auto.
    + rewrite <- Hc. apply modify_map. reflexivity.
    + intros w' wr' k' H1 H2. cbn [hs_wraps hs_tpls] in *.
      destruct (Nat.eq_dec w w') as [<-|Hne].
      * rewrite modify_nth_eq in H1. destruct (nth_error (hs_wraps s) w) as [wr|] eqn:Ew; [|discriminate H1].
        cbn in H1. inversion H1; subst wr'. cbn [hw_set_cfg hw_tpl] in H2. eapply Hinv; eassumption.
      * rewrite modify_nth_neq in H1 by exact Hne. eapply Hinv; eassumption.
  - (* HConf *)
    cbn [fst snd map]. split; [|reflexivity]. repeat split; cbn [hs_tables hs_wraps hs_tpls ss_tables ss_cfgs]; auto.
    + rewrite <- Hc. apply modify_map. reflexivity.
    + intros w' wr' k' H1 H2. cbn [hs_wraps hs_tpls] in *.
      destruct (Nat.eq_dec w w') as [<-|Hne].
      * rewrite modify_nth_eq in H1. destruct (nth_error (hs_wraps s) w) as [wr|] eqn:Ew; [|discriminate H1].
        cbn in H1. inversion H1; subst wr'. cbn [hw_set_cfg hw_tpl] in H2. eapply Hinv; eassumption.
      * rewrite modify_nth_neq in H1 by exact Hne. eapply Hinv; eassumption.
  - (* HRender *)
    pose proof (sim_render s p w Hs) as Hr.
    destruct (nth_error (hs_wraps s) w) as [wr|] eqn:Ew.
    + destruct (prepare_ok s w wr Hinv Ew) as (s' & Hp & Ht' & Hc' & Hinv' & Hx).
      rewrite Hp. cbn [fst snd map]. split.
      * repeat split; [congruence | congruence | exact Hinv'].
      * rewrite Hx, Hr. reflexivity.
    + rewrite (prepare_missing s w Ew). cbn [fst snd map]. split; [exact Hs|]. rewrite <- Hr. reflexivity.
  - (* HRenderFails *)
    destruct (nth_error (hs_wraps s) w) as [wr|] eqn:Ew.
    + destruct (prepare_ok s w wr Hinv Ew) as (s' & Hp & Ht' & Hc' & Hinv' & _).
      rewrite Hp. cbn [fst snd map]. split; [|reflexivity].
      repeat split; [congruence | congruence | exact Hinv'].
    + rewrite (prepare_missing s w Ew). cbn [fst snd map]. split; [exact Hs | reflexivity].
Qed.

Lemma sim_run ops : forall s p, sim s p -> h_run s ops = map exec_of (ss_run p ops).
Proof.
  induction ops as [|o ops IH]; intros s p Hs; cbn [h_run ss_run]; [reflexivity|].
  destruct (sim_step s p o Hs) as (Hs' & Ho).
  destruct (h_step s o) as [s' obs]. destruct (ss_step p o) as [p' r]. cbn [fst snd] in *.
  rewrite map_app, Ho, (IH s' p' Hs'). reflexivity.
Qed.

(* every render of every history: html_exec of the current settings over the
   current view of the table pointed at *)
Theorem wrapper_refines ops : h_outputs ops = map exec_of (hspec_renders ops).
Proof. apply sim_run, sim_init. Qed.

(* so the skeleton theorem and the generator-call theorem hold for every
   render of every history *)
Theorem wrapper_history ops k cv :
  nth_error (hspec_renders ops) k = Some (Ok cv) -> rc_fit (in_of cv) ->
  exists out calls,
    nth_error (h_outputs ops) k = Some (Ok (out, calls))
    /\ tokenize out = Some (skeleton (spec_nul_subst (spec_of (in_of cv))))
    /\ calls = expected_calls (spec_of (in_of cv)).
Proof.
  intros Hk Hfit. rewrite wrapper_refines, nth_error_map, Hk. cbn [option_map exec_of bind].
  destruct (html_no_panic (in_of cv) Hfit) as ([out calls] & Hx).
  exists out, calls. split; [rewrite Hx; reflexivity|].
  apply html_ok_b_spec. apply html_ok_model; assumption.
Qed.

(* the number of observations is the number of HRender steps, in both readings *)
Lemma wrapper_outputs_length ops : length (h_outputs ops) = length (hspec_renders ops).
Proof. rewrite wrapper_refines, map_length. reflexivity. Qed.
