(* C07, part 2: the JSON parser of Spec/JsonParse.v reads the model's output
   back as the expected array of objects.  The item and string encodings are
   oracle bytes; what is assumed about them is stated as str_ok / enc_ok. *)
From Tab Require Import Model.Json Spec.JsonParse Spec.JsonExpect Proofs.JsonModelProofs.
Local Open Scope N_scope.

(* bytes after which a value is certainly over *)
Definition is_delim (d : N) : bool := N.eqb d COMMA || N.eqb d RBRC || N.eqb d RBRK || is_ws d.

(* e is a JSON string denoting k: an opening quote, then bytes that - from the
   in-string state, on whatever stack - complete the string value k *)
Definition str_ok (e k : bytes) : Prop :=
  exists body, e = DQ :: body
               /\ forall stk, j_run (stk, MStr [] (SNorm None)) body = j_complete stk (JStr k).

(* e is a self-delimiting JSON value denoting x: where a value is expected, on
   whatever stack, reading e and then a delimiter is completing x and then
   reading that delimiter *)
Definition enc_ok (e : bytes) (x : jvalue) : Prop :=
  forall stk d, is_delim d = true -> j_run (stk, MVal) (e ++ [d]) = j_step (j_complete stk x) d.

(* st behaves like st' on every delimiter (a number is only complete once the
   next byte is seen) *)
Definition pending (st st' : jstate) : Prop :=
  forall d, is_delim d = true -> j_step st d = j_step st' d.

Lemma str_ok_enc_ok e k : str_ok e k -> enc_ok e (JStr k).
Proof.
  intros (body & -> & H) stk d Hd.
  change ((DQ :: body) ++ [d]) with (DQ :: (body ++ [d])). rewrite j_run_cons.
  change (j_step (stk, MVal) DQ) with (stk, MStr [] (SNorm None)).
  rewrite j_run_app, H. reflexivity.
Qed.

Lemma enc_ok_pending e x stk : enc_ok e x -> pending (j_run (stk, MVal) e) (j_complete stk x).
Proof.
  intros H d Hd. rewrite <- (H stk d Hd). rewrite j_run_app. reflexivity.
Qed.

(* ---------- single steps on the literal bytes the renderer writes ---------- *)

Definition st_obj (ms : list (bytes * jvalue)) (stk : list jframe) : jstate := (FObj ms None :: stk, MAfter).

Definition val_mode (m : jmode) : Prop := m = MVal \/ m = MArrFirst.

Lemma step_open_obj stk m : val_mode m -> j_step (stk, m) 123 = (FObj [] None :: stk, MObjFirst).
Proof. intros [-> | ->]; reflexivity. Qed.

Lemma step_close_empty_obj stk : j_step (FObj [] None :: stk, MObjFirst) 125 = j_complete stk (JObj []).
Proof. reflexivity. Qed.

Lemma step_close_obj ms stk : j_step (st_obj ms stk) 125 = j_complete stk (JObj ms).
Proof. reflexivity. Qed.

Lemma step_comma_obj ms stk : j_step (st_obj ms stk) 44 = (FObj ms None :: stk, MKey).
Proof. reflexivity. Qed.

Lemma step_sp_key ms stk : j_step (FObj ms None :: stk, MKey) 32 = (FObj ms None :: stk, MKey).
Proof. reflexivity. Qed.

Lemma key_run (e k : bytes) ms stk m :
  str_ok e k -> m = MKey \/ m = MObjFirst ->
  j_run (FObj ms None :: stk, m) (e ++ js_colon_sp) = (FObj ms (Some k) :: stk, MVal).
Proof.
  intros (body & E & H) Hm. rewrite E.
  change ((DQ :: body) ++ js_colon_sp) with (DQ :: (body ++ js_colon_sp)). rewrite j_run_cons.
  assert (Hq : j_step (FObj ms None :: stk, m) DQ = (FObj ms None :: stk, MStr [] (SNorm None))).
  { destruct Hm as [-> | ->]; reflexivity. }
  rewrite Hq, j_run_app, H. reflexivity.
Qed.

(* key, colon, space, value: one member more, pending its delimiter *)
Lemma member_run (e k : bytes) t x ms stk m :
  str_ok e k -> m = MKey \/ m = MObjFirst -> enc_ok t x ->
  pending (j_run (FObj ms None :: stk, m) ((e ++ js_colon_sp) ++ t))
          (st_obj (ms ++ [(k, x)]) stk).
Proof.
  intros He Hm Ht. rewrite j_run_app, (key_run e k ms stk m He Hm).
  apply (enc_ok_pending t x (FObj ms (Some k) :: stk) Ht).
Qed.

Lemma skipn_head_In {A} (l : list A) i h r : skipn i l = h :: r -> In h l.
Proof.
  intros H. rewrite <- (firstn_skipn i l), H. apply in_or_app. right. left. reflexivity.
Qed.

(* ---------- what is assumed of the oracle encodings of one table ---------- *)

Section Assumed.
  Variable strenc : bytes -> bytes.     (* json.Marshal(string) *)
  Variable strval : bytes -> bytes.     (* the string that encoding denotes *)
  Variable encval : bytes -> jvalue.    (* the value an item encoding denotes *)

  Definition text_enc_fine (c : vcell) : Prop := str_ok (strenc (vc_text c)) (strval (vc_text c)).

  (* the encoding that stands for the cell's value is a self-delimiting JSON
     value: the item's, or the text's where the {} fallback applies *)
  Definition cell_enc_fine (c : vcell) : Prop :=
    forall e, vc_json c = Some e ->
      if bytes_eqb e the_empty_obj && negb (match vc_text c with [] => true | _ => false end)
      then text_enc_fine c
      else enc_ok e (encval e).

  Definition encodings_ok (v : view) : Prop :=
    Forall text_enc_fine (header_cells v) /\ Forall (Forall cell_enc_fine) (body_rows v).
End Assumed.

Lemma is_delim_comma : is_delim 44 = true. Proof. reflexivity. Qed.
Lemma is_delim_rbrace : is_delim 125 = true. Proof. reflexivity. Qed.

(* ---------- one row object ---------- *)

Section Roundtrip.
  Variable strenc : bytes -> bytes.
  Variable strval : bytes -> bytes.
  Variable encval : bytes -> jvalue.

  Notation cellval := (cell_denotation strval encval).
  Notation cell_enc_fine := (cell_enc_fine strenc strval encval).
  Notation text_enc_fine := (text_enc_fine strenc strval).

  Lemma cell_value_enc_ok c t :
    cell_enc_fine c -> json_cell_value strenc c = Ok t -> enc_ok t (cellval c).
  Proof.
    unfold json_cell_value, cell_denotation. intros Hc.
    destruct (vc_json c) as [e|] eqn:E; [|discriminate].
    specialize (Hc e E).
    change js_empty_obj with the_empty_obj.
    replace (nonempty (vc_text c)) with (negb (match vc_text c with [] => true | _ => false end))
      by (destruct (vc_text c); reflexivity).
    destruct (bytes_eqb e the_empty_obj && negb (match vc_text c with [] => true | _ => false end));
      intros H; inversion H; subst.
    - apply str_ok_enc_ok, Hc.
    - exact Hc.
  Qed.

  Lemma emit_cells_run v hs skips keys stk m0 :
    hdr_env strenc v hs skips keys -> val_mode m0 -> Forall text_enc_fine hs ->
    forall cells i first ws f st ms,
      (i + length cells <= length keys)%nat ->
      Forall cell_enc_fine cells ->
      json_emit_cells strenc skips keys cells i first = Ok (ws, f) ->
      (if first then st = (stk, m0) /\ ms = [] else pending st (st_obj ms stk)) ->
      if f
      then first = true /\ ws = [] /\ row_members strval cellval v (skipn i hs) i cells = []
      else pending (j_run st (concat ws))
                   (st_obj (ms ++ row_members strval cellval v (skipn i hs) i cells) stk).
  Proof.
    intros He Hm0 Hhs. induction cells as [|c cells IH]; intros i first ws f st ms Hi Hfine Hemit Hst.
    - cbn [json_emit_cells] in Hemit. inversion Hemit; subst.
      destruct f.
      + repeat split. destruct (skipn i hs); reflexivity.
      + cbn [concat]. replace (row_members strval cellval v (skipn i hs) i []) with (@nil (bytes * jvalue))
          by (destruct (skipn i hs); reflexivity).
        rewrite app_nil_r. exact Hst.
    - cbn [length] in Hi. inversion Hfine as [|? ? Hc Hcs]; subst.
      destruct (hdr_env_at strenc v hs skips keys i He ltac:(lia)) as (h & Hs & Hk & Hsk).
      cbn [json_emit_cells] in Hemit. rewrite Hs in Hemit. cbn [bind] in Hemit.
      rewrite Hsk. cbn [row_members].
      destruct (eff_skip v i && vc_empty c) eqn:Eskip.
      + (* omitted *)
        specialize (IH (S i) first ws f st ms ltac:(lia) Hcs Hemit Hst).
        cbn [app]. exact IH.
      + (* written *)
        rewrite Hk in Hemit. cbn [bind] in Hemit.
        destruct (json_cell_value strenc c) as [t| |] eqn:Et; cbn [bind] in Hemit; try discriminate.
        destruct (json_emit_cells strenc skips keys cells (S i) false) as [[ws' f']| |] eqn:Erec;
          cbn [bind] in Hemit; try discriminate.
        inversion Hemit; subst ws f. clear Hemit.
        pose proof (cell_value_enc_ok c t Hc Et) as Hok.
        set (mem := (strval (vc_text h), cellval c)).
        assert (Hkey : str_ok (strenc (vc_text h)) (strval (vc_text h))).
        { apply (proj1 (Forall_forall _ _) Hhs h). apply (skipn_head_In hs i h _ Hsk). }
        assert (Hpend : pending (j_run st ((if first then js_lbrace else js_comma_sp) ++ keyenc strenc h ++ t))
                                (st_obj (ms ++ [mem]) stk)).
        { destruct first.
          - destruct Hst as [-> ->]. unfold js_lbrace.
            change ([123] ++ keyenc strenc h ++ t) with (123 :: (keyenc strenc h ++ t)).
            rewrite j_run_cons, (step_open_obj stk m0 Hm0).
            apply (member_run _ _ _ _ _ _ _ Hkey). right; reflexivity. exact Hok.
          - unfold js_comma_sp.
            change ([44; 32] ++ keyenc strenc h ++ t) with (44 :: 32 :: (keyenc strenc h ++ t)).
            rewrite j_run_cons, (Hst 44 is_delim_comma), step_comma_obj, j_run_cons, step_sp_key.
            apply (member_run _ _ _ _ _ _ _ Hkey). left; reflexivity. exact Hok. }
        specialize (IH (S i) false ws' f' _ (ms ++ [mem]) ltac:(lia) Hcs Erec Hpend).
        destruct f'.
        * destruct IH as [IH _]. discriminate.
        * cbn [concat]. rewrite !app_assoc, j_run_app, <- !app_assoc.
          rewrite <- app_assoc in IH. exact IH.
  Qed.

  Lemma emit_row_run v hs skips keys stk m0 cells w :
    hdr_env strenc v hs skips keys -> val_mode m0 -> Forall text_enc_fine hs -> Forall cell_enc_fine cells ->
    json_emit_row_object strenc skips keys cells = Ok w ->
    j_run (stk, m0) (concat w) = j_complete stk (JObj (row_members strval cellval v hs 0 cells)).
  Proof.
    intros He Hm0 Hhs Hfine. unfold json_emit_row_object.
    destruct (length keys <? length cells)%nat eqn:E; [discriminate|]. apply Nat.ltb_ge in E.
    destruct (json_emit_cells strenc skips keys cells 0 true) as [[ws f]| |] eqn:Ec; cbn [bind]; try discriminate.
    intros H. inversion H; subst w. clear H.
    pose proof (emit_cells_run v hs skips keys stk m0 He Hm0 Hhs cells 0%nat true ws f (stk, m0) []
                  ltac:(lia) Hfine Ec (conj eq_refl eq_refl)) as Hrun.
    rewrite concat_app, j_run_app. cbn [concat]. rewrite app_nil_r.
    destruct f.
    - destruct Hrun as (_ & -> & Hm). cbn [skipn] in Hm. rewrite Hm. cbn [concat j_run fold_left].
      unfold js_empty_obj. change (fold_left j_step [123; 125] (stk, m0)) with (j_run (stk, m0) [123; 125]).
      rewrite j_run_cons, (step_open_obj stk m0 Hm0). reflexivity.
    - cbn [app skipn] in Hrun. unfold js_rbrace.
      change (j_run (j_run (stk, m0) (concat ws)) [125]) with (j_step (j_run (stk, m0) (concat ws)) 125).
      rewrite (Hrun 125 is_delim_rbrace). apply step_close_obj.
  Qed.

  (* ---------- the row loop and its comma look-ahead ---------- *)

  Definition has_obj (rows : list vrow) : bool :=
    existsb (fun r => match r with Some _ => true | None => false end) rows.

  Lemma last_object_spec : forall rows i acc,
    (has_obj rows = true -> (Z.of_nat i <= json_last_object rows i acc)%Z)
    /\ (has_obj rows = false -> json_last_object rows i acc = acc).
  Proof.
    induction rows as [|[cells|] rows IH]; intros i acc; cbn [json_last_object has_obj existsb orb].
    - split; [discriminate | reflexivity].
    - split; [intros _ | discriminate].
      destruct (IH (S i) (Z.of_nat i)) as [H1 H2]. fold (has_obj rows) in H1, H2.
      destruct (has_obj rows); [specialize (H1 eq_refl); lia | rewrite (H2 eq_refl); lia].
    - destruct (IH (S i) acc) as [H1 H2]. fold (has_obj rows).
      split; [intros H; specialize (H1 H); lia | exact H2].
  Qed.

  Definition ws_mode (m : jmode) : Prop := m = MVal \/ m = MArrFirst \/ m = MAfter.

  Lemma step_lf stk m : ws_mode m -> j_step (stk, m) 10 = (stk, m).
  Proof. intros [-> | [-> | ->]]; reflexivity. Qed.

  (* rows without any object write newlines only *)
  Lemma emit_rows_seps skips keys last stk m : ws_mode m ->
    forall rows i body, has_obj rows = false ->
    json_emit_rows strenc skips keys rows i last = Ok body ->
    j_run (stk, m) (concat body) = (stk, m).
  Proof.
    intros Hm. induction rows as [|[cells|] rows IH]; intros i body Hno Hb.
    - inversion Hb. reflexivity.
    - discriminate.
    - cbn [json_emit_rows] in Hb. cbn [has_obj existsb orb] in Hno.
      destruct (json_emit_rows strenc skips keys rows (S i) last) as [ws| |] eqn:E; cbn [bind] in Hb; try discriminate.
      inversion Hb; subst body. cbn [concat]. unfold js_nl.
      change ([10] ++ concat ws) with (10 :: concat ws). rewrite j_run_cons, (step_lf stk m Hm).
      apply (IH (S i) ws Hno E).
  Qed.

  Lemma rows_bodies_no_obj rows : has_obj rows = false -> rows_bodies rows = [].
  Proof.
    induction rows as [|[cells|] rows IH]; cbn [has_obj existsb orb]; intros H; [reflexivity | discriminate |].
    cbn [rows_bodies flat_map app]. apply IH, H.
  Qed.

  Lemma emit_rows_run v hs skips keys :
    hdr_env strenc v hs skips keys -> Forall text_enc_fine hs ->
    forall rows i acc body items m0,
      (acc < Z.of_nat i)%Z -> val_mode m0 ->
      Forall (Forall cell_enc_fine) (rows_bodies rows) ->
      json_emit_rows strenc skips keys rows i (json_last_object rows i acc) = Ok body ->
      j_run ([FArr items], m0) (concat body)
      = if has_obj rows
        then ([FArr (items ++ map (fun cells => JObj (row_members strval cellval v hs 0 cells)) (rows_bodies rows))], MAfter)
        else ([FArr items], m0).
  Proof.
    intros He Hhs. induction rows as [|[cells|] rows IH]; intros i acc body items m0 Hacc Hm0 Hfine Hb.
    - inversion Hb. reflexivity.
    - (* a row: its object, then ",\n" exactly when another object follows *)
      cbn [json_emit_rows json_last_object] in Hb. cbn [has_obj existsb orb].
      cbn [rows_bodies flat_map app] in Hfine |- *. fold (rows_bodies rows) in Hfine |- *.
      inversion Hfine as [|? ? Hc Hrest]; subst.
      destruct (json_emit_row_object strenc skips keys cells) as [w| |] eqn:Ew; cbn [bind] in Hb; try discriminate.
      destruct (json_emit_rows strenc skips keys rows (S i) (json_last_object rows (S i) (Z.of_nat i)))
        as [ws| |] eqn:Ews; cbn [bind] in Hb; try discriminate.
      inversion Hb; subst body. clear Hb.
      rewrite !concat_app, j_run_app.
      rewrite (emit_row_run v hs skips keys [FArr items] m0 cells w He Hm0 Hhs Hc Ew).
      cbn [j_complete map].
      set (obj := JObj (row_members strval cellval v hs 0 cells)).
      destruct (last_object_spec rows (S i) (Z.of_nat i)) as [L1 L2].
      destruct (has_obj rows) eqn:Eh.
      + specialize (L1 eq_refl).
        replace (Z.of_nat i <? json_last_object rows (S i) (Z.of_nat i))%Z with true
          by (symmetry; apply Z.ltb_lt; lia).
        cbn [concat]. unfold js_comma_nl. cbn [app].
        rewrite !j_run_cons.
        change (j_step (j_step ([FArr (items ++ [obj])], MAfter) 44) 10) with ([FArr (items ++ [obj])], MVal).
        rewrite (IH (S i) (Z.of_nat i) ws (items ++ [obj]) MVal ltac:(lia) (or_introl eq_refl) Hrest Ews).
        rewrite <- app_assoc. reflexivity.
      + rewrite (L2 eq_refl) in *.
        replace (Z.of_nat i <? Z.of_nat i)%Z with false by (symmetry; apply Z.ltb_ge; lia).
        cbn [concat app].
        rewrite (emit_rows_seps skips keys (Z.of_nat i) [FArr (items ++ [obj])] MAfter
                   (or_intror (or_intror eq_refl)) rows (S i) ws Eh Ews).
        rewrite (rows_bodies_no_obj rows Eh). reflexivity.
    - (* a separator: one newline *)
      cbn [json_emit_rows json_last_object] in Hb. cbn [has_obj existsb orb].
      cbn [rows_bodies flat_map app] in Hfine |- *. fold (rows_bodies rows) in Hfine |- *.
      destruct (json_emit_rows strenc skips keys rows (S i) (json_last_object rows (S i) acc))
        as [ws| |] eqn:Ews; cbn [bind] in Hb; try discriminate.
      inversion Hb; subst body. clear Hb. cbn [concat]. unfold js_nl.
      change ([10] ++ concat ws) with (10 :: concat ws).
      rewrite j_run_cons, (step_lf [FArr items] m0) by (destruct Hm0 as [-> | ->]; [left | right; left]; reflexivity).
      apply (IH (S i) acc ws items m0 ltac:(lia) Hm0 Hfine Ews).
  Qed.

  (* ---------- the whole output ---------- *)

  Theorem json_roundtrip v out :
    length (v_skip v) = S (v_ncols v) -> encodings_ok strenc strval encval v ->
    json_render strenc v = Ok out ->
    parse_json out = Some (json_expected strval cellval v).
  Proof.
    intros Hwf [Hkeys Henc]. unfold json_render.
    pose proof (render_writes_cases strenc v Hwf) as Hc.
    destruct (json_render_writes strenc v) as [wsall| |]; cbn [bind]; try discriminate.
    destruct Hc as (_ & hs & skips & keys & body & Hh & He & Hlen & Hbody & ->).
    intros H. inversion H; subst out. clear H.
    rewrite !concat_app. cbn [concat]. rewrite !app_nil_r.
    unfold parse_json, j_init. rewrite !j_run_cons.
    change (j_step (j_step ([], MVal) 91) 10) with ([FArr []], MArrFirst).
    rewrite j_run_app.
    unfold header_cells in Hkeys. rewrite Hh in Hkeys.
    rewrite (emit_rows_run v hs skips keys He Hkeys (v_rows v) 0%nat (-1)%Z body [] MArrFirst
               ltac:(lia) (or_intror eq_refl) Henc Hbody).
    unfold json_expected, row_object, header_cells. rewrite Hh.
    change (body_rows v) with (rows_bodies (v_rows v)).
    destruct (has_obj (v_rows v)) eqn:Eh.
    - reflexivity.
    - rewrite (rows_bodies_no_obj _ Eh). reflexivity.
  Qed.
End Roundtrip.
