(* The pinned (pre-repair) dimensionSetter, kept only to state what was wrong
   with it (DESIGN section 7, D7 and D8).  Nothing else depends on this file. *)
From Tab Require Import Model.Text Spec.TextLayout.

Local Open Scope Z_scope.

Section Legacy.
  Variable W : bytes -> nat.

  (* texttable/properties.go at the pinned commit:
       linesWidths := make([]decoration.WidthString, dims.height)
       for i, l := range cell.Lines() { linesWidths[i] = WidthString{l, StringCells(l)} } *)
  Definition dimension_setter_pinned (c : vcell) : res mcell :=
    let cellWidth := vc_tw c in
    let height := vc_h c in
    if height <? 0 then Panic else
    bind (lines (vc_text c)) (fun ls =>
    bind (fill_lines W 0 ls (repeat ws_zero (Z.to_nat height))) (fun lw =>
    Ok (mkMC cellWidth height lw))).
End Legacy.

Local Open Scope N_scope.

(* D8: an item whose declared height is below its real line count (text "h",
   Height() = 0 because the item declares height 0 and width 0) indexes past
   the line array. *)
Lemma d8_pinned_panics :
  let W := fun s : list N => length s in
  let c := mkVCell [104] false None 0%Z 0%Z true in
  cell_ok W c /\ dimension_setter_pinned W c = Panic
  /\ exists m, dimension_setter W c = Ok m /\ length (mc_lines m) = 1%nat.
Proof.
  cbv zeta. split; [unfold cell_ok; cbn [vc_tw vc_h vc_widther]; repeat split; try lia; discriminate|].
  split; [vm_compute; reflexivity|]. eexists. split; vm_compute; reflexivity.
Qed.

(* D7: a single-line item declaring width 3 around the text "a" is laid out
   as 1 wide by the pinned code, as 3 wide after the repair. *)
Lemma d7_pinned_ignores_width :
  let W := fun s : list N => length s in
  let c := mkVCell [97] false None 3%Z 1%Z true in
  cell_ok W c
  /\ dimension_setter_pinned W c = Ok (mkMC 3%Z 1%Z [mkWS [97] 1%Z])
  /\ dimension_setter W c = Ok (mkMC 3%Z 1%Z [mkWS [97] 3%Z]).
Proof.
  cbv zeta. split; [unfold cell_ok; cbn [vc_tw vc_h vc_widther]; repeat split; try lia; discriminate|].
  split; vm_compute; reflexivity.
Qed.
