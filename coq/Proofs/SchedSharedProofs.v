(* C16, round 6 - synchronised shared state: when it cannot be seen. *)
From Tab Require Import Model.Sched Model.SchedShared.

Section SharedProofs.
  Variables L C Q A : Type.
  Variable ask : C -> Q -> A * C.

  Notation saction := (saction L Q A).
  Notation sstate := (sstate L C).
  Notation sstep := (sstep ask).
  Notation srun_sched := (srun_sched ask).
  Notation srun_alone := (srun_alone ask).

  Lemma supd_same {X} (f : nat -> X) t x : upd f t x t = x.
  Proof. unfold upd. rewrite Nat.eqb_refl. reflexivity. Qed.

  Lemma supd_other {X} (f : nat -> X) t u x : u <> t -> upd f t x u = f u.
  Proof. intros H. unfold upd. apply Nat.eqb_neq in H. rewrite H. reflexivity. Qed.

  Variable Inv : C -> Prop.
  Variable pure : Q -> A.
  Hypothesis Htr : transparent ask Inv pure.

  (* one step: the invariant is kept, the stepping goroutine computes what it
     computes without any cell, everybody else's state is untouched *)
  Lemma sstep_inv s (a : saction) (G : sstate) : Inv (s_cell G) -> Inv (s_cell (sstep s a G)).
  Proof.
    intros HI. destruct a as [f | q k]; cbn.
    - exact HI.
    - destruct (Htr (s_cell G) (q (s_loc G s)) HI) as [_ H2].
      destruct (ask (s_cell G) (q (s_loc G s))) as [ans c']. exact H2.
  Qed.

  Lemma sstep_own s (a : saction) (G : sstate) :
    Inv (s_cell G) -> s_loc (sstep s a G) s = sstep_pure pure a (s_loc G s).
  Proof.
    intros HI. destruct a as [f | q k]; cbn.
    - apply supd_same.
    - destruct (Htr (s_cell G) (q (s_loc G s)) HI) as [H1 _].
      destruct (ask (s_cell G) (q (s_loc G s))) as [ans c']. cbn in *.
      rewrite supd_same. rewrite H1. reflexivity.
  Qed.

  Lemma sstep_other s (a : saction) (G : sstate) u : u <> s -> s_loc (sstep s a G) u = s_loc G u.
  Proof.
    intros Hu. destruct a as [f | q k]; cbn.
    - apply supd_other. exact Hu.
    - destruct (ask (s_cell G) (q (s_loc G s))) as [ans c']. cbn. apply supd_other. exact Hu.
  Qed.

  Lemma count_occ_cons_eq (s : nat) r : count_occ Nat.eq_dec (s :: r) s = S (count_occ Nat.eq_dec r s).
  Proof. apply count_occ_cons_eq. reflexivity. Qed.

  (* every complete schedule: goroutine t ends where it ends with no cell *)
  Lemma srun_sched_pure : forall sched progs (G : sstate),
    Inv (s_cell G) -> scomplete sched progs ->
    forall t, s_loc (srun_sched sched progs G) t = sfold_pure pure (progs t) (s_loc G t).
  Proof.
    induction sched as [| s r IH]; intros progs G HI Hc t.
    - cbn. specialize (Hc t). cbn in Hc. destruct (progs t); [reflexivity | discriminate].
    - cbn [SchedShared.srun_sched].
      pose proof (Hc s) as Hs. rewrite count_occ_cons_eq in Hs.
      destruct (progs s) as [| a rest] eqn:Eps; [discriminate |].
      assert (Hc' : scomplete r (upd progs s rest)).
      { intros u. destruct (Nat.eq_dec u s) as [-> | Hne].
        - rewrite supd_same. cbn in Hs. injection Hs as Hs. exact Hs.
        - rewrite supd_other by exact Hne. specialize (Hc u).
          rewrite count_occ_cons_neq in Hc by (intros E; apply Hne; symmetry; exact E). exact Hc. }
      rewrite (IH _ _ (sstep_inv s a G HI) Hc' t).
      destruct (Nat.eq_dec t s) as [-> | Hne].
      + rewrite supd_same, Eps. cbn [sfold_pure]. rewrite (sstep_own s a G HI). reflexivity.
      + rewrite supd_other by exact Hne. rewrite sstep_other by exact Hne. reflexivity.
  Qed.

  Lemma scomplete_alone t (p : list saction) : scomplete (repeat t (length p)) (sonly t p).
  Proof.
    intros u. unfold sonly. destruct (Nat.eq_dec u t) as [-> | Hne].
    - rewrite supd_same. induction (length p) as [| n IHn]; cbn; [reflexivity |].
      destruct (Nat.eq_dec t t) as [_ | E]; [rewrite IHn; reflexivity | destruct E; reflexivity].
    - rewrite supd_other by exact Hne. cbn.
      induction (length p) as [| n IHn]; cbn; [reflexivity |].
      destruct (Nat.eq_dec t u) as [E | _]; [destruct Hne; symmetry; exact E | exact IHn].
  Qed.

  Lemma srun_alone_pure t (p : list saction) (G : sstate) :
    Inv (s_cell G) -> s_loc (srun_alone t p G) t = sfold_pure pure p (s_loc G t).
  Proof.
    intros HI. unfold srun_alone.
    rewrite (srun_sched_pure _ _ G HI (scomplete_alone t p) t).
    unfold sonly. rewrite supd_same. reflexivity.
  Qed.

  (* THE THEOREM: behind a transparent cell, whatever the others ask of it and
     whenever, goroutine t ends exactly where it ends alone *)
  Theorem shared_transparent_schedule_independent : forall sched progs (G : sstate),
    Inv (s_cell G) -> scomplete sched progs ->
    forall t, s_loc (srun_sched sched progs G) t = s_loc (srun_alone t (progs t) G) t.
  Proof.
    intros sched progs G HI Hc t.
    rewrite (srun_sched_pure sched progs G HI Hc t).
    rewrite (srun_alone_pure t (progs t) G HI). reflexivity.
  Qed.

  Corollary shared_transparent_any_two_schedules : forall s1 s2 progs (G : sstate),
    Inv (s_cell G) -> scomplete s1 progs -> scomplete s2 progs ->
    forall t, s_loc (srun_sched s1 progs G) t = s_loc (srun_sched s2 progs G) t.
  Proof.
    intros s1 s2 progs G HI H1 H2 t.
    rewrite (srun_sched_pure s1 progs G HI H1 t), (srun_sched_pure s2 progs G HI H2 t). reflexivity.
  Qed.
End SharedProofs.

(* ------------------------------------------------------------------ *)
(* A memo keyed by the whole question is transparent, whatever it evicts. *)
Section MemoProofs.
  Variables Q A : Type.
  Variable qeqb : Q -> Q -> bool.
  Hypothesis qeqb_sound : forall a b, qeqb a b = true -> a = b.
  Variable f : Q -> A.
  Variable keep : list (Q * A) -> list (Q * A).
  Hypothesis keep_incl : forall l, incl (keep l) l.

  Lemma assoc_inv c q v : memo_inv f c -> assoc qeqb c q = Some v -> v = f q.
  Proof.
    induction c as [| [k w] r IH]; cbn; intros HI H; [discriminate |].
    pose proof (Forall_inv HI) as Hx. pose proof (Forall_inv_tail HI) as Hr. cbn in Hx.
    destruct (qeqb k q) eqn:E.
    - injection H as <-. apply qeqb_sound in E. rewrite Hx, E. reflexivity.
    - apply IH; assumption.
  Qed.

  Lemma memo_transparent : transparent (memo_ask qeqb f keep) (memo_inv f) f.
  Proof.
    intros c q HI. unfold memo_ask. destruct (assoc qeqb c q) as [v |] eqn:E; cbn.
    - split; [apply (assoc_inv c q v HI E) | exact HI].
    - split; [reflexivity |].
      unfold memo_inv in *. apply Forall_forall. intros kv Hin.
      apply keep_incl in Hin. destruct Hin as [<- | Hin]; [reflexivity |].
      rewrite Forall_forall in HI. apply HI. exact Hin.
  Qed.

  (* tables rendered through a memo keyed by the whole question: any schedule,
     any eviction policy, any prior content that is truthful *)
  Theorem memo_schedule_independent : forall L sched (progs : nat -> list (saction L Q A)) (G : sstate L (list (Q * A))),
    memo_inv f (s_cell G) -> scomplete sched progs ->
    forall t, s_loc (srun_sched (memo_ask qeqb f keep) sched progs G) t
            = s_loc (srun_alone (memo_ask qeqb f keep) t (progs t) G) t.
  Proof.
    intros L sched progs G HI Hc t.
    exact (shared_transparent_schedule_independent L _ Q A _ (memo_inv f) f memo_transparent sched progs G HI Hc t).
  Qed.

  (* and what it ends with is what f gives, with no memo at all *)
  Theorem memo_is_f : forall L sched (progs : nat -> list (saction L Q A)) (G : sstate L (list (Q * A))),
    memo_inv f (s_cell G) -> scomplete sched progs ->
    forall t, s_loc (srun_sched (memo_ask qeqb f keep) sched progs G) t = sfold_pure f (progs t) (s_loc G t).
  Proof.
    intros L sched progs G HI Hc t.
    exact (srun_sched_pure L _ Q A _ (memo_inv f) f memo_transparent sched progs G HI Hc t).
  Qed.
End MemoProofs.

(* ------------------------------------------------------------------ *)
(* Transparency is needed: two cells that are synchronised and still visible. *)

(* (a) keyed by less than the question.  Questions are numbers, the answer to
   q is q itself, the class of a question is its parity class "is it zero or
   not"... any class function that identifies two questions with different
   answers will do; here: every question is in the one class. *)
Definition one_class (q : nat) : unit := tt.
Definition ask1 (q : nat) : list (saction (option nat) nat nat) :=
  [SAsk (fun _ => q) (fun a _ => Some a)].

Theorem coarse_memo_visible :
  exists (sched : list nat) (progs : nat -> list (saction (option nat) nat nat)),
    scomplete sched progs /\
    let G0 := mkS (@nil (unit * nat)) (fun _ => None) in
    let askc := coarse_ask nat nat (fun q => q) unit (fun _ _ => true) one_class in
    s_loc (srun_sched askc sched progs G0) 1 <> s_loc (srun_alone askc 1 (progs 1) G0) 1.
Proof.
  exists [0; 1], (spvec_of [ask1 0; ask1 7]). split.
  - intros [| [| t]]; cbn; try reflexivity. destruct t; reflexivity.
  - cbn. discriminate.
Qed.

(* (b) key and value in two registers.  Goroutine 0 memoises f 1, goroutine 1
   memoises f 2, goroutine 2 then asks for f 1.  In the schedule below 0 stores
   its value, 1 stores value and key, 0 stores its key: the memo now says
   "f 1 = f 2", and goroutine 2 is told so. *)
Definition tf (x : nat) : nat := 10 * x.
Definition tprogs : nat -> list (saction tl tq (option nat)) :=
  spvec_of [torn_call tf; torn_call tf; torn_call tf].
Definition tG0 : sstate tl (option nat * option nat) :=
  mkS (None, None) (fun t => mkT (match t with 0 => 1 | 1 => 2 | _ => 1 end) false None).
Definition tsched : list nat := [0; 1; 0; 1; 1; 0; 2; 2; 2].

Theorem torn_memo_visible :
  scomplete tsched tprogs /\
  t_res (s_loc (srun_alone torn_ask 2 (tprogs 2) tG0) 2) = Some (tf 1) /\
  t_res (s_loc (srun_sched torn_ask tsched tprogs tG0) 2) = Some (tf 2).
Proof.
  split; [| split].
  - intros [| [| [| t]]]; cbn; try reflexivity. destruct t; reflexivity.
  - vm_compute. reflexivity.
  - vm_compute. reflexivity.
Qed.

(* the same one-entry memo with the pair in ONE register is a memo_ask with
   keep = "the newest entry only": transparent by memo_transparent *)
Definition keep_one {X} (l : list X) : list X := match l with [] => [] | x :: _ => [x] end.

Lemma keep_one_incl {X} (l : list X) : incl (keep_one l) l.
Proof. destruct l as [| x r]; intros y H; [exact H |]. destruct H as [<- | []]. left. reflexivity. Qed.

Theorem one_register_memo_schedule_independent : forall (f : nat -> nat) L sched
    (progs : nat -> list (saction L nat nat)) (G : sstate L (list (nat * nat))),
  memo_inv f (s_cell G) -> scomplete sched progs ->
  forall t, s_loc (srun_sched (memo_ask Nat.eqb f keep_one) sched progs G) t
          = s_loc (srun_alone (memo_ask Nat.eqb f keep_one) t (progs t) G) t.
Proof.
  intros f L sched progs G HI Hc t.
  apply (memo_schedule_independent nat nat Nat.eqb (fun a b H => proj1 (Nat.eqb_eq a b) H) f keep_one (@keep_one_incl _)); assumption.
Qed.
