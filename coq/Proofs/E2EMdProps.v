(* End to end, Markdown (C08), over histories in which columns carry whole
   property chains: any key may be set, re-set and removed on any column at any
   time (Model/ColProps.v).  Structure, neutralisation and the alignment markers
   hold for every such history; the alignment a delimiter cell must show is the
   last value set under align.PropertyType on that column (else on column 0),
   whatever was set under other keys before, between and after. *)
From Tab Require Import Model.Props.
From Tab Require Import Base.Ops Model.Cell Model.Table Model.ColProps Spec.TableHist Spec.ColPropHist Spec.CellText
     Proofs.TableProofs Proofs.ColPropsProofs Proofs.E2EProofs Proofs.E2EMd.
From Tab Require Import Model.Markdown Spec.MdSplit Proofs.MarkdownProofs.

Definition pview (W : bytes -> nat) (e : env) (json : item -> option bytes) (st : pstate) : view :=
  table_view (vcell_of_item W e json) (ptable st).

Lemma pview_hview W e json (h : list ptop) st : prun h = Ok st -> pview W e json st = hview W e json (cp_proj h).
Proof.
  intros E. destruct (colprops_refines h) as (st' & E' & T). rewrite E in E'. inversion E'; subst st'.
  unfold pview, hview. rewrite T. reflexivity.
Qed.

Theorem md_colprops_history : forall W e json (h : list ptop) st,
  twf_hist (cp_proj h) -> cp_domain h -> prun h = Ok st ->
  let v := pview W e json st in
  match md_render W v with
  | Ok out => md_ok v out
  | Err => hist_header (cp_proj h) = None \/ hist_ncols (cp_proj h) = 0
  | Panic => False
  end.
Proof.
  intros W e json h st Hw _ E. cbv zeta. rewrite (pview_hview W e json h st E).
  exact (md_history W e json (cp_proj h) Hw).
Qed.

Theorem md_colprops_alignment : forall W e json (h : list ptop) st i,
  twf_hist (cp_proj h) -> prun h = Ok st -> i < hist_ncols (cp_proj h) ->
  spec_eff_align (v_align (pview W e json st)) i
  = match cp_align h (S i) with Some a => Some a | None => cp_align h 0 end.
Proof.
  intros W e json h st i Hw E Hi. rewrite (pview_hview W e json h st E).
  exact (md_history_alignment W e json (cp_proj h) i Hw Hi).
Qed.

(* cp_align, step by step: a call under another key leaves every column's
   alignment; a call under the alignment key sets it for that column when the
   column exists (n <= the column count at that moment), and for no other *)
Lemma cp_proj_snoc (h : list ptop) o : cp_proj (h ++ [o]) = cp_proj h ++ cp_proj1 o.
Proof. unfold cp_proj. rewrite flat_map_app. cbn [flat_map]. rewrite app_nil_r. reflexivity. Qed.

Theorem cp_align_other_key : forall (h : list ptop) n k v i, k <> align_key ->
  cp_align (h ++ [PSet n k v]) i = cp_align h i.
Proof.
  intros h n k v i NK. unfold cp_align, hist_align. rewrite cp_proj_snoc. cbn [cp_proj1].
  apply key_eqb_neq in NK. rewrite NK. destruct (key_eqb k skip_key).
  - rewrite tspec_run_snoc. cbn [tspec_step]. destruct (_ <=? _); reflexivity.
  - rewrite app_nil_r. reflexivity.
Qed.

Theorem cp_align_set : forall (h : list ptop) n v i,
  cp_align (h ++ [PSet n align_key v]) i
  = if (n <=? hist_ncols (cp_proj h)) && (i =? n)
    then match v with Some x => dec_align x | None => None end
    else cp_align h i.
Proof.
  intros h n v i. unfold cp_align, hist_align, hist_ncols. rewrite cp_proj_snoc. cbn [cp_proj1].
  rewrite key_eqb_refl, tspec_run_snoc. cbn [tspec_step].
  destruct (n <=? _); cbn [andb ts_align]; [|reflexivity].
  rewrite setting_cons. rewrite Nat.eqb_sym. destruct (n =? i); reflexivity.
Qed.
