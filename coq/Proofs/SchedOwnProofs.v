(* C16 - schedule independence of goroutines that register decorations of
   their own (Model/SchedOwn.v): proofs. *)
From Tab Require Import Model.Sched Model.SchedOwn Proofs.SchedProofs.

Section SchedOwnProofs.
  Variables L R K D : Type.
  Variable lookup : R -> K -> D.
  Variable names : R -> list K.
  Variable write : R -> K -> D -> R.
  Hypothesis K_dec : forall a b : K, {a = b} + {a <> b}.
  Hypothesis laws : reg_laws lookup names write.
  Variable owner : K -> option nat.

  Notation action := (action L K D).
  Notation gstate := (gstate L R K D).
  Notation pvec := (pvec L K D).
  Notation step := (step lookup names write).
  Notation run_sched := (run_sched lookup names write).
  Notation run_alone := (run_alone lookup names write).
  Notation step_solo := (step_solo lookup names write).
  Notation fold_solo := (fold_solo lookup names write).
  Notation writes_of := (writes_of write).
  Notation reg_eqv := (reg_eqv lookup names owner).
  Notation own_action := (own_action owner).
  Notation own_keys := (own_keys owner).
  Notation visible := (visible owner).
  Notation names_eqv := (names_eqv owner).

  Let law_same : forall r n d, lookup (write r n d) n = d := proj1 laws.
  Let law_other : forall r n d m, m <> n -> lookup (write r n d) m = lookup r m := proj1 (proj2 laws).
  Let law_names : forall r n d m, In m (names (write r n d)) <-> m = n \/ In m (names r) := proj2 (proj2 laws).

  (* --- registries a goroutine cannot tell apart --- *)

  Lemma reg_eqv_refl t r : reg_eqv t r r.
  Proof. split; intros n _; reflexivity. Qed.

  Lemma reg_eqv_trans t r1 r2 r3 : reg_eqv t r1 r2 -> reg_eqv t r2 r3 -> reg_eqv t r1 r3.
  Proof.
    intros [A1 B1] [A2 B2]. split; intros n Hv.
    - rewrite (A1 n Hv). apply A2; exact Hv.
    - rewrite (B1 n Hv). apply B2; exact Hv.
  Qed.

  (* the same write on both sides *)
  Lemma reg_eqv_write t r r' n d : reg_eqv t r r' -> reg_eqv t (write r n d) (write r' n d).
  Proof.
    intros [A B]. split; intros m Hv.
    - destruct (K_dec m n) as [->|Hn].
      + rewrite !law_same. reflexivity.
      + rewrite !law_other by exact Hn. apply A; exact Hv.
    - rewrite !law_names. specialize (B m Hv). tauto.
  Qed.

  (* a write of somebody else's own name is invisible *)
  Lemma reg_eqv_write_other t s r n d : owner n = Some s -> s <> t -> reg_eqv t (write r n d) r.
  Proof.
    intros Ho Hst.
    assert (Hne : forall m, visible t m -> m <> n).
    { intros m [Hv|Hv] ->; rewrite Ho in Hv; [discriminate|]. injection Hv as Hv. apply Hst; exact Hv. }
    split; intros m Hv.
    - apply law_other. apply Hne; exact Hv.
    - rewrite law_names. specialize (Hne m Hv). tauto.
  Qed.

  (* --- a goroutine by itself, from two starts it cannot tell apart --- *)

  Definition sim (t : nat) (s s' : L * list (obsv K D) * R) : Prop :=
    fst (fst s) = fst (fst s') /\
    reads (snd (fst s)) = reads (snd (fst s')) /\
    reg_eqv t (snd s) (snd s').

  Lemma sim_refl t s : sim t s s.
  Proof. split; [reflexivity|]. split; [reflexivity|]. apply reg_eqv_refl. Qed.

  Lemma sim_trans t s1 s2 s3 : sim t s1 s2 -> sim t s2 s3 -> sim t s1 s3.
  Proof.
    intros [A1 [B1 C1]] [A2 [B2 C2]]. split; [|split].
    - rewrite A1. exact A2.
    - rewrite B1. exact B2.
    - eapply reg_eqv_trans; eassumption.
  Qed.

  Lemma reads_app (o1 o2 : list (obsv K D)) : reads (o1 ++ o2) = reads o1 ++ reads o2.
  Proof. unfold reads. apply filter_app. Qed.

  Lemma step_solo_sim t (a : action) s s' :
    own_action t a -> sim t s s' -> sim t (step_solo t a s) (step_solo t a s').
  Proof.
    destruct s as [[l o] r], s' as [[l' o'] r']. intros Ha [A [B C]]. cbn in A, B, C. subst l'.
    unfold sim. destruct a as [f|n k|k|n d]; cbn in *.
    - split; [reflexivity|]. split; [exact B|exact C].
    - destruct C as [C1 C2]. rewrite (C1 n Ha). split; [reflexivity|]. split.
      + unfold reads in *. rewrite !filter_app, B. reflexivity.
      + split; assumption.
    - destruct C as [C1 C2]. split; [apply Ha; exact C2|]. split.
      + unfold reads in *. rewrite !filter_app, B. reflexivity.
      + split; assumption.
    - split; [reflexivity|]. split; [exact B|]. apply reg_eqv_write. exact C.
  Qed.

  Lemma fold_solo_sim t (p : list action) : forall s s',
    Forall (own_action t) p -> sim t s s' -> sim t (fold_solo t p s) (fold_solo t p s').
  Proof.
    induction p as [|a p IH]; intros s s' Hp Hs; [exact Hs|].
    inversion Hp as [|? ? Ha Hp']; subst. cbn [SchedOwn.fold_solo].
    apply IH; [exact Hp'|]. apply step_solo_sim; assumption.
  Qed.

  (* --- one step of the machine, seen by the goroutine that makes it and by
         another one --- *)

  Definition tri (t : nat) (G : gstate) : L * list (obsv K D) * R := (g_loc G t, g_obs G t, g_reg G).

  Lemma step_own_solo s (a : action) (G : gstate) :
    confined_action s a -> tri s (step s a G) = step_solo s a (tri s G).
  Proof.
    intros Hc. unfold tri. destruct a as [f|n k|k|n d]; cbn in *.
    - destruct Hc as [_ H2]. rewrite (H2 (g_loc G) (fun _ => g_loc G s)) by reflexivity. reflexivity.
    - rewrite !upd_same. reflexivity.
    - rewrite !upd_same. reflexivity.
    - reflexivity.
  Qed.

  Lemma step_other_sim s t (a : action) (G : gstate) :
    confined_action s a -> own_action s a -> t <> s -> sim t (tri t (step s a G)) (tri t G).
  Proof.
    intros Hc Ho Hts. unfold tri. destruct a as [f|n k|k|n d]; cbn in *.
    - destruct Hc as [H1 _]. rewrite (H1 _ _ Hts). apply sim_refl.
    - rewrite !upd_other by exact Hts. apply sim_refl.
    - rewrite !upd_other by exact Hts. apply sim_refl.
    - split; [reflexivity|]. split; [reflexivity|]. cbn.
      eapply reg_eqv_write_other; [exact Ho|]. intro E; apply Hts; symmetry; exact E.
  Qed.

  Lemma own_upd (progs : pvec) s a rest :
    progs s = a :: rest -> own_keys progs -> own_keys (upd progs s rest).
  Proof.
    intros E H t. unfold upd. destruct (Nat.eqb_spec t s) as [->|Hn].
    - specialize (H s). rewrite E in H. inversion H; assumption.
    - apply H.
  Qed.

  (* main invariant: whatever the others do meanwhile, goroutine t ends where
     its own program takes it from where it stood *)
  Lemma run_sched_solo : forall sched (progs : pvec) (G : gstate) t,
    confined progs -> own_keys progs ->
    count_occ Nat.eq_dec sched t = length (progs t) ->
    sim t (tri t (run_sched sched progs G)) (fold_solo t (progs t) (tri t G)).
  Proof.
    induction sched as [|s sched IH]; intros progs G t Hc Ho Hn.
    - cbn in Hn. destruct (progs t); [|discriminate]. apply sim_refl.
    - cbn [Sched.run_sched]. cbn [count_occ] in Hn. destruct (progs s) as [|a rest] eqn:E.
      + destruct (Nat.eq_dec s t) as [->|Hst].
        * rewrite E in Hn. discriminate.
        * apply IH; assumption.
      + assert (Ca : confined_action s a) by (specialize (Hc s); rewrite E in Hc; inversion Hc; assumption).
        assert (Oa : own_action s a) by (specialize (Ho s); rewrite E in Ho; inversion Ho; assumption).
        destruct (Nat.eq_dec s t) as [->|Hst].
        * rewrite E in *. cbn [length] in Hn. injection Hn as Hn.
          cbn [SchedOwn.fold_solo]. rewrite <- step_own_solo by exact Ca.
          specialize (IH (upd progs t rest) (step t a G) t (confined_upd _ _ _ _ _ _ _ E Hc) (own_upd _ _ _ _ E Ho)).
          rewrite upd_same in IH. apply IH. exact Hn.
        * specialize (IH (upd progs s rest) (step s a G) t (confined_upd _ _ _ _ _ _ _ E Hc) (own_upd _ _ _ _ E Ho)).
          rewrite upd_other in IH by (intro X; apply Hst; symmetry; exact X).
          eapply sim_trans; [apply IH; exact Hn|].
          apply fold_solo_sim; [apply Ho|].
          apply step_other_sim; try assumption. intro X; apply Hst; symmetry; exact X.
  Qed.

  Lemma confined_only t (p : list action) : Forall (confined_action t) p -> confined (only t p).
  Proof.
    intros H u. destruct (Nat.eq_dec u t) as [->|Hn].
    - rewrite only_same. exact H.
    - rewrite only_other by exact Hn. constructor.
  Qed.

  Lemma own_only t (p : list action) : Forall (own_action t) p -> own_keys (only t p).
  Proof.
    intros H u. destruct (Nat.eq_dec u t) as [->|Hn].
    - rewrite only_same. exact H.
    - rewrite only_other by exact Hn. constructor.
  Qed.

  Lemma run_alone_solo t (p : list action) (G : gstate) :
    Forall (confined_action t) p -> Forall (own_action t) p ->
    sim t (tri t (run_alone t p G)) (fold_solo t p (tri t G)).
  Proof.
    intros Hc Ho. unfold Sched.run_alone.
    pose proof (run_sched_solo (repeat t (length p)) (only t p) G t (confined_only _ _ Hc) (own_only _ _ Ho)) as H.
    rewrite only_same in H. apply H. apply count_occ_repeat_eq. reflexivity.
  Qed.

  (* C16 with registrations: every complete schedule of confined programs that
     register only names of their own and look up only their own names and
     names nobody registers gives each goroutine the local state and the
     lookups of its solo run *)
  Theorem own_schedule_independent : forall (progs : pvec) sched (G : gstate),
    confined progs -> own_keys progs -> complete sched progs ->
    forall t,
      g_loc (run_sched sched progs G) t = g_loc (run_alone t (progs t) G) t /\
      reads (g_obs (run_sched sched progs G) t) = reads (g_obs (run_alone t (progs t) G) t).
  Proof.
    intros progs sched G Hc Ho Hm t.
    destruct (run_sched_solo sched progs G t Hc Ho (Hm t)) as [A [B _]].
    destruct (run_alone_solo t (progs t) G (Hc t) (Ho t)) as [A' [B' _]].
    unfold tri in *. cbn [fst snd] in A, B, A', B'. split.
    - rewrite A, A'. reflexivity.
    - rewrite B, B'. reflexivity.
  Qed.

  (* --- the registry afterwards --- *)

  Lemma writes_of_lookup (p : list action) : forall r r' n,
    lookup r n = lookup r' n -> lookup (writes_of p r) n = lookup (writes_of p r') n.
  Proof.
    induction p as [|a p IH]; intros r r' n H; [exact H|].
    destruct a as [f|m k|k|m d]; cbn [SchedOwn.writes_of]; try (apply IH; exact H).
    apply IH. destruct (K_dec n m) as [->|Hn].
    - rewrite !law_same. reflexivity.
    - rewrite !law_other by exact Hn. exact H.
  Qed.

  Lemma step_reg_writes s (a : action) (G : gstate) rest :
    writes_of (a :: rest) (g_reg G) = writes_of rest (g_reg (step s a G)).
  Proof. destruct a; reflexivity. Qed.

  Lemma step_reg_other s t (a : action) (G : gstate) n :
    own_action s a -> s <> t -> owner n = Some t -> lookup (g_reg (step s a G)) n = lookup (g_reg G) n.
  Proof.
    intros Ho Hst Hn. destruct a as [f|m k|k|m d]; cbn in *; try reflexivity.
    apply law_other. intros ->. rewrite Ho in Hn. injection Hn as Hn. apply Hst; exact Hn.
  Qed.

  Lemma step_reg_unowned s (a : action) (G : gstate) n :
    own_action s a -> owner n = None -> lookup (g_reg (step s a G)) n = lookup (g_reg G) n.
  Proof.
    intros Ho Hn. destruct a as [f|m k|k|m d]; cbn in *; try reflexivity.
    apply law_other. intros ->. rewrite Ho in Hn. discriminate.
  Qed.

  Lemma run_sched_reg_own : forall sched (progs : pvec) (G : gstate) t n,
    own_keys progs -> owner n = Some t ->
    count_occ Nat.eq_dec sched t = length (progs t) ->
    lookup (g_reg (run_sched sched progs G)) n = lookup (writes_of (progs t) (g_reg G)) n.
  Proof.
    induction sched as [|s sched IH]; intros progs G t n Ho Hn Hc.
    - cbn in Hc. destruct (progs t); [reflexivity|discriminate].
    - cbn [Sched.run_sched]. cbn [count_occ] in Hc. destruct (progs s) as [|a rest] eqn:E.
      + destruct (Nat.eq_dec s t) as [->|Hst].
        * rewrite E in Hc. discriminate.
        * apply IH; assumption.
      + assert (Oa : own_action s a) by (specialize (Ho s); rewrite E in Ho; inversion Ho; assumption).
        destruct (Nat.eq_dec s t) as [->|Hst].
        * rewrite E in *. cbn [length] in Hc. injection Hc as Hc.
          rewrite (step_reg_writes t).
          specialize (IH (upd progs t rest) (step t a G) t n (own_upd _ _ _ _ E Ho) Hn).
          rewrite upd_same in IH. apply IH. exact Hc.
        * specialize (IH (upd progs s rest) (step s a G) t n (own_upd _ _ _ _ E Ho) Hn).
          rewrite upd_other in IH by (intro X; apply Hst; symmetry; exact X).
          rewrite IH by exact Hc. apply writes_of_lookup.
          eapply step_reg_other; eassumption.
  Qed.

  Lemma run_sched_reg_unowned : forall sched (progs : pvec) (G : gstate) n,
    own_keys progs -> owner n = None ->
    lookup (g_reg (run_sched sched progs G)) n = lookup (g_reg G) n.
  Proof.
    induction sched as [|s sched IH]; intros progs G n Ho Hn; [reflexivity|].
    cbn [Sched.run_sched]. destruct (progs s) as [|a rest] eqn:E.
    - apply IH; assumption.
    - assert (Oa : own_action s a) by (specialize (Ho s); rewrite E in Ho; inversion Ho; assumption).
      rewrite (IH _ _ n (own_upd _ _ _ _ E Ho) Hn). apply step_reg_unowned; assumption.
  Qed.

  (* after the join every name holds what its owner registered last (what the
     owner's solo run leaves there), and nobody's names hold what they held *)
  Theorem own_registry : forall (progs : pvec) sched (G : gstate),
    own_keys progs -> complete sched progs ->
    (forall t n, owner n = Some t ->
       lookup (g_reg (run_sched sched progs G)) n = lookup (g_reg (run_alone t (progs t) G)) n) /\
    (forall n, owner n = None -> lookup (g_reg (run_sched sched progs G)) n = lookup (g_reg G) n).
  Proof.
    intros progs sched G Ho Hm. split.
    - intros t n Hn. rewrite (run_sched_reg_own sched progs G t n Ho Hn (Hm t)).
      unfold Sched.run_alone.
      assert (Ho' : own_keys (only t (progs t))).
      { intros u. destruct (Nat.eq_dec u t) as [->|Hu].
        - rewrite only_same. apply Ho.
        - rewrite only_other by exact Hu. constructor. }
      rewrite (run_sched_reg_own (repeat t (length (progs t))) (only t (progs t)) G t n Ho' Hn).
      + rewrite only_same. reflexivity.
      + rewrite only_same. apply count_occ_repeat_eq. reflexivity.
    - intros n Hn. apply run_sched_reg_unowned; assumption.
  Qed.

  (* a name is written by at most one goroutine: own_keys cannot hold of a
     vector in which one goroutine looks a name up that another registers *)
  Lemma own_keys_exclusive (progs : pvec) s t n k d :
    own_keys progs -> s <> t -> In (RegRead n k) (progs s) -> In (RegWrite n d) (progs t) -> False.
  Proof.
    intros Ho Hst Hr Hw.
    pose proof (Ho s) as Hs. pose proof (Ho t) as Ht. rewrite Forall_forall in Hs, Ht.
    specialize (Hs _ Hr). specialize (Ht _ Hw). cbn in Hs, Ht.
    destruct Hs as [Hs|Hs]; rewrite Ht in Hs; [discriminate|]. injection Hs as Hs.
    apply Hst. symmetry. exact Hs.
  Qed.
End SchedOwnProofs.


(* ------------------------------------------------------------------ *)
(* The association list of Run/C16Run.v is such a registry. *)

Lemma a_reg_laws : reg_laws a_lookup a_names a_write.
Proof.
  split; [|split].
  - intros r n d. unfold a_lookup, a_write. cbn. rewrite N.eqb_refl. reflexivity.
  - intros r n d m Hm. unfold a_lookup, a_write. cbn.
    destruct (N.eqb_spec n m) as [E|_]; [destruct Hm; symmetry; exact E|reflexivity].
  - intros r n d m. unfold a_names, a_write. cbn. split.
    + intros [H|H]; [left; symmetry; exact H|right; exact H].
    + intros [H|H]; [left; symmetry; exact H|right; exact H].
Qed.

(* ex_writer (Proofs/SchedProofs.v: goroutine 0 looks up the name goroutine 1
   registers) has no owner assignment at all *)
Lemma ex_writer_not_own : forall owner, ~ own_keys owner ex_writer.
Proof.
  intros owner H.
  eapply (own_keys_exclusive nat nat nat owner ex_writer 0 1 7 (fun d _ => d) 2 H).
  - discriminate.
  - left. reflexivity.
  - left. reflexivity.
Qed.

(* non-vacuity: two goroutines that each register a house style (names 10 and
   11), select it, re-register it and select it again, goroutine 1 also
   selecting a built-in (7); goroutine 2 asks whether a name nobody registers
   is listed *)
Definition ex_owner (n : nat) : option nat :=
  match n with 10 => Some 0 | 11 => Some 1 | _ => None end.

Definition ex_own : pvec nat nat nat :=
  fun t => match t with
           | 0 => [RegWrite 10 5; RegRead 10 (fun d l => l + d); RegWrite 10 3; RegRead 10 (fun d l => 10 * l + d)]
           | 1 => [RegWrite 11 6; RegRead 7 (fun d l => l + d); RegRead 11 (fun d l => 10 * l + d)]
           | 2 => [RegNames (fun l _ => if existsb (Nat.eqb 7) l then 1 else 0)]
           | _ => []
           end.

Lemma ex_own_confined : confined ex_own.
Proof. intros [|[|[|t]]]; cbn; repeat constructor. Qed.

Lemma ex_listed_eqv l l' : names_eqv ex_owner 2 l l' -> existsb (Nat.eqb 7) l = existsb (Nat.eqb 7) l'.
Proof.
  intros H. specialize (H 7 (or_introl eq_refl)).
  destruct (existsb (Nat.eqb 7) l) eqn:E1, (existsb (Nat.eqb 7) l') eqn:E2; try reflexivity; exfalso.
  - apply existsb_exists in E1. destruct E1 as [x [Hx Hx']]. apply Nat.eqb_eq in Hx'. subst x.
    apply H in Hx. assert (X : existsb (Nat.eqb 7) l' = true) by (apply existsb_exists; exists 7; split; [exact Hx|reflexivity]).
    rewrite X in E2. discriminate.
  - apply existsb_exists in E2. destruct E2 as [x [Hx Hx']]. apply Nat.eqb_eq in Hx'. subst x.
    apply H in Hx. assert (X : existsb (Nat.eqb 7) l = true) by (apply existsb_exists; exists 7; split; [exact Hx|reflexivity]).
    rewrite X in E1. discriminate.
Qed.

Lemma ex_own_keys : own_keys ex_owner ex_own.
Proof.
  intros [|[|[|t]]].
  - cbn. repeat apply Forall_cons; try apply Forall_nil; cbn; try reflexivity; right; reflexivity.
  - cbn. repeat apply Forall_cons; try apply Forall_nil; cbn; try reflexivity; [left|right]; reflexivity.
  - unfold ex_own. apply Forall_cons; [|apply Forall_nil]. hnf. intros l l' x H.
    rewrite (ex_listed_eqv l l' H). reflexivity.
  - cbn. apply Forall_nil.
Qed.

Lemma ex_own_runs :
  complete [0; 1; 0; 1; 2; 0; 1; 0] ex_own /\ complete [1; 1; 0; 2; 0; 0; 0; 1] ex_own /\
  let G1 := run_sched ex_lookup ex_names ex_write [0; 1; 0; 1; 2; 0; 1; 0] ex_own ex_G0 in
  let G2 := run_sched ex_lookup ex_names ex_write [1; 1; 0; 2; 0; 0; 0; 1] ex_own ex_G0 in
  map (g_loc G1) [0; 1; 2] = [53; 16; 1] /\ map (g_loc G2) [0; 1; 2] = [53; 16; 1] /\
  g_loc (run_alone ex_lookup ex_names ex_write 0 (ex_own 0) ex_G0) 0 = 53 /\
  ex_lookup (g_reg G1) 10 = 3 /\ ex_lookup (g_reg G2) 11 = 6.
Proof.
  split; [|split].
  - intros [|[|[|t]]]; reflexivity.
  - intros [|[|[|t]]]; reflexivity.
  - vm_compute. repeat split; reflexivity.
Qed.


(* ------------------------------------------------------------------ *)
(* The run-time oracle of Run/C16Run.v compares the answers the implementation
   gave each goroutine about its own names with own_expected, the goroutine's
   solo run on the association-list registry.  By own_schedule_independent
   that is what EVERY interleaving of the logged programs gives on the
   model. *)

Lemma op_wfb_wf t o : op_wfb t o = true -> op_wf t o.
Proof.
  destruct o as [n d|n d|n b]; cbn; destruct (own_owner n) as [u|] eqn:E; cbn; try discriminate;
    rewrite ?orb_false_r; intros H; try (apply Nat.eqb_eq in H; subst u).
  - reflexivity.
  - right; reflexivity.
  - left; reflexivity.
  - right; reflexivity.
  - left; reflexivity.
Qed.

Lemma listed_eqv t n l l' :
  visible own_owner t n -> names_eqv own_owner t l l' -> listed n l = listed n l'.
Proof.
  intros Hv H. specialize (H n Hv). unfold listed.
  assert (E : forall ks, existsb (N.eqb n) ks = true <-> In n ks).
  { intros ks. rewrite existsb_exists. split.
    - intros [x [Hx Hx']]. apply N.eqb_eq in Hx'. subst x. exact Hx.
    - intros Hx. exists n. split; [exact Hx|apply N.eqb_refl]. }
  destruct (existsb (N.eqb n) l) eqn:E1, (existsb (N.eqb n) l') eqn:E2; try reflexivity; exfalso.
  - apply E in E1. apply H in E1. apply E in E1. rewrite E1 in E2. discriminate.
  - apply E in E2. apply H in E2. apply E in E2. rewrite E2 in E1. discriminate.
Qed.

Lemma op_action_own t o : op_wf t o -> own_action own_owner t (op_action o).
Proof.
  destruct o as [n d|n d|n b]; cbn; intros H; try exact H.
  intros l l' x Hl. rewrite (listed_eqv t n l l' H Hl). reflexivity.
Qed.

Lemma op_action_confined t o : confined_action t (op_action o).
Proof. destruct o; exact I. Qed.

Theorem own_oracle_any_schedule : forall (opss : list (list c16_op)) sched,
  (forall t ops, nth_error opss t = Some ops -> Forall (op_wf t) ops) ->
  complete sched (pvec_of (map (map op_action) opss)) ->
  forall t ops, nth_error opss t = Some ops ->
    rev (g_loc (run_sched a_lookup a_names a_write sched (pvec_of (map (map op_action) opss)) a_G0) t)
      = own_expected t ops.
Proof.
  intros opss sched Hwf Hm t ops Ht.
  assert (P : forall u, pvec_of (map (map op_action) opss) u
                        = match nth_error opss u with Some p => map op_action p | None => [] end).
  { intros u. unfold pvec_of. rewrite nth_error_map. destruct (nth_error opss u); reflexivity. }
  assert (Hc : confined (pvec_of (map (map op_action) opss))).
  { intros u. rewrite P. destruct (nth_error opss u) as [p|]; [|constructor].
    apply Forall_forall. intros a Ha. apply in_map_iff in Ha. destruct Ha as [o [<- _]]. apply op_action_confined. }
  assert (Ho : own_keys own_owner (pvec_of (map (map op_action) opss))).
  { intros u. rewrite P. destruct (nth_error opss u) as [p|] eqn:E; [|constructor].
    specialize (Hwf u p E). rewrite Forall_forall in Hwf.
    apply Forall_forall. intros a Ha. apply in_map_iff in Ha. destruct Ha as [o [<- Hin]].
    apply op_action_own. apply Hwf. exact Hin. }
  destruct (own_schedule_independent (list N) areg N N a_lookup a_names a_write N.eq_dec a_reg_laws own_owner
              _ sched a_G0 Hc Ho Hm t) as [A _].
  rewrite A. unfold own_expected. rewrite P, Ht. reflexivity.
Qed.
