(* C19, round 6 (proofs): the dispatch looks at strings.ToLower of the first
   section and at nothing else; a registered name of any shape selects the
   decoration last registered under it, bare and under "texttable."; a
   decoration is accepted whatever its strings hold, as long as it is not the
   zero value; template lines keep their width in cells for one-cell strings
   of any number of runes. *)
From Coq Require Import Lia.
From Tab Require Import Model.Registry Model.Auto Model.DecorCells Spec.RegistrySpec
  Proofs.RegistryProofs Proofs.AutoProofs Proofs.AutoFrame.

Section R6.
  Variable lower : bytes -> bytes.
  Variables r_csv r_html r_markdown r_json : res (bytes * bool).
  Variable body : decoration -> res bytes.

  Notation wrap' := (wrap lower).
  Notation render' := (render r_csv r_html r_markdown r_json body).
  Notation render_auto' := (render_auto lower r_csv r_html r_markdown r_json body).
  Notation spec_resolve' := (spec_resolve lower r_csv r_html r_markdown r_json body).

  Lemma resolve_kind_any amap s :
    fst (spec_resolve' amap s) = pkg_kind (lower (first_section s)).
  Proof.
    unfold spec_resolve, pkg_kind.
    destruct (bytes_eqb (lower (first_section s)) s_csv); [reflexivity|].
    destruct (bytes_eqb (lower (first_section s)) s_html); [reflexivity|].
    destruct (bytes_eqb (lower (first_section s)) s_markdown); [reflexivity|].
    destruct (bytes_eqb (lower (first_section s)) s_json); [reflexivity|].
    destruct (bytes_eqb (lower (first_section s)) s_texttable); [|reflexivity].
    destruct (Nat.ltb 1 (length (dotted_prefixes s))); reflexivity.
  Qed.

  (* NO assumption on [lower]: whatever strings.ToLower does outside ASCII, the renderer kind is
     read off its answer by byte equality with the keywords - no other notion of case takes part *)
  Lemma kind_by_lower_only reg s r :
    wrap' reg s = Ok r -> kind_of r = pkg_kind (lower (first_section s)).
  Proof.
    intros W. destruct (wrap_resolve lower r_csv r_html r_markdown r_json body reg s) as [r' [W' E]].
    rewrite W in W'. inversion W'; subst r'.
    change (kind_of r) with (fst (kind_of r, render' r)). rewrite E. apply resolve_kind_any.
  Qed.

  (* a name - dotted or not - whose first section does not lower-case to a keyword, registered
     with a non-empty decoration, renders with exactly that decoration *)
  Lemma registered_renders_latest reg n d :
    plain_name lower n -> dec_is_empty d = false ->
    render_auto' (register n d reg) n = spec_render body d.
  Proof.
    intros Hp Hd. rewrite render_auto_resolve. unfold spec_resolve.
    unfold plain_name in Hp. destruct (not_in_five _ Hp) as [A [B [C [D E]]]].
    rewrite A, B, C, D, E. cbn [snd].
    rewrite spec_select_pick, dotted_prefixes_cands.
    destruct (cands_last (split_dot n) (split_dot_nonnil n)) as [l El]. rewrite El, join_split.
    rewrite pick_snoc, named_register, bytes_eqb_refl, Hd. reflexivity.
  Qed.

  Lemma registered_kind_text reg n d r :
    plain_name lower n -> wrap' (register n d reg) n = Ok r -> kind_of r = KText.
  Proof.
    intros Hp W. rewrite (kind_by_lower_only _ _ _ W). unfold plain_name in Hp.
    destruct (not_in_five _ Hp) as [A [B [C [D _]]]]. unfold pkg_kind. rewrite A, B, C, D. reflexivity.
  Qed.
End R6.

Section R6b.
  Variable lower : bytes -> bytes.
  Variables r_csv r_html r_markdown r_json : res (bytes * bool).
  Variable body : decoration -> res bytes.
  Hypothesis lower_ascii : lower_on_ascii lower.
  Notation render_auto' := (render_auto lower r_csv r_html r_markdown r_json body).

  (* ... and so does "texttable." ++ the name *)
  Lemma registered_renders_latest_qualified reg n d :
    plain_name lower n -> dec_is_empty d = false ->
    render_auto' (register n d reg) n = spec_render body d
    /\ render_auto' (register n d reg) (s_texttable ++ DOT :: n) = spec_render body d.
  Proof.
    intros Hp Hd. split; [apply registered_renders_latest; assumption|].
    unfold render_auto. rewrite (texttable_alias lower lower_ascii (register n d reg) n Hp).
    apply (registered_renders_latest lower r_csv r_html r_markdown r_json body reg n d Hp Hd).
  Qed.

  (* a concrete decoration - strings of any bytes, any number of runes per field - that is not the
     zero value: registered under n it is listed, auto accepts n and texttable.n, both render *)
  Lemma any_cells_listed_and_render reg n id (cd : cdecor) :
    (forall i, exists out, body (DVal i true) = Ok out) ->
    plain_name lower n -> cd_is_empty cd = false ->
    let reg' := register n (abstract id cd) reg in
    In n (list_styles reg')
    /\ renders (render_auto' reg' n)
    /\ render_auto' reg' (s_texttable ++ DOT :: n) = render_auto' reg' n.
  Proof.
    intros Hb Hp He reg'. subst reg'. unfold abstract. rewrite He.
    destruct (registered_renders_latest_qualified reg n (DVal id true) Hp eq_refl) as [A B].
    split; [|split].
    - destruct (listing_facts (register n (DVal id true) reg)) as [_ [_ [C _]]]. apply C.
      apply keys_register. left. reflexivity.
    - rewrite A. unfold spec_render. cbn [dec_is_empty]. destruct (Hb id) as [out Ho]. rewrite Ho.
      exists out. reflexivity.
    - rewrite A, B. reflexivity.
  Qed.
End R6b.

(* ---------------------------------------------------------------- widths in cells *)
Section Cells.
  (* the terminal's measure of a string (go-runewidth's StringWidth): only additivity over
     concatenation is assumed, nothing about runes *)
  Variable W : bytes -> nat.
  Hypothesis W_app : forall a b, W (a ++ b) = W a + W b.

  Lemma W_nil : W [] = 0.
  Proof. pose proof (W_app [] []) as H. simpl in H. lia. Qed.

  Lemma W_rep piece k : W (str_repeat piece k) = k * W piece.
  Proof. induction k; simpl; [apply W_nil|]. rewrite W_app, IHk. lia. Qed.

  Definition line_cells (widths : list nat) : nat :=
    match widths with
    | [] => 2
    | _ => 1 + length widths + fold_right (fun w acc => (w + 2) + acc) 0 widths
    end.

  (* every template line of a decoration whose four strings are one cell each - one rune or ten -
     is exactly as wide as the emitter reckons (totalWidth = 1 + len(widths) + sum (w+2)) *)
  Lemma template_line_cells left horiz cross right widths :
    W left = 1 -> W horiz = 1 -> W cross = 1 -> W right = 1 ->
    W (template_line left horiz cross right widths) = line_cells widths.
  Proof.
    intros Hl Hh Hc Hr. unfold template_line. rewrite W_app, Hl.
    destruct widths as [|w r]; [simpl; lia|].
    unfold line_cells.
    assert (G : forall w r, W (template_tail horiz cross right (w :: r))
                = length (w :: r) + fold_right (fun w acc => (w + 2) + acc) 0 (w :: r)).
    { clear w r. intros w r. revert w. induction r as [|w' r IH]; intros w.
      - cbn [template_tail]. rewrite W_app, W_rep, Hh, Hr. simpl. lia.
      - change (template_tail horiz cross right (w :: w' :: r))
          with (str_repeat horiz (2 + w) ++ cross ++ template_tail horiz cross right (w' :: r)).
        rewrite !W_app, W_rep, Hh, Hc, IH. simpl. lia. }
    rewrite G. lia.
  Qed.
End Cells.

(* the dispatch does not depend on what the renderers produce *)
Lemma kind_by_lower_only_wrap lower reg s r :
  wrap lower reg s = Ok r -> kind_of r = pkg_kind (lower (first_section s)).
Proof. exact (kind_by_lower_only lower Panic Panic Panic Panic (fun _ => Panic) reg s r). Qed.

Lemma registered_kind_text_wrap lower reg n d r :
  plain_name lower n -> wrap lower (register n d reg) n = Ok r -> kind_of r = KText.
Proof. exact (registered_kind_text lower Panic Panic Panic Panic (fun _ => Panic) reg n d r). Qed.
