(* C11: the three defects of the pinned tree (DESIGN 7: D10, D11, D12), stated
   over legacy copies of the affected model functions, each with a computed
   witness that the property's statement fails for the legacy function.  The
   theorems of Props/C11.v are about the repaired functions; nothing there
   depends on this file. *)
From Tab Require Import Model.ErrCont Model.ErrRoute Spec.ErrLog.

(* ---- D10: AddErrorList as pinned (error_containers.go at c1f3764):
     if ec.errors_ == nil { ec.errors_ = el; return }      adopts the caller's list
     for i := range el { if el[i] != nil { continue } ... }  else filter-append
   and no nil guard: ec.errors_ on a nil ec panics. *)
Definition add_error_list_pinned (c : cont) (el : option (list err)) : res cont :=
  match c with
  | None => Panic
  | Some None => Ok (Some el)
  | Some (Some l) =>
      Ok (Some (Some (l ++ match el with
                            | None => []
                            | Some x => filter (fun e => match e with Some _ => true | None => false end) x
                            end)))
  end.

Local Open Scope N_scope.

(* a nil entry comes out of Errors() *)
Example d10_keeps_nil_entries :
  exists c, add_error_list_pinned (create MZero) (Some [Some 0; None; Some 1]) = Ok c
            /\ errors c = Some [Some 0; None; Some 1]
            /\ errors c <> view (cont_expected MZero [OpAddList (Some [Some 0; None; Some 1])]).
Proof. eexists. split; [reflexivity|]. split; [reflexivity|]. vm_compute. discriminate. Qed.

(* a nil container panics *)
Example d10_nil_container_panics : add_error_list_pinned (create MNil) None = Panic.
Proof. reflexivity. Qed.

(* (that the adopted list is the caller's own backing array is beyond a value
   model; the harness shows it by overwriting the caller's slice) *)

(* ---- D11: AddSeparator as pinned leaves sep.ErrorContainer nil *)
Definition add_separator_pinned (st : tstate) (r : nat) : tstate := set_row st r (mkRow ECNil true true).

Example d11_separator_misuse_lost :
  let st := row_add_misuse (add_separator_pinned init 2) 2 0 in
  table_errors st = None
  /\ view (expected_errors [AddSeparator 2; RowAddOnSeparator 2 0]) = Some [Some 0].
Proof. split; vm_compute; reflexivity. Qed.

(* ---- D12: Row.Add as pinned hands r.ErrorContainer (possibly nil) to the
   row's cell callbacks *)
Definition invoke_fail_pinned_row_cell_add (st : tstate) (r : nat) (e : err) : tstate :=
  match e with None => st | Some _ => rowec_add_error st r e end.

Example d12_callback_error_dropped :
  let st := table_add_row (invoke_fail_pinned_row_cell_add init 1 (Some 0)) 1 in
  table_errors st = None
  /\ view (expected_errors [CallbackFails SRowCellAdd 1 (Some 0); AttachRow 1]) = Some [Some 0].
Proof. split; vm_compute; reflexivity. Qed.
