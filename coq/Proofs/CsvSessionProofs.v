From Tab Require Import Model.Csv Model.CsvSession Spec.CsvParse Proofs.CsvProofs.

(* ---------- the running form agrees with the one-shot form ---------- *)

Definition tr_result (t : list bytes * res unit) : res (list bytes) :=
  match snd t with Ok _ => Ok (fst t) | Err => Err | Panic => Panic end.

Lemma csv_emit_rows_tr_agrees ncols rows :
  csv_emit_rows ncols rows = tr_result (csv_emit_rows_tr ncols rows).
Proof.
  induction rows as [|r rows IH]; cbn [csv_emit_rows csv_emit_rows_tr]; [reflexivity|].
  destruct (csv_emit_row ncols r) as [w| |]; cbn [bind]; try reflexivity.
  rewrite IH. destruct (csv_emit_rows_tr ncols rows) as [ws e].
  unfold tr_result. cbn [fst snd]. destruct e; reflexivity.
Qed.

Lemma csv_render_string_eq v : csv_render_string v = csv_render v.
Proof.
  unfold csv_render_string, csv_render, csv_render_writes, csv_render_to_tr.
  destruct (v_ncols v <? 1); [reflexivity|].
  rewrite csv_emit_rows_tr_agrees.
  destruct (csv_emit_rows_tr (v_ncols v) (csv_records v)) as [ws e].
  unfold tr_result, buf_writes. cbn [fst snd]. destruct e; reflexivity.
Qed.

(* ---------- sessions ---------- *)

Lemma csv_session_pointwise vs : Forall2 (fun v o => o = csv_render v) vs (csv_session vs).
Proof.
  unfold csv_session. induction vs as [|v vs IH]; cbn [map]; constructor; auto.
  apply csv_render_string_eq.
Qed.

Lemma csv_session_nth pre v post :
  nth_error (csv_session (pre ++ v :: post)) (length pre) = Some (csv_render v).
Proof.
  unfold csv_session. rewrite map_app. cbn [map].
  rewrite nth_error_app2 by (rewrite map_length; lia).
  rewrite map_length, Nat.sub_diag. cbn [nth_error]. rewrite csv_render_string_eq. reflexivity.
Qed.

Lemma csv_session_roundtrip pre v post out :
  nth_error (csv_session (pre ++ v :: post)) (length pre) = Some (Ok out) ->
  parse_csv out = Some (csv_expected v)
  /\ Forall (fun r => length r = v_ncols v) (csv_expected v).
Proof.
  rewrite csv_session_nth. intros H. inversion H as [H1]. apply csv_roundtrip. exact H1.
Qed.

Lemma csv_session_no_panic vs : Forall (fun o => o <> Panic) (csv_session vs).
Proof.
  unfold csv_session. apply Forall_forall. intros o Ho. apply in_map_iff in Ho as (v & <- & _).
  rewrite csv_render_string_eq. apply csv_no_panic.
Qed.

(* ---------- a render that fails part-way ---------- *)

Lemma csv_emit_rows_tr_partial ncols pre bad post :
  1 <= ncols -> Forall (fun r => length r <= ncols) pre -> ncols < length bad ->
  exists ws, csv_emit_rows_tr ncols (pre ++ bad :: post) = (ws, Err)
          /\ concat ws = concat (map (fun r => csv_line (pad_to ncols r)) pre).
Proof.
  intros Hn Hpre Hbad. induction Hpre as [|r pre Hr _ IH]; cbn [app csv_emit_rows_tr].
  - destruct (csv_emit_row_result ncols bad) as [[E _]|(w & _ & Hle)]; [|lia].
    rewrite E. exists []. split; reflexivity.
  - destruct (csv_emit_row_ok ncols r Hr Hn) as (w & E & Hw). rewrite E.
    destruct IH as (ws & Ews & Hws). rewrite Ews. exists (w ++ ws). split; [reflexivity|].
    cbn [map concat]. rewrite concat_app, Hw, Hws. reflexivity.
Qed.

Lemma csv_partial_failure v pre bad post :
  1 <= v_ncols v -> csv_records v = pre ++ bad :: post ->
  Forall (fun r => length r <= v_ncols v) pre -> v_ncols v < length bad ->
  exists ws, csv_render_to_tr v = (ws, Err)
          /\ parse_csv (concat ws) = Some (map (pad_to (v_ncols v)) pre)
          /\ csv_render_string v = Err
          /\ csv_render v = Err.
Proof.
  intros Hn Hrec Hpre Hbad.
  destruct (csv_emit_rows_tr_partial (v_ncols v) pre bad post Hn Hpre Hbad) as (ws & Ews & Hws).
  assert (Etr : csv_render_to_tr v = (ws, Err)).
  { unfold csv_render_to_tr. destruct (v_ncols v <? 1) eqn:E; [apply Nat.ltb_lt in E; lia|].
    rewrite Hrec. exact Ews. }
  assert (Es : csv_render_string v = Err).
  { unfold csv_render_string. rewrite Etr. reflexivity. }
  exists ws. split; [exact Etr|]. split; [|split; [exact Es|rewrite <- csv_render_string_eq; exact Es]].
  rewrite Hws, <- map_map. apply parse_csv_lines.
  apply Forall_forall. intros l Hl. apply in_map_iff in Hl as (r & <- & Hr).
  rewrite Forall_forall in Hpre. specialize (Hpre r Hr).
  intros Hnil. apply (f_equal (@length _)) in Hnil. rewrite pad_to_length in Hnil by exact Hpre.
  simpl in Hnil. lia.
Qed.
