(* C04: slot-level reading of the layout. *)
From Tab Require Import Model.Text Spec.TextLayout Proofs.TextBase Proofs.TextMeasure
     Proofs.TextRefine Proofs.TextTop Proofs.TextGeom.

Local Open Scope nat_scope.

Lemma rep_app {A} (s : list A) a b : rep (a + b) s = rep a s ++ rep b s.
Proof. induction a as [|a IH]; simpl; [reflexivity|]. rewrite IH, app_assoc. reflexivity. Qed.

Section Slots.
  Variable W : bytes -> nat.
  Variable d : decoration.
  Variable v : view.

  (* the block of a row is one framed line of slots per line index, and slot i
     of line k is the spec slot of column i *)
  Lemma slots_proof r k i dv :
    i < v_ncols v ->
    row_block W v dv r = map (fun k => frame dv (row_slots W v r k)) (seq 0 (row_height v r))
    /\ nth_error (row_slots W v r k) i
       = Some (spec_slot (colw W v i) (eff_align v i) (cell_line W r i k)).
  Proof.
    intros Hi. split; [reflexivity|]. unfold row_slots. rewrite nth_error_map_seq_lt by exact Hi. reflexivity.
  Qed.

  Lemma layout_blocks :
    layout W d v
    = top_part W d v ++ flat_map (row_part W d v) (v_rows v)
      ++ rules d (rule W v (d_BottomLeft d) (d_HOuter d) (d_BBottomUp d) (d_BottomRight d))
    /\ (forall cs, row_part W d v (Some cs) = row_block W v (body_div d) cs)
    /\ (forall h, v_header v = Some h ->
          top_part W d v
          = rules d (rule W v (d_TopLeft d) (d_HOuter d) (d_HTopDown d) (d_TopRight d))
            ++ row_block W v (hdr_div d) h
            ++ rules d (rule W v (d_HBLeft d) (d_HOuter d) (d_HBCross d) (d_HBRight d))).
  Proof.
    split; [reflexivity|]. split; [reflexivity|]. intros h E. unfold top_part. rewrite E. reflexivity.
  Qed.

  (* the text of a slot is the cell's k-th line, byte for byte; otherwise blank *)
  Lemma unmodified_proof r k i c s :
    nth_error r i = Some c -> nth_error (cell_lines c) k = Some s ->
    exists x y, row_slot W v r k i = [Pad x; Txt s (linew W c s); Pad y]
                /\ x + y = colw W v i - linew W c s.
  Proof.
    intros Ec Es. unfold row_slot.
    destruct (slot_shape (colw W v i) (eff_align v i) (cell_line W r i k)) as (x & y & E & S).
    unfold cell_line in *. rewrite Ec, Es in *. cbn [fst snd] in *. eauto.
  Qed.

  Lemma blank_proof r k i :
    (nth_error r i = None \/ exists c, nth_error r i = Some c /\ nth_error (cell_lines c) k = None) ->
    flat_segs (row_slot W v r k i) = rep (colw W v i) [SP].
  Proof.
    intros H. unfold row_slot.
    destruct (slot_shape (colw W v i) (eff_align v i) (cell_line W r i k)) as (x & y & E & S).
    assert (Ecl : cell_line W r i k = ([], 0)).
    { unfold cell_line. destruct H as [-> | (c & -> & ->)]; reflexivity. }
    rewrite E, Ecl in *. cbn [fst snd] in *. unfold flat_segs. cbn [flat_map flat_seg app].
    rewrite app_nil_r, <- rep_app. f_equal. lia.
  Qed.

  Lemma align_precedence_proof i a0 ai :
    nth_error (v_align v) 0 = Some a0 -> nth_error (v_align v) (S i) = Some ai ->
    eff_align v i = match ai with
                    | Some a => a
                    | None => match a0 with Some a => a | None => ALeft end
                    end.
  Proof. intros E0 Ei. unfold eff_align, own_align, default_align. rewrite E0, Ei. reflexivity. Qed.

  Hypothesis Hn : 1 <= v_ncols v.
  Hypothesis Hcells : Forall (fun c => cell_ok W c /\ width_covers W c) (all_cells v).

  (* a single-line item declaring its width is laid out as exactly that wide,
     and the slot is still exactly the column width *)
  Lemma declared_width_proof r i c s :
    In r (all_rows v) -> nth_error r i = Some c ->
    cell_lines c = [s] -> vc_widther c = true ->
    exists x y, row_slot W v r 0 i = [Pad x; Txt s (Z.to_nat (vc_tw c)); Pad y]
                /\ x + Z.to_nat (vc_tw c) + y = colw W v i.
  Proof.
    intros Hr Ec El Ew.
    destruct (unmodified_proof r 0 i c s Ec) as (x & y & E & S); [rewrite El; reflexivity|].
    assert (Elw : linew W c s = Z.to_nat (vc_tw c)).
    { unfold linew, declares_line_width. rewrite Ew, El. reflexivity. }
    rewrite Elw in *. exists x, y. split; [exact E|].
    pose proof (slot_width W v Hn Hcells r 0 i Hr) as Hw. rewrite E in Hw. simpl in Hw. lia.
  Qed.

  (* a row has at least as many lines as any of its cells declares, and as
     any of its cells has text lines *)
  Lemma declared_height_proof r i c :
    length r <= v_ncols v -> nth_error r i = Some c ->
    Z.to_nat (vc_h c) <= row_height v r /\ length (cell_lines c) <= row_height v r.
  Proof.
    intros Hlen Ec. unfold row_height. rewrite firstn_all2 by exact Hlen.
    assert (H : Nat.max (Z.to_nat (vc_h c)) (length (cell_lines c)) <= list_max (map cell_height r)).
    { apply (list_max_ge (map cell_height r) (cell_height c)). apply in_map. eapply nth_error_In; eauto. }
    lia.
  Qed.
End Slots.
