(* Totality of Render on tables with registered callbacks (Model/RenderCb.v),
   from C13's refinement of the callback machine (run_spec). *)
From Tab Require Import Model.RenderCb.
From Tab Require Import Model.Callbacks Spec.CbTrace Proofs.CallbacksProofs.

(* any number of passes over the table of a well-formed history complete *)
Lemma passes_complete h k : wf_hist h = true -> exists oc, run h k = Ok oc.
Proof. intros W. destruct (run_spec h k W) as (oc & E & _). exists oc. exact E. Qed.

Lemma run_no_panic h k : wf_hist h = true -> run h k <> Panic.
Proof. intros W. destruct (passes_complete h k W) as (oc & E). rewrite E. discriminate. Qed.

(* the build completes and one pass over its result completes *)
Lemma build_and_pass h : wf_hist h = true ->
  exists r se, run_build h = Ok r /\ render_pass (fst (fst r)) = Ok se.
Proof.
  intros W. destruct (passes_complete h 1 W) as (oc & E).
  unfold run in E. destruct (run_build h) as [r| |] eqn:Eb; cbn [bind] in E; try discriminate.
  cbn [render_passes] in E.
  destruct (render_pass (fst (fst r))) as [se| |] eqn:Ep; cbn [bind] in E; try discriminate.
  exists r, se. split; [reflexivity | exact Ep].
Qed.

Lemma render_cb_is_body h body : wf_hist h = true -> render_cb h body = render_string body.
Proof.
  intros W. destruct (build_and_pass h W) as (r & se & Eb & Ep).
  unfold render_cb. rewrite Eb, Ep. reflexivity.
Qed.

Lemma render_cb_total h body : wf_hist h = true -> body <> Panic ->
  render_cb h body <> Panic
  /\ (forall s, render_cb h body = Ok (s, true) -> s = []).
Proof.
  intros W Hb. rewrite (render_cb_is_body h body W). split.
  - destruct body; try discriminate. congruence.
  - intros s H. destruct body; inversion H; reflexivity.
Qed.

(* the same callback label registered any number of times in one list, on any
   owner: nothing distinguishes that from distinct labels (non-vacuity of the
   quantifier over labels: wf_hist puts no condition on them) *)
Lemma wf_hist_any_labels : forall h1 ow tm g cb cb' h2,
  wf_hist (h1 ++ ORegister ow tm g cb :: h2) = true ->
  wf_hist (h1 ++ ORegister ow tm g cb' :: h2) = true.
Proof.
  unfold wf_hist. generalize shape0.
  intros sh h1. revert sh. induction h1 as [|o h1 IH]; intros sh ow tm g cb cb' h2 H.
  - cbn [app wf_from] in *. exact H.
  - cbn [app wf_from] in *. apply andb_true_iff in H as [H1 H2]. apply andb_true_iff. split; [exact H1|].
    eapply IH. exact H2.
Qed.
