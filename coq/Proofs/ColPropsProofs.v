(* C08 (round 6) - the machine with property chains on the column records
   (Model/ColProps.v) refines the table machine (Model/Table.v) over the history
   projected to the two properties the renderers read (Spec/ColPropHist.v): for
   EVERY history - any keys, any values, any interleaving with building calls,
   any chain depth - no call panics, and what the renderers read off the chains
   is what the projected history says.  In particular a SetProperty under a key
   other than align.PropertyType never changes any column's alignment. *)
From Tab Require Import Model.Props Proofs.PropsProofs.
From Tab Require Import Base.Ops Model.Core Model.Table Model.ColProps Spec.TableHist Spec.ColPropHist Proofs.TableProofs.

Lemma map_upd_gen {B C} (f : B -> C) l i x : map f (upd l i x) = upd (map f l) i (f x).
Proof. revert i. induction l as [|y l IH]; intros [|i]; cbn [upd map]; try reflexivity. rewrite IH. reflexivity. Qed.

Lemma upd_same_gen {B} (l : list B) i x : nth_error l i = Some x -> upd l i x = l.
Proof.
  revert i. induction l as [|y l IH]; intros [|i] H; cbn [upd nth_error] in *; try discriminate.
  - inversion H. reflexivity.
  - rewrite (IH i H). reflexivity.
Qed.

Lemma upd_length_gen {B} (l : list B) i x : length (upd l i x) = length l.
Proof. revert i. induction l as [|y l IH]; intros [|i]; cbn [upd length]; try reflexivity. rewrite IH. reflexivity. Qed.

Lemma Forall_upd {B} (P : B -> Prop) l i x : Forall P l -> P x -> Forall P (upd l i x).
Proof.
  revert i. induction l as [|y l IH]; intros [|i] H Hx; cbn [upd]; try exact H.
  - inversion H; subst. constructor; assumption.
  - inversion H; subst. constructor; [assumption | apply IH; assumption].
Qed.

Lemma align_skip_keys : key_eqb align_key skip_key = false.
Proof. reflexivity. Qed.

Section Generic.
Context {A : Type}.

(* the invariant of the column records *)
Definition cinv (st : gpstate A) : Prop :=
  length (p_cols st) = S (t_ncols (p_core st)) /\ Forall (fun m => NoDup (keys m)) (p_cols st).

Lemma cinv_init : cinv (@pinit A).
Proof. split; [reflexivity | repeat constructor]. Qed.

Lemma has_column_le (st : Core.state A) n : has_column st n = true -> n <= t_ncols st.
Proof.
  unfold has_column, column_exists. intros H.
  destruct ((Z.of_nat n <? 0)%Z || (Z.of_nat (t_ncols st) <? Z.of_nat n)%Z) eqn:E; [discriminate|].
  apply orb_false_iff in E. destruct E as [_ E]. apply Z.ltb_ge in E. lia.
Qed.

Lemma pad_nil_map {C} (g : chain -> option C) l n : g [] = None ->
  map g (pad_nil l n) = pad_none (map g l) n.
Proof.
  intros G. unfold pad_nil, pad_none. rewrite map_app, map_length. f_equal.
  induction (n - length l) as [|k IH]; cbn [repeat map]; [reflexivity | rewrite G, IH; reflexivity].
Qed.

(* one step: total, keeps the invariant, and simulates the projected steps *)
Lemma pstep_sim (st : gpstate A) o : cinv st ->
  exists st', pstep st o = Ok st' /\ cinv st'
              /\ ptable st' = fold_left tstep (cp_proj1 o) (ptable st).
Proof.
  intros [HL HN]. destruct o as [c|n k v]; cbn [pstep cp_proj1].
  - eexists. split; [reflexivity|]. split.
    + split; cbn [p_cols p_core].
      * unfold pad_nil. rewrite app_length, repeat_length.
        pose proof (step_mono (p_core st) c). lia.
      * unfold pad_nil. apply Forall_app. split; [exact HN|].
        apply Forall_forall. intros m Hm. apply repeat_spec in Hm. subst m. constructor.
    + cbn [fold_left tstep ptable tb_core tb_align tb_skip p_core p_cols].
      unfold ptable. cbn [p_core p_cols]. rewrite !pad_nil_map by reflexivity. reflexivity.
  - destruct (has_column (p_core st) n) eqn:HC.
    + pose proof (has_column_le _ _ HC) as Hn.
      destruct (nth_error (p_cols st) n) as [m|] eqn:EN.
      2:{ apply nth_error_None in EN. lia. }
      assert (NDm : NoDup (keys m)).
      { rewrite Forall_forall in HN. apply HN. eapply nth_error_In. exact EN. }
      rewrite set_property_ok. cbn [bind].
      eexists. split; [reflexivity|]. split.
      * split; cbn [p_cols p_core].
        -- rewrite upd_length_gen. exact HL.
        -- apply Forall_upd; [exact HN|]. eapply set_nodup; [exact NDm | apply set_property_ok].
      * pose proof (fun k' => get_set m k v _ k' NDm (set_property_ok m k v)) as GS.
        assert (CA : col_align (set_result m k v)
                     = if key_eqb k align_key then match v with Some x => dec_align x | None => None end else col_align m).
        { unfold col_align. rewrite GS. destruct (key_eqb k align_key); reflexivity. }
        assert (CS : col_skip (set_result m k v)
                     = if key_eqb k skip_key then option_map dec_skip v else col_skip m).
        { unfold col_skip. rewrite GS. destruct (key_eqb k skip_key); reflexivity. }
        unfold ptable. cbn [p_core p_cols]. rewrite !map_upd_gen, CA, CS.
        assert (EA : nth_error (map col_align (p_cols st)) n = Some (col_align m)) by (rewrite nth_error_map, EN; reflexivity).
        assert (ES : nth_error (map col_skip (p_cols st)) n = Some (col_skip m)) by (rewrite nth_error_map, EN; reflexivity).
        destruct (key_eqb k align_key) eqn:KA.
        -- apply key_eqb_eq in KA. subst k. rewrite align_skip_keys.
           cbn [fold_left tstep tb_core]. rewrite HC. cbn [tb_align tb_skip tb_core].
           rewrite (upd_same_gen _ _ _ ES). reflexivity.
        -- destruct (key_eqb k skip_key) eqn:KS.
           ++ cbn [fold_left tstep tb_core]. rewrite HC. cbn [tb_align tb_skip tb_core].
              rewrite (upd_same_gen _ _ _ EA). reflexivity.
           ++ cbn [fold_left].
              rewrite (upd_same_gen _ _ _ EA), (upd_same_gen _ _ _ ES). reflexivity.
    + eexists. split; [reflexivity|]. split; [split; assumption|].
      destruct (key_eqb k align_key); [|destruct (key_eqb k skip_key)]; cbn [fold_left tstep ptable tb_core];
        try rewrite HC; reflexivity.
  Qed.

Lemma prun_from_sim (h : list (gptop A)) : forall st, cinv st ->
  exists st', prun_from st h = Ok st' /\ cinv st'
              /\ ptable st' = fold_left tstep (cp_proj h) (ptable st).
Proof.
  induction h as [|o h IH]; intros st I.
  - exists st. repeat split; try apply I. 
  - destruct (pstep_sim st o I) as (st1 & E1 & I1 & T1).
    destruct (IH st1 I1) as (st2 & E2 & I2 & T2).
    exists st2. cbn [prun_from]. rewrite E1. cbn [bind]. split; [exact E2|]. split; [exact I2|].
    unfold cp_proj. cbn [flat_map]. rewrite fold_left_app, <- T1. exact T2.
Qed.

(* THE REFINEMENT, every history *)
Theorem colprops_refines (h : list (gptop A)) :
  exists st, prun h = Ok st /\ ptable st = trun (cp_proj h).
Proof.
  destruct (prun_from_sim h pinit cinv_init) as (st & E & _ & T).
  exists st. split; [exact E | exact T].
Qed.

Theorem colprops_total (h : list (gptop A)) : exists st, prun h = Ok st.
Proof. destruct (colprops_refines h) as (st & E & _). exists st. exact E. Qed.

Lemma prun_snoc (h : list (gptop A)) o : forall st0,
  prun_from st0 (h ++ [o]) = bind (prun_from st0 h) (fun st => pstep st o).
Proof.
  induction h as [|x h IH]; intros st0; cbn [app prun_from].
  - cbn [bind]. destruct (pstep st0 o); reflexivity.
  - destruct (pstep st0 x); cbn [bind]; [apply IH | reflexivity | reflexivity].
Qed.

Lemma prun_cinv (h : list (gptop A)) st : prun h = Ok st -> cinv st.
Proof.
  intros E. destruct (prun_from_sim h pinit cinv_init) as (st' & E' & I & _).
  unfold prun in E. rewrite E in E'. inversion E'. subst. exact I.
Qed.

(* a SetProperty under a key that is not the alignment key changes no column's
   alignment - whatever the key, the value (nil included), the column, the depth
   of the chains and the history before *)
Theorem other_key_keeps_alignment (h : list (gptop A)) n k v st st' :
  k <> align_key -> prun h = Ok st -> prun (h ++ [PSet n k v]) = Ok st' ->
  map col_align (p_cols st') = map col_align (p_cols st).
Proof.
  intros NK E E'. unfold prun in E'. rewrite prun_snoc in E'. unfold prun in E. rewrite E in E'. cbn [bind] in E'.
  destruct (pstep_sim st (PSet n k v) (prun_cinv h st E)) as (st2 & E2 & _ & T2).
  rewrite E' in E2. inversion E2; subst st2; clear E2.
  apply key_eqb_neq in NK. cbn [cp_proj1] in T2. rewrite NK in T2.
  assert (HT : tb_align (ptable st') = tb_align (ptable st)).
  { rewrite T2. destruct (key_eqb k skip_key); cbn [fold_left tstep]; [|reflexivity].
    destruct (has_column _ _); reflexivity. }
  exact HT.
Qed.

(* and under the alignment key it changes that column's, and only that one's *)
Theorem align_key_sets_alignment (h : list (gptop A)) n v st st' :
  prun h = Ok st -> prun (h ++ [PSet n align_key v]) = Ok st' ->
  map col_align (p_cols st')
  = if has_column (p_core st) n
    then upd (map col_align (p_cols st)) n (match v with Some x => dec_align x | None => None end)
    else map col_align (p_cols st).
Proof.
  intros E E'. unfold prun in E'. rewrite prun_snoc in E'. unfold prun in E. rewrite E in E'. cbn [bind] in E'.
  destruct (pstep_sim st (PSet n align_key v) (prun_cinv h st E)) as (st2 & E2 & _ & T2).
  rewrite E' in E2. inversion E2; subst st2; clear E2.
  cbn [cp_proj1] in T2. rewrite key_eqb_refl in T2. cbn [fold_left tstep] in T2.
  change (tb_core (ptable st)) with (p_core st) in T2.
  change (map col_align (p_cols st')) with (tb_align (ptable st')). rewrite T2.
  destruct (has_column (p_core st) n); reflexivity.
Qed.
End Generic.
