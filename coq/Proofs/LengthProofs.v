(* Proofs for C18 (length/length.go part). *)
From Tab Require Import Base.Bytes Base.Utf8 Model.Length Spec.Length.

(* ------------------------------------------------------------ split / lines *)

(* drop one trailing empty segment *)
Fixpoint dle (ss : list bytes) : list bytes :=
  match ss with
  | [] => []
  | [x] => if is_nil x then [] else [x]
  | x :: r => x :: dle r
  end.

Lemma dle_cons x r : r <> [] -> dle (x :: r) = x :: dle r.
Proof. destruct r; [congruence | reflexivity]. Qed.

Lemma dle_snoc init x : dle (init ++ [x]) = if is_nil x then init else init ++ [x].
Proof.
  induction init as [|y init IH]; [cbn; destruct (is_nil x); reflexivity|].
  change ((y :: init) ++ [x]) with (y :: (init ++ [x])).
  rewrite dle_cons by (destruct init; discriminate).
  rewrite IH. destruct (is_nil x); reflexivity.
Qed.

Lemma lines_snoc s init x : split_lf s = init ++ [x] ->
  lines s = Ok (if is_nil x then init else init ++ [x]).
Proof.
  intros E. unfold lines. rewrite E.
  rewrite app_length. cbn [length]. replace (length init + 1 - 1) with (length init) by lia.
  unfold idx. rewrite nth_error_app2 by lia. rewrite Nat.sub_diag. cbn [nth_error bind].
  rewrite firstn_app, Nat.sub_diag, firstn_all. cbn [firstn]. rewrite app_nil_r. reflexivity.
Qed.

Lemma lines_dle s : lines s = Ok (dle (split_lf s)).
Proof.
  destruct (exists_last (split_lf_nonempty s)) as (init & x & E).
  rewrite (lines_snoc s init x E), E, dle_snoc. reflexivity.
Qed.

Lemma lines_of_dle s : lines_of s = dle (split_lf s).
Proof. unfold lines_of. rewrite lines_dle. reflexivity. Qed.

Lemma lines_lines_of s : lines s = Ok (lines_of s).
Proof. rewrite lines_of_dle. apply lines_dle. Qed.

Lemma lines_no_panic s : lines s <> Panic.
Proof. rewrite lines_dle. discriminate. Qed.

(* strings.Split followed by strings.Join is the identity *)
Lemma join_split s : join [LF] (split_lf s) = s.
Proof.
  induction s as [|b r IH]; [reflexivity|]. cbn [split_lf].
  destruct (N.eqb b LF) eqn:Eb.
  - apply N.eqb_eq in Eb. subst b.
    rewrite join_cons_ne by apply split_lf_nonempty. rewrite IH. reflexivity.
  - pose proof (split_lf_nonempty r) as Hne.
    destruct (split_lf r) as [|l ls]; [congruence|].
    destruct ls as [|l2 ls].
    + cbn in *. congruence.
    + rewrite join_cons_ne by discriminate. rewrite join_cons_ne in IH by discriminate.
      rewrite <- IH. reflexivity.
Qed.

(* the last segment is empty exactly when the string is empty or ends in LF *)
Lemma last_split_nil s : is_nil (last (split_lf s) []) = is_nil s || ends_with_lf s.
Proof.
  induction s as [|b r IH]; [reflexivity|]. cbn [split_lf].
  destruct (N.eqb b LF) eqn:Eb.
  - pose proof (split_lf_nonempty r) as Hne.
    destruct (split_lf r) as [|l ls] eqn:E; [congruence|].
    change (last ([] :: l :: ls) []) with (last (l :: ls) []). rewrite IH.
    destruct r as [|c r']; [cbn; rewrite Eb; reflexivity | reflexivity].
  - pose proof (join_split r) as J.
    pose proof (split_lf_nonempty r) as Hne.
    destruct (split_lf r) as [|l ls] eqn:E; [congruence|].
    destruct ls as [|l2 ls].
    + cbn in J. subst l. cbn [last is_nil orb].
      destruct r as [|c r']; [cbn; rewrite Eb; reflexivity|].
      cbn [last is_nil orb] in IH. change (ends_with_lf (b :: c :: r')) with (ends_with_lf (c :: r')).
      exact IH.
    + change (last ((b :: l) :: l2 :: ls) []) with (last (l :: l2 :: ls) []). rewrite IH.
      destruct r as [|c r']; [discriminate | reflexivity].
Qed.

(* C18, clause 1: Lines loses nothing but the breaks and one trailing newline *)
Lemma lines_lossless s : lossless s (lines_of s).
Proof.
  unfold lossless. rewrite lines_of_dle.
  destruct (exists_last (split_lf_nonempty s)) as (init & x & E).
  pose proof (last_split_nil s) as L. pose proof (join_split s) as J.
  rewrite E in L, J |- *. rewrite last_last in L. rewrite dle_snoc.
  destruct (is_nil x) eqn:Ex.
  - destruct x; [|discriminate].
    destruct init as [|y init].
    + cbn in J. subst s. reflexivity.
    + rewrite join_snoc in J by discriminate.
      destruct s as [|b r]; [destruct (join [LF] (y :: init)); discriminate|].
      cbn [is_nil orb] in L. rewrite <- L. rewrite <- J at 1. rewrite app_nil_r. reflexivity.
  - symmetry in L. apply orb_false_iff in L as [_ L]. rewrite L, app_nil_r. symmetry. exact J.
Qed.

(* the model's Lines is the specification's line scanner *)
Definition prepend (p : bytes) (ss : list bytes) : list bytes :=
  match ss with [] => [p] | l :: ls => (p ++ l) :: ls end.

Lemma scan_lines_split s : forall cur, scan_lines cur s = dle (prepend (rev cur) (split_lf s)).
Proof.
  induction s as [|b r IH]; intros cur.
  - cbn. rewrite app_nil_r. destruct cur as [|c cur]; [reflexivity|].
    cbn [rev]. destruct (rev cur ++ [c]) eqn:E; [destruct (rev cur); discriminate | reflexivity].
  - cbn [scan_lines split_lf]. destruct (N.eqb b LF).
    + cbn [prepend]. rewrite app_nil_r. rewrite dle_cons by apply split_lf_nonempty.
      rewrite IH. cbn [rev].
      pose proof (split_lf_nonempty r). destruct (split_lf r); [congruence | reflexivity].
    + rewrite IH. pose proof (split_lf_nonempty r).
      destruct (split_lf r) as [|l ls]; [congruence|].
      cbn [prepend rev]. rewrite <- app_assoc. reflexivity.
Qed.

Lemma lines_of_spec s : lines_of s = spec_lines s.
Proof.
  unfold spec_lines. rewrite scan_lines_split, lines_of_dle. cbn [rev].
  pose proof (split_lf_nonempty s). destruct (split_lf s); [congruence | reflexivity].
Qed.

(* no line contains a line break *)
Lemma split_lf_no_lf s : Forall (fun l => ~ In LF l) (split_lf s).
Proof.
  induction s as [|b r IH]; [repeat constructor; intros []|]. cbn [split_lf].
  destruct (N.eqb b LF) eqn:Eb.
  - constructor; [intros [] | exact IH].
  - destruct (split_lf r) as [|l ls]; [repeat constructor; intros [H|[]]; subst; rewrite N.eqb_refl in Eb; discriminate|].
    inversion IH; subst. constructor; [|assumption].
    intros [H|H]; [subst; rewrite N.eqb_refl in Eb; discriminate | contradiction].
Qed.

Lemma dle_incl ss : incl (dle ss) ss.
Proof.
  induction ss as [|x r IH]; [intros ? []|].
  destruct r as [|y r'].
  - cbn. destruct (is_nil x); [intros ? [] | apply incl_refl].
  - rewrite dle_cons by discriminate. intros z [H|H]; [left; exact H | right; apply IH, H].
Qed.

Lemma lines_no_lf s : Forall (fun l => ~ In LF l) (lines_of s).
Proof.
  rewrite lines_of_dle. apply Forall_forall. intros l Hl.
  pose proof (split_lf_no_lf s) as F. rewrite Forall_forall in F. apply F, dle_incl, Hl.
Qed.

(* number of lines, as cell.go counts it *)
Lemma split_lf_length s : length (split_lf s) = S (length (filter (N.eqb LF) s)).
Proof.
  induction s as [|b r IH]; [reflexivity|]. cbn [split_lf filter].
  rewrite (N.eqb_sym LF b). destruct (N.eqb b LF).
  - cbn [length]. rewrite IH. reflexivity.
  - pose proof (split_lf_nonempty r). destruct (split_lf r); [congruence|]. cbn [length] in *. exact IH.
Qed.

Lemma lines_of_length s :
  length (lines_of s) = if is_nil s || ends_with_lf s then length (filter (N.eqb LF) s) else S (length (filter (N.eqb LF) s)).
Proof.
  rewrite lines_of_dle.
  destruct (exists_last (split_lf_nonempty s)) as (init & x & E).
  pose proof (last_split_nil s) as L. pose proof (split_lf_length s) as C.
  rewrite E in L, C |- *. rewrite last_last in L. rewrite dle_snoc. rewrite <- L.
  rewrite app_length in C. cbn [length] in C.
  destruct (is_nil x); [lia | rewrite app_length; cbn [length]; lia].
Qed.

(* ------------------------------------------------------------ longest line *)

Section Longest.
  Variable m : bytes -> nat.

  Let F (ss : list bytes) := fun (acc : res nat) (i : nat) =>
    bind acc (fun mx => bind (idx ss i) (fun l => let t := m l in Ok (if mx <? t then t else mx))).

  Lemma fold_idx_max ss : forall suf pre acc, ss = pre ++ suf ->
    fold_left (F ss) (seq (length pre) (length suf)) (Ok acc) = Ok (Nat.max acc (list_max (map m suf))).
  Proof.
    induction suf as [|x suf IH]; intros pre acc E.
    - cbn. rewrite Nat.max_0_r. reflexivity.
    - cbn [length seq fold_left map list_max].
      assert (I : idx ss (length pre) = Ok x).
      { unfold idx. rewrite E, nth_error_app2 by lia. rewrite Nat.sub_diag. reflexivity. }
      unfold F at 2. cbn [bind]. rewrite I. cbn [bind].
      specialize (IH (pre ++ [x]) (if acc <? m x then m x else acc)).
      rewrite app_length in IH. cbn [length] in IH. rewrite Nat.add_1_r in IH.
      rewrite IH by (rewrite <- app_assoc; exact E).
      f_equal. destruct (Nat.ltb_spec acc (m x)); lia.
  Qed.

  (* C18, clause 2 *)
  Lemma longest_line_with_max s : longest_line_with m s = Ok (list_max (map m (lines_of s))).
  Proof.
    unfold longest_line_with. rewrite lines_lines_of. cbn [bind].
    destruct (lines_of s) as [|l [|l2 ls]] eqn:E.
    - reflexivity.
    - cbn. rewrite Nat.max_0_r. reflexivity.
    - set (ss := l :: l2 :: ls). change (length ss) with (S (S (length ls))).
      cbv iota beta.
      change (S (S (length ls))) with (length ss).
      pose proof (fold_idx_max ss ss [] 0 eq_refl) as H. cbn [length] in H.
      change (fun (acc : res nat) (i : nat) =>
        bind acc (fun mx => bind (idx ss i) (fun l0 => let t := m l0 in Ok (if mx <? t then t else mx))))
        with (F ss).
      exact H.
  Qed.
End Longest.

(* ------------------------------------------------------------ measures *)

(* C18, clause 3 *)
Lemma runes_le_bytes s : string_runes s <= string_bytes s.
Proof. apply rune_count_le_length. Qed.

Section CellsBound.
  Variable seg : bytes -> list (list Z).
  Variable rw : Z -> nat.

  Lemma string_cells_sum s :
    string_cells seg rw s = list_sum (map (cluster_width rw) (seg s)).
  Proof.
    unfold string_cells.
    assert (G : forall l a, fold_left (fun width cl => width + cluster_width rw cl) l a
                            = a + list_sum (map (cluster_width rw) l)).
    { induction l as [|x l IH]; intros a; cbn [fold_left map]; [cbn; lia|].
      rewrite IH. unfold list_sum. cbn [fold_right]. lia. }
    rewrite G. lia.
  Qed.

  Lemma cluster_width_le_2 : rw_le_2 rw -> forall cl, cluster_width rw cl <= 2.
  Proof.
    intros rw2 cl. induction cl as [|r cl IH]; cbn [cluster_width]; [lia|].
    destruct (0 <? rw r); [apply rw2 | exact IH].
  Qed.

  Lemma clusters_sum_le l : (forall cl, In cl l -> cluster_width rw cl <= 2) ->
    list_sum (map (cluster_width rw) l) <= 2 * length l.
  Proof.
    induction l as [|cl l IH]; intros H; [cbn; lia|].
    assert (cluster_width rw cl <= 2) by (apply H; left; reflexivity).
    assert (list_sum (map (cluster_width rw) l) <= 2 * length l) by (apply IH; intros c Hc; apply H; right; exact Hc).
    unfold list_sum in *. cbn [map fold_right length]. lia.
  Qed.

  Lemma nonempty_clusters_count (l : list (list Z)) :
    (forall cl, In cl l -> cl <> []) -> length l <= length (concat l).
  Proof.
    induction l as [|cl l IH]; intros H; cbn [concat length]; [lia|].
    rewrite app_length.
    assert (cl <> []) by (apply H; left; reflexivity).
    assert (length l <= length (concat l)) by (apply IH; intros c Hc; apply H; right; exact Hc).
    destruct cl; [congruence | cbn [length]; lia].
  Qed.

  (* C18, clause 4, from the cluster-level assumption *)
  Lemma cells_le_2runes_clusters :
    clusters_le_2 seg (cluster_width rw) -> seg_partition seg -> seg_nonempty seg ->
    forall s, string_cells seg rw s <= 2 * string_runes s.
  Proof.
    intros c2 part nonempty s.
    rewrite string_cells_sum. unfold string_runes, rune_count. rewrite <- part.
    pose proof (clusters_sum_le (seg s) (c2 s)).
    pose proof (nonempty_clusters_count (seg s) (nonempty s)). lia.
  Qed.

  (* ... and from the per-rune assumption, which implies it because a cluster
     measures as its first rune of non-zero width *)
  Lemma cells_le_2runes :
    rw_le_2 rw -> seg_partition seg -> seg_nonempty seg ->
    forall s, string_cells seg rw s <= 2 * string_runes s.
  Proof.
    intros rw2. apply cells_le_2runes_clusters.
    intros s cl _. apply cluster_width_le_2, rw2.
  Qed.
End CellsBound.
