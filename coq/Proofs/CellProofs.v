(* Proofs for C01 and for the cell clause of C18. *)
From Tab Require Import Base.Bytes Base.Utf8 Model.Length Model.Cell Spec.Length Spec.CellText Proofs.LengthProofs Proofs.Utf8Proofs.

Lemma count_lf_filter s : count_lf s = length (filter (N.eqb LF) s).
Proof.
  induction s as [|b r IH]; [reflexivity|]. cbn [count_lf filter].
  rewrite (N.eqb_sym LF b). destruct (N.eqb b LF); cbn [length]; rewrite IH; reflexivity.
Qed.

Lemma has_suffix_lf_ends s : has_suffix_lf s = ends_with_lf s.
Proof.
  induction s as [|b r IH]; [reflexivity|].
  destruct r as [|c r']; [reflexivity|].
  change (has_suffix_lf (b :: c :: r')) with (has_suffix_lf (c :: r')).
  change (ends_with_lf (b :: c :: r')) with (ends_with_lf (c :: r')). exact IH.
Qed.

Lemma ends_with_lf_count s : ends_with_lf s = true -> 1 <= count_lf s.
Proof.
  induction s as [|b r IH]; [discriminate|].
  destruct r as [|c r'].
  - cbn. intros H. rewrite H. lia.
  - change (ends_with_lf (b :: c :: r')) with (ends_with_lf (c :: r')). intros H.
    specialize (IH H). cbn [count_lf] in *. destruct (N.eqb b LF); lia.
Qed.

Lemma is_nil_true {A} (l : list A) : is_nil l = true <-> l = [].
Proof. destruct l; split; intros H; try reflexivity; discriminate. Qed.

Section WithOracle.
  Variable W : bytes -> nat.

  (* the text the type switch of Update selects *)
  Definition switch_text (e : env) (it : item) : bytes :=
    match it with
    | INil => []
    | ICell o => c_str o
    | IString s => s
    | IRune r => utf8_of_rune r
    | IObj id =>
        let o := e id in
        match m_string o with Some s => s | None =>
        match m_gostring o with Some g => g | None =>
        match m_error o with Some x => x | None => fmt_v o end end end
    end.

  (* Update never panics and never fails *)
  Lemma update_r_ok e c : exists c', update_r W e c = Ok c'.
  Proof.
    unfold update_r.
    destruct (c_raw c) as [| s | r | o | id]; try (eexists; reflexivity).
    all: match goal with |- context [as_widther ?e ?x] => destruct (as_widther e x) end;
      try (eexists; reflexivity).
    all: match goal with |- context [is_nil ?x] => destruct (is_nil x) end; try (eexists; reflexivity).
    all: rewrite longest_line_with_max; cbn [bind]; eexists; reflexivity.
  Qed.

  Lemma update_r_update e c : update_r W e c = Ok (update W e c).
  Proof. unfold update. destruct (update_r_ok e c) as [c' H]. rewrite H. reflexivity. Qed.

  Lemma update_r_no_panic e c : update_r W e c <> Panic.
  Proof. rewrite update_r_update. discriminate. Qed.

  (* Update overwrites every derived field: the result is a function of the
     stored item alone *)
  Lemma update_r_raw_only e c : update_r W e c = new_cell_r W e (c_raw c).
  Proof.
    unfold new_cell_r, update_r. cbn [c_raw c_str c_width c_height].
    destruct (c_raw c) as [| s | r | o | id]; try reflexivity.
    all: match goal with |- context [as_widther ?e ?x] => destruct (as_widther e x) end; try reflexivity.
    all: match goal with |- context [is_nil ?x] => destruct (is_nil x) end; reflexivity.
  Qed.

  Lemma update_raw_only e c : update W e c = new_cell W e (c_raw c).
  Proof.
    unfold new_cell. unfold update at 1 2. rewrite (update_r_raw_only e c).
    rewrite (update_r_raw_only e (mkCell (c_raw c) [] 0 0 false)). cbn [c_raw].
    destruct (update_r_ok e (mkCell (c_raw c) [] 0 0 false)) as [c' H].
    unfold new_cell_r. rewrite H. reflexivity.
  Qed.

  Lemma new_cell_raw e it : c_raw (new_cell W e it) = it.
  Proof.
    unfold new_cell, update.
    destruct (update_r_ok e (mkCell it [] 0 0 false)) as [c' H]. rewrite H.
    revert H. unfold update_r. cbn [c_raw c_str c_width c_height].
    destruct it as [| s | r | o | id]; try (intros H; inversion H; reflexivity).
    all: match goal with |- context [as_widther ?e ?x] => destruct (as_widther e x) end;
      try (intros H; inversion H; reflexivity).
    all: match goal with |- context [is_nil ?x] => destruct (is_nil x) end; try (intros H; inversion H; reflexivity).
    all: rewrite longest_line_with_max; cbn [bind]; intros H; inversion H; reflexivity.
  Qed.

  Lemma new_cell_str e it : c_str (new_cell W e it) = switch_text e it.
  Proof.
    unfold new_cell, update.
    destruct (update_r_ok e (mkCell it [] 0 0 false)) as [c' H]. rewrite H.
    revert H. unfold update_r. cbn [c_raw c_str c_width c_height].
    destruct it as [| s | r | o | id]; try (intros H; inversion H; reflexivity).
    all: match goal with |- context [as_widther ?e ?x] => destruct (as_widther e x) end;
      try (intros H; inversion H; reflexivity).
    all: match goal with |- context [is_nil ?x] => destruct (is_nil x) end; try (intros H; inversion H; reflexivity).
    all: rewrite longest_line_with_max; cbn [bind]; intros H; inversion H; reflexivity.
  Qed.

  Lemma new_cell_empty e it :
    c_empty (new_cell W e it) = match it with
                                | INil => true
                                | ICell o => c_empty o
                                | _ => is_nil (switch_text e it)
                                end.
  Proof.
    unfold new_cell, update.
    destruct (update_r_ok e (mkCell it [] 0 0 false)) as [c' H]. rewrite H.
    revert H. unfold update_r. cbn [c_raw c_str c_width c_height].
    destruct it as [| s | r | o | id]; try (intros H; inversion H; reflexivity).
    all: match goal with |- context [as_widther ?e ?x] => destruct (as_widther e x) end;
      try (intros H; inversion H; reflexivity).
    all: match goal with |- context [is_nil ?x] => destruct (is_nil x) eqn:? end; try (intros H; inversion H; subst; cbn [c_empty switch_text]; congruence).
    all: rewrite longest_line_with_max; cbn [bind]; intros H; inversion H; subst; cbn [c_empty switch_text]; congruence.
  Qed.

  Lemma switch_text_documented e it : switch_text e it = documented_text e it.
  Proof.
    destruct it as [| s | r | o | id]; try reflexivity.
    all: unfold switch_text, documented_text, object_text.
    all: destruct (m_string (e id)), (m_gostring (e id)), (m_error (e id)); reflexivity.
  Qed.

  (* ---- C01 *)

  Lemma cell_text_documented e it : cell_text (new_cell W e it) = documented_text e it.
  Proof. unfold cell_text. rewrite new_cell_str. apply switch_text_documented. Qed.

  Lemma cell_item_same e it : cell_item (new_cell W e it) = it.
  Proof. apply new_cell_raw. Qed.

  Lemma new_cell_wf e it : item_wf it -> cell_wf (new_cell W e it).
  Proof.
    intros H. unfold cell_wf. rewrite new_cell_empty, new_cell_str.
    destruct it as [| s | r | o | id]; cbn [switch_text]; try apply is_nil_true.
    - split; reflexivity.
    - exact H.
  Qed.

  Lemma update_wf e c : item_wf (c_raw c) -> cell_wf (update W e c).
  Proof. rewrite update_raw_only. apply new_cell_wf. Qed.

  Lemma cell_empty_iff e it : item_wf it ->
    (cell_empty (new_cell W e it) = true <-> cell_text (new_cell W e it) = []).
  Proof. intros H. exact (new_cell_wf e it H). Qed.

  Lemma update_rereads e e' it :
    cell_text (new_cell W e it) = documented_text e it
    /\ cell_item (update W e' (new_cell W e it)) = it
    /\ cell_text (update W e' (new_cell W e it)) = documented_text e' it.
  Proof.
    rewrite !update_raw_only, !new_cell_raw. split; [|split].
    - apply cell_text_documented.
    - first [reflexivity | apply cell_item_same].
    - apply cell_text_documented.
  Qed.
End WithOracle.

(* cells obtainable from well-formed leaves by NewCell, Update and nesting *)
Inductive built_item : item -> Prop :=
| B_nil : built_item INil
| B_str s : built_item (IString s)
| B_rune r : built_item (IRune r)
| B_obj id : built_item (IObj id)
| B_new W e it : built_item it -> built_item (ICell (new_cell W e it))
| B_upd W e c : built_item (ICell c) -> built_item (ICell (update W e c)).

(* well-formedness all the way down *)
Fixpoint deep_wf (it : item) : Prop :=
  match it with
  | ICell (mkCell raw s _ _ e) => (e = true <-> s = []) /\ deep_wf raw
  | _ => True
  end.

Lemma deep_wf_cell c : deep_wf (ICell c) <-> cell_wf c /\ deep_wf (c_raw c).
Proof. destruct c. reflexivity. Qed.

Lemma deep_wf_item_wf it : deep_wf it -> item_wf it.
Proof. destruct it as [| | | c |]; cbn [item_wf]; try (intros; exact I). intros H. apply deep_wf_cell in H. apply H. Qed.

Lemma built_item_deep it : built_item it -> deep_wf it.
Proof.
  induction 1; try exact I.
  - apply deep_wf_cell. split.
    + apply new_cell_wf, deep_wf_item_wf. assumption.
    + rewrite new_cell_raw. assumption.
  - apply deep_wf_cell in IHbuilt_item as [_ Hr]. apply deep_wf_cell. split.
    + apply update_wf, deep_wf_item_wf, Hr.
    + rewrite update_raw_only, new_cell_raw. exact Hr.
Qed.

Lemma built_item_wf it : built_item it -> item_wf it.
Proof. intros H. apply deep_wf_item_wf, built_item_deep, H. Qed.

(* C01, emptiness, for every item obtainable by nesting *)
Lemma cell_empty_iff_built W e it : built_item it ->
  (cell_empty (new_cell W e it) = true <-> cell_text (new_cell W e it) = []).
Proof. intros H. apply cell_empty_iff, built_item_wf, H. Qed.

(* ------------------------------------------------------------ C18, cell clause *)
Section Metrics.
  Variable W : bytes -> nat.

  Lemma new_cell_nested e o :
    new_cell W e (ICell o) = mkCell (ICell o) (c_str o) (c_width o) (c_height o) (c_empty o).
  Proof. reflexivity. Qed.

  Lemma new_cell_nil e : new_cell W e INil = mkCell INil [] 0 0 true.
  Proof. reflexivity. Qed.

  (* an item with text and no size override *)
  Lemma new_cell_plain e it :
    match it with INil | ICell _ => False | _ => True end ->
    as_heighter e it = None -> as_widther e it = None ->
    new_cell W e it =
      let str := switch_text e it in
      if is_nil str then mkCell it str 0 0 true
      else mkCell it str (Z.of_nat (list_max (map W (lines_of str))))
                  (1 + Z.of_nat (count_lf str) - (if has_suffix_lf str then 1 else 0)) false.
  Proof.
    intros Hk Hh Hw. unfold new_cell, update, update_r. cbn [c_raw c_str c_width c_height].
    destruct it as [| s | r | o | id]; try contradiction.
    all: rewrite Hh, Hw; cbn [switch_text]; cbv zeta.
    all: match goal with |- context [is_nil ?x] => destruct (is_nil x) end; try reflexivity.
    all: rewrite longest_line_with_max; reflexivity.
  Qed.

  Lemma text_metrics s : s <> [] ->
    (1 + Z.of_nat (count_lf s) - (if has_suffix_lf s then 1 else 0))%Z = Zlen (lines_of s)
    /\ (1 <= Zlen (lines_of s))%Z.
  Proof.
    intros Hs. unfold Zlen. rewrite lines_of_length, <- count_lf_filter, has_suffix_lf_ends.
    destruct s as [|b r]; [congruence|]. cbn [is_nil orb].
    destruct (ends_with_lf (b :: r)) eqn:E.
    - apply ends_with_lf_count in E. lia.
    - lia.
  Qed.

  Lemma plain_metric_ok e it :
    match it with INil | ICell _ => False | _ => True end ->
    as_heighter e it = None -> as_widther e it = None ->
    cell_metric_ok W (new_cell W e it).
  Proof.
    intros Hk Hh Hw. rewrite (new_cell_plain e it Hk Hh Hw). cbv zeta.
    destruct (switch_text e it) as [|b r] eqn:E.
    - cbn. split; reflexivity.
    - cbn [is_nil]. unfold cell_metric_ok, cell_height, cell_width, cell_text.
      cbn [c_str c_width c_height].
      destruct (text_metrics (b :: r) ltac:(discriminate)) as [H1 H2].
      rewrite H1.
      destruct (Z.ltb_spec (Z.of_nat (list_max (map W (lines_of (b :: r))))) 0); [lia|].
      destruct (Z.ltb_spec (Zlen (lines_of (b :: r))) 1); [lia|].
      split; reflexivity.
  Qed.

  (* C18, clause 5 *)
  Lemma new_cell_metric_ok e it : no_override W e it -> cell_metric_ok W (new_cell W e it).
  Proof.
    intros H. destruct it as [| s | r | o | id].
    - rewrite new_cell_nil. cbn. split; reflexivity.
    - apply plain_metric_ok; [exact I | reflexivity | reflexivity].
    - apply plain_metric_ok; [exact I | reflexivity | reflexivity].
    - rewrite new_cell_nested. exact H.
    - destruct H as [Hh Hw]. apply plain_metric_ok; [exact I | exact Hh | exact Hw].
  Qed.

  Lemma update_metric_ok e c : no_override W e (c_raw c) -> cell_metric_ok W (update W e c).
  Proof. rewrite update_raw_only. apply new_cell_metric_ok. Qed.

  (* C18, corollary: the line array the layout pass allocates (max of Height()
     and len(Lines())) has exactly as many entries as there are lines, and that
     number is Height() *)
  Lemma layout_emit_agree e it : no_override W e it ->
    let c := new_cell W e it in
    cell_lines c = Ok (lines_of (cell_text c))
    /\ layout_nlines c = Ok (Zlen (lines_of (cell_text c)))
    /\ cell_height c = Zlen (lines_of (cell_text c)).
  Proof.
    intros H c. destruct (new_cell_metric_ok e it H) as [Hh _]. fold c in Hh.
    unfold layout_nlines, cell_lines. rewrite lines_lines_of. cbn [bind].
    split; [reflexivity|]. split; [|exact Hh].
    rewrite Hh. rewrite Z.ltb_irrefl. reflexivity.
  Qed.
End Metrics.

(* ------------------------------------------------------------ runes *)

(* "a rune is that character": the text of a rune item decodes to exactly
   that code point (U+FFFD when the value is not a Unicode scalar value) *)
Lemma rune_text_is_char W e r :
  decode_runes (cell_text (new_cell W e (IRune r))) = [if valid_rune r then r else RuneError]
  /\ cell_empty (new_cell W e (IRune r)) = false.
Proof.
  split.
  - rewrite cell_text_documented. cbn [documented_text]. apply decode_utf8_of_rune.
  - unfold cell_empty. rewrite new_cell_empty. cbn [switch_text].
    pose proof (utf8_of_rune_nonempty r). destruct (utf8_of_rune r); [congruence | reflexivity].
Qed.

(* statements gathered for Props/ *)
Lemma lines_lossless_full s :
  s = join [LF] (lines_of s) ++ (if ends_with_lf s then [LF] else [])
  /\ Forall (fun l => ~ In LF l) (lines_of s).
Proof. split; [exact (lines_lossless s) | exact (lines_no_lf s)]. Qed.

Lemma longest_three seg rw s :
  longest_line_bytes s = Ok (list_max (map string_bytes (lines_of s)))
  /\ longest_line_runes s = Ok (list_max (map string_runes (lines_of s)))
  /\ longest_line_cells seg rw s = Ok (list_max (map (string_cells seg rw) (lines_of s))).
Proof. repeat split; apply longest_line_with_max. Qed.

(* ------------------------------------------------------------ the renderers' view of a cell
   (Model/View.v's vcell derived from an item): for other properties to reuse *)
Lemma vcell_of_item_text W e j it : vc_text (vcell_of_item W e j it) = documented_text e it.
Proof. unfold vcell_of_item. cbn [vc_text]. apply cell_text_documented. Qed.

Lemma vcell_of_item_empty W e j it : item_wf it ->
  (vc_empty (vcell_of_item W e j it) = true <-> vc_text (vcell_of_item W e j it) = []).
Proof. intros H. unfold vcell_of_item. cbn [vc_text vc_empty]. apply cell_empty_iff, H. Qed.

Lemma vcell_of_item_dims W e j it : no_override W e it ->
  vc_h (vcell_of_item W e j it) = Zlen (lines_of (vc_text (vcell_of_item W e j it)))
  /\ vc_tw (vcell_of_item W e j it) = Z.of_nat (list_max (map W (lines_of (vc_text (vcell_of_item W e j it))))).
Proof. intros H. unfold vcell_of_item. cbn [vc_text vc_h vc_tw]. apply (new_cell_metric_ok W e it H). Qed.

Lemma vcell_of_item_nonneg W e j it :
  (0 <= vc_tw (vcell_of_item W e j it))%Z /\ (0 <= vc_h (vcell_of_item W e j it))%Z.
Proof.
  unfold vcell_of_item. cbn [vc_h vc_tw]. unfold cell_height, cell_width.
  set (c := new_cell W e it).
  destruct (Z.ltb_spec (c_width c) 0); destruct (Z.ltb_spec (c_height c) 1);
    repeat match goal with |- context [Z.ltb ?a ?b] => destruct (Z.ltb_spec a b) end; lia.
Qed.
