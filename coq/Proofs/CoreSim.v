(* The model refines the history spec: forgetting the cached numbers and the
   column bookkeeping of a model state gives the spec state, operation by
   operation.  Then the C02 theorems. *)
From Tab Require Import Base.Ops Model.Core Spec.History Proofs.CoreInv.

Section Sim.
Context {A : Type}.
Notation state := (state A).
Notation cell := (cell A).

Definition erase_handle (h : handle A) : shandle A :=
  match h with Detached cs => SDet (map c_item cs) | Attached i => SAtt i end.

Record Sim (sp : spstate A) (st : state) : Prop := mkSim {
  sim_rows    : sp_rows sp = map row_items (t_rows st);
  sim_header  : sp_header sp = option_map (map c_item) (t_header st);
  sim_handles : sp_handles sp = map (fun p => (fst p, erase_handle (snd p))) (t_handles st)
}.

Lemma resize_rows (st : state) n : t_rows (resize_columns_at_least st n) = t_rows st.
Proof. unfold resize_columns_at_least. destruct (n <=? t_ncols st), (S n <? t_cols st); reflexivity. Qed.
Lemma resize_header (st : state) n : t_header (resize_columns_at_least st n) = t_header st.
Proof. unfold resize_columns_at_least. destruct (n <=? t_ncols st), (S n <? t_cols st); reflexivity. Qed.
Lemma resize_handles (st : state) n : t_handles (resize_columns_at_least st n) = t_handles st.
Proof. unfold resize_columns_at_least. destruct (n <=? t_ncols st), (S n <? t_cols st); reflexivity. Qed.

Lemma sim_assoc sp st r : Sim sp st -> assoc r (sp_handles sp) = option_map erase_handle (assoc r (t_handles st)).
Proof. intros []. rewrite sim_handles0. apply assoc_map. Qed.

Lemma sim_bind sp st r h : Sim sp st -> Sim (sp_bind sp r (erase_handle h)) (bind_handle st r h).
Proof.
  intros []. constructor; cbn [sp_bind bind_handle sp_rows sp_header sp_handles t_rows t_header t_handles map fst snd]; congruence.
Qed.

Lemma sim_add_row_cells sp st cs : Sim sp st -> Sim (sp_attach sp (Some (map c_item cs))) (add_row_cells st cs).
Proof.
  intros []. unfold add_row_cells.
  constructor; rewrite ?resize_rows, ?resize_header, ?resize_handles;
    cbn [sp_attach with_rows sp_rows sp_header sp_handles t_rows t_header t_handles]; try assumption.
  rewrite map_app, sim_rows0. reflexivity.
Qed.

Lemma sim_add_separator sp st : Sim sp st -> Sim (sp_attach sp None) (add_separator st).
Proof.
  intros []. unfold add_separator.
  constructor; cbn [sp_attach with_rows sp_rows sp_header sp_handles t_rows t_header t_handles]; try assumption.
  rewrite map_app, sim_rows0. reflexivity.
Qed.

Lemma sim_row_add_attached sp st i x : Sim sp st -> Sim (sp_add_at sp i x) (row_add_attached st i x).
Proof.
  intros H. pose proof H as [Hr Hh Hn]. unfold sp_add_at, row_add_attached.
  rewrite Hr, nth_error_map.
  destruct (nth_error (t_rows st) i) as [tr|] eqn:E; cbn [option_map]; [|exact H].
  unfold row_items, row_cells. destruct (r_body tr) as [|cs] eqn:Eb; cbn [option_map]; [exact H|].
  cbv zeta. destruct (r_here tr);
  constructor; rewrite ?resize_rows, ?resize_header, ?resize_handles;
    cbn [with_rows sp_rows sp_header sp_handles t_rows t_header t_handles]; try assumption.
  all: rewrite map_upd; f_equal; unfold row_items, row_cells; cbn [r_body option_map];
    unfold row_add_cell; rewrite map_app; reflexivity.
Qed.

Lemma upd_same {B} (l : list B) i x : nth_error l i = Some x -> upd l i x = l.
Proof.
  revert i; induction l as [|y l IH]; intros [|i]; cbn [nth_error upd]; try discriminate.
  - intros H; inversion H; reflexivity.
  - intros H. f_equal. apply IH, H.
Qed.

(* another table taking a row changes nothing the spec's rows, header or
   handles speak of *)
Lemma sim_taken sp st i k : Sim sp st -> Sim (sp_taken sp i k) (taken_by_other st i k).
Proof.
  intros H. pose proof H as [Hr Hh Hn]. unfold sp_taken, taken_by_other.
  rewrite Hr, nth_error_map.
  destruct (nth_error (t_rows st) i) as [tr|] eqn:E; cbn [option_map]; [|exact H].
  constructor; cbn [with_rows sp_rows sp_header sp_handles t_rows t_header t_handles]; try assumption.
  rewrite map_upd. change (row_items (mkTRow k false (r_body tr))) with (row_items tr).
  rewrite upd_same; [reflexivity|]. rewrite nth_error_map, E. reflexivity.
Qed.

Lemma sim_step sp st o : Sim sp st -> Sim (sp_step sp o) (step st o).
Proof.
  intros H. destruct o; cbn [step sp_step].
  - apply (sim_bind sp st r (Detached [])), H.
  - apply (sim_bind sp st r (Detached [])), H.
  - unfold append_new_row. replace (length (sp_rows sp)) with (length (t_rows st))
      by (rewrite (sim_rows _ _ H), map_length; reflexivity).
    apply (sim_bind _ _ r (Attached _)). apply (sim_add_row_cells sp st []), H.
  - destruct ref as [r|i]; cbn [row_add]; [|apply sim_row_add_attached, H].
    rewrite (sim_assoc sp st r H).
    destruct (assoc r (t_handles st)) as [[cs|i]|]; cbn [option_map erase_handle].
    + replace (map c_item cs ++ [x]) with (map c_item (row_add_cell cs x))
        by (unfold row_add_cell; rewrite map_app; reflexivity).
      apply (sim_bind _ _ r (Detached _)), H.
    + apply sim_row_add_attached, H.
    + exact H.
  - unfold add_row. rewrite (sim_assoc sp st r H).
    destruct (assoc r (t_handles st)) as [[cs|i]|]; cbn [option_map erase_handle]; try exact H.
    replace (length (sp_rows sp)) with (length (t_rows st))
      by (rewrite (sim_rows _ _ H), map_length; reflexivity).
    apply (sim_bind _ _ r (Attached _)). apply sim_add_row_cells, H.
  - unfold add_row_items. replace xs with (map c_item (fold_left row_add_cell xs ([] : list cell))) at 1
      by (rewrite fold_add_items; reflexivity).
    apply sim_add_row_cells, H.
  - apply sim_add_separator, H.
  - destruct H. unfold add_headers.
    constructor; cbn [with_header sp_rows sp_header sp_handles t_rows t_header t_handles];
      rewrite ?resize_rows, ?resize_header, ?resize_handles; try assumption.
    cbn [option_map]. rewrite fold_add_items. reflexivity.
  - exact H.
  - destruct ref as [r|i]; cbn [other_add_row]; [|apply sim_taken, H].
    rewrite (sim_assoc sp st r H).
    destruct (assoc r (t_handles st)) as [[cs|i]|]; cbn [option_map erase_handle]; try exact H.
    apply sim_taken, H.
Qed.

Theorem run_sim : forall h : list (op A), Sim (spec_run h) (run h).
Proof.
  induction h as [|o h IH] using rev_ind.
  - constructor; reflexivity.
  - rewrite run_snoc, spec_run_snoc. apply sim_step, IH.
Qed.

Lemma hsizes_run : forall h : list (op A), sp_hsizes (spec_run h) = header_sizes h.
Proof.
  induction h as [|o h IH] using rev_ind; [reflexivity|].
  rewrite spec_run_snoc, header_sizes_app, <- IH.
  destruct o; cbn [sp_step header_sizes flat_map app]; rewrite ?app_nil_r; try reflexivity.
  - destruct ref as [r|i]; [destruct (assoc r (sp_handles (spec_run h))) as [[xs|i]|]|];
      cbn [sp_bind sp_hsizes]; try reflexivity;
      unfold sp_add_at; destruct (nth_error _ _) as [[?|]|]; reflexivity.
  - destruct (assoc r (sp_handles (spec_run h))) as [[xs|i]|]; reflexivity.
  - destruct ref as [r|i]; [destruct (assoc r (sp_handles (spec_run h))) as [[xs|i]|]|]; try reflexivity;
      unfold sp_taken; destruct (nth_error _ _); reflexivity.
Qed.

(* within wf_hist no row of the table is ever taken by another table *)
Lemma sp_else_plain (sp : spstate A) o :
  match o with OtherAddRow _ _ => True | _ => sp_else (sp_step sp o) = sp_else sp end.
Proof.
  destruct o; cbn [sp_step]; try exact I; try reflexivity; unfold sp_add_at;
    repeat (match goal with |- context [match ?x with _ => _ end] => destruct x end); reflexivity.
Qed.

Lemma taken_wf (sp : spstate A) (st : state) o : Sim sp st -> op_wf sp o = true ->
  step_plain st o /\ sp_else (sp_step sp o) = sp_else sp.
Proof.
  intros S W. pose proof (sp_else_plain sp o) as Q.
  destruct o; cbn [step_plain]; try (split; [exact I | exact Q]).
  destruct ref as [r|i]; cbn [op_wf] in W; [|discriminate]. cbn [other_add_row sp_step].
  rewrite (sim_assoc sp st r S) in W |- *.
  destruct (assoc r (t_handles st)) as [[cs|i]|]; cbn [option_map erase_handle] in W |- *; try discriminate.
  split; reflexivity.
Qed.

Theorem run_wf : forall h : list (op A), wf_hist h ->
  Inv (header_sizes h) (run h) /\ sp_else (spec_run h) = [].
Proof.
  intros h W. induction W as [|h o W [IH1 IH2] Hwf]; [split; [exact inv_init | reflexivity]|].
  destruct (taken_wf _ _ o (run_sim h) Hwf) as [P E].
  rewrite run_snoc, spec_run_snoc, header_sizes_app. split; [apply inv_step; assumption | congruence].
Qed.

Definition run_inv (h : list (op A)) (W : wf_hist h) : Inv (header_sizes h) (run h) := proj1 (run_wf h W).

(* ------------------------------------------------------------------ C02 *)

(* row list = attach order *)
Theorem core_order : forall h : list (op A), map row_items (all_rows (run h)) = attach_order h.
Proof. intros h. symmetry. exact (sim_rows _ _ (run_sim h)). Qed.

(* row count = number of attaching calls *)
Theorem core_nrows : forall h : list (op A), wf_hist h -> nrows (run h) = count_attaches h.
Proof.
  intros h W. induction W as [|h o W IH Hwf]; [reflexivity|].
  rewrite run_snoc. unfold count_attaches. rewrite filter_app, app_length. fold (count_attaches h).
  rewrite <- IH. unfold nrows.
  pose proof (run_sim h) as S.
  destruct o; cbn [step is_attach filter length op_wf] in *; rewrite ?Nat.add_0_r; try reflexivity.
  - unfold append_new_row, add_row_cells. cbn [bind_handle t_rows]. rewrite resize_rows. cbn [with_rows t_rows].
    rewrite app_length. reflexivity.
  - unfold row_add. assert (E : forall i, length (t_rows (row_add_attached (run h) i x)) = length (t_rows (run h))).
    { intros i. unfold row_add_attached. destruct (nth_error _ _) as [tr|]; [|reflexivity].
      destruct (r_body tr); [reflexivity|]. cbv zeta. destruct (r_here tr); rewrite ?resize_rows; cbn [with_rows t_rows]; apply upd_length. }
    destruct ref as [r|i]; [|apply E]. destruct (assoc r (t_handles (run h))) as [[cs|i]|]; [reflexivity | apply E | reflexivity].
  - rewrite (sim_assoc _ _ r S) in Hwf. unfold add_row.
    destruct (assoc r (t_handles (run h))) as [[cs|i]|]; cbn [option_map erase_handle] in Hwf; try discriminate.
    unfold add_row_cells. cbn [bind_handle t_rows]. rewrite resize_rows. cbn [with_rows t_rows].
    rewrite app_length. reflexivity.
  - unfold add_row_items, add_row_cells. rewrite resize_rows. cbn [with_rows t_rows]. rewrite app_length. reflexivity.
  - unfold add_separator. cbn [with_rows t_rows]. rewrite app_length. reflexivity.
  - unfold add_headers. cbn [with_header t_rows]. rewrite resize_rows. reflexivity.
  - destruct (taken_wf _ _ (OtherAddRow ref k) S Hwf) as [P _]. cbn [step_plain] in P. rewrite P. reflexivity.
Qed.

(* column count = the largest header the table has had or current row size *)
Theorem core_ncols : forall h : list (op A), wf_hist h ->
  ncols (run h) = list_max (header_sizes h ++ map row_size (all_rows (run h))).
Proof. intros h W. exact (inv_ncols _ _ (run_inv h W)). Qed.

(* ... and the same number read off the spec state *)
Lemma sizes_erase (rows : list (trow A)) : map srow_size (map row_items rows) = map row_size rows.
Proof.
  rewrite map_map. apply map_ext. intros tr. unfold row_items, row_cells, row_size.
  destruct (r_body tr); cbn [option_map srow_size body_size]; [reflexivity | apply map_length].
Qed.

Theorem core_ncols_spec : forall h : list (op A), wf_hist h -> ncols (run h) = e_ncols (spec_run h).
Proof.
  intros h W. rewrite (core_ncols h W). unfold e_ncols.
  rewrite (proj2 (run_wf h W)), counted_nil, hsizes_run, (sim_rows _ _ (run_sim h)), sizes_erase. reflexivity.
Qed.

(* the full invariant, in the terms of DESIGN section 6 *)
Theorem core_inv : forall h : list (op A), wf_hist h ->
  let st := run h in
  map row_items (t_rows st) = attach_order h
  /\ length (t_rows st) = count_attaches h
  /\ t_ncols st = list_max (header_sizes h ++ map row_size (t_rows st))
  /\ t_cols st = S (t_ncols st)
  /\ (forall i tr, nth_error (t_rows st) i = Some tr ->
        r_num tr = S i
        /\ forall cs j c, row_cells tr = Some cs -> nth_error cs j = Some c -> c_col c = S j)
  /\ (forall cs j c, t_header st = Some cs -> nth_error cs j = Some c -> c_col c = S j)
  /\ t_panic st = false.
Proof.
  intros h W st. pose proof (run_inv h W) as I. fold st in I.
  split; [apply core_order|]. split; [apply (core_nrows h W)|].
  split; [apply (core_ncols h W)|]. split; [apply (inv_cols _ _ I)|].
  split; [|split; [|apply (inv_panic _ _ I)]].
  - intros i tr E. split; [apply (inv_rownum _ _ I), E|].
    intros cs j c Ec Ej. pose proof (inv_cellnum _ _ I) as F. rewrite Forall_forall in F.
    specialize (F tr (nth_error_In _ _ E)). unfold row_cells in Ec.
    destruct (r_body tr); [discriminate|]. inversion Ec; subst. exact (F j c Ej).
  - intros cs j c Eh Ej. pose proof (inv_header _ _ I) as F. rewrite Eh in F. exact (proj1 F j c Ej).
Qed.

(* a row reports its own 1-based position *)
Theorem core_row_location : forall (h : list (op A)) i tr, wf_hist h ->
  nth_error (all_rows (run h)) i = Some tr -> row_location tr = (S i, 0).
Proof.
  intros h i tr W E. unfold row_location. rewrite (inv_rownum _ _ (run_inv h W) i tr E). reflexivity.
Qed.

(* CellAt *)
Local Open Scope Z_scope.
Theorem core_cell_at : forall (h : list (op A)) (r c : Z),
  cell_at (run h) r c =
    (if (1 <=? r) && (1 <=? c) then
       match nth_error (all_rows (run h)) (Z.to_nat (r - 1)) with
       | Some tr => match row_cells tr with
                    | Some cs => match nth_error cs (Z.to_nat (c - 1)) with
                                 | Some x => Ok (r_num tr, x)
                                 | None => Err
                                 end
                    | None => Err                                  (* separator *)
                    end
       | None => Err
       end
     else Err)
  /\ (wf_hist h -> forall rn x, cell_at (run h) r c = Ok (rn, x) ->
        Z.of_nat (fst (cell_location (rn, x))) = r /\ Z.of_nat (snd (cell_location (rn, x))) = c).
Proof.
  intros h r c.
  assert (E : cell_at (run h) r c =
    (if (1 <=? r) && (1 <=? c) then
       match nth_error (all_rows (run h)) (Z.to_nat (r - 1)) with
       | Some tr => match row_cells tr with
                    | Some cs => match nth_error cs (Z.to_nat (c - 1)) with
                                 | Some x => Ok (r_num tr, x)
                                 | None => Err
                                 end
                    | None => Err
                    end
       | None => Err
       end
     else Err)).
  { unfold cell_at, all_rows.
    destruct (r <? 1) eqn:R1; [rewrite (proj2 (Z.leb_gt 1 r)) by (apply Z.ltb_lt; exact R1); reflexivity|].
    apply Z.ltb_ge in R1. rewrite (proj2 (Z.leb_le 1 r) R1).
    destruct (c <? 1) eqn:C1; [rewrite (proj2 (Z.leb_gt 1 c)) by (apply Z.ltb_lt; exact C1); reflexivity|].
    apply Z.ltb_ge in C1. rewrite (proj2 (Z.leb_le 1 c) C1). cbn [orb andb].
    destruct (Z.of_nat (length (t_rows (run h))) <? r) eqn:R2.
    - apply Z.ltb_lt in R2.
      rewrite (proj2 (nth_error_None (t_rows (run h)) (Z.to_nat (r - 1)))) by lia. reflexivity.
    - apply Z.ltb_ge in R2. unfold idx.
      destruct (nth_error (t_rows (run h)) (Z.to_nat (r - 1))) as [tr|] eqn:En.
      + cbn [bind]. unfold row_cells. destruct (r_body tr) as [|cs]; [reflexivity|].
        destruct (Z.of_nat (length cs) <? c) eqn:C2.
        * apply Z.ltb_lt in C2. rewrite (proj2 (nth_error_None cs (Z.to_nat (c - 1)))) by lia. reflexivity.
        * destruct (nth_error cs (Z.to_nat (c - 1))) as [x|] eqn:Ec; [reflexivity|].
          apply Z.ltb_ge in C2. apply nth_error_None in Ec. lia.
      + apply nth_error_None in En. lia. }
  split; [exact E|].
  intros W rn x Hx. rewrite E in Hx. clear E.
  destruct (1 <=? r) eqn:R1; [|discriminate]. destruct (1 <=? c) eqn:C1; [|discriminate].
  cbn [andb] in Hx. apply Z.leb_le in R1. apply Z.leb_le in C1.
  destruct (nth_error (all_rows (run h)) (Z.to_nat (r - 1))) as [tr|] eqn:En; [|discriminate].
  destruct (row_cells tr) as [cs|] eqn:Er; [|discriminate].
  destruct (nth_error cs (Z.to_nat (c - 1))) as [y|] eqn:Ec; [|discriminate].
  inversion Hx; subst. pose proof (run_inv h W) as I. cbn [cell_location fst snd].
  rewrite (inv_rownum _ _ I _ _ En).
  pose proof (inv_cellnum _ _ I) as F. rewrite Forall_forall in F.
  specialize (F tr (nth_error_In _ _ En)). unfold row_cells in Er.
  destruct (r_body tr); [discriminate|]. inversion Er; subst. rewrite (F _ _ Ec). lia.
Qed.

(* ... against the spec: the cell CellAt returns carries exactly the item the
   history puts at (r,c); no cell exactly when the history puts none there *)
Theorem core_cell_at_spec : forall (h : list (op A)) (r c : Z),
  match cell_at (run h) r c with
  | Ok (rn, x) => e_cell_at (spec_run h) r c = Some (c_item x)
  | Err => e_cell_at (spec_run h) r c = None
  | Panic => False
  end.
Proof.
  intros h r c. rewrite (proj1 (core_cell_at h r c)). unfold e_cell_at.
  rewrite (sim_rows _ _ (run_sim h)), nth_error_map. unfold all_rows.
  destruct ((1 <=? r) && (1 <=? c)); [|reflexivity].
  destruct (nth_error (t_rows (run h)) (Z.to_nat (r - 1))) as [tr|]; cbn [option_map]; [|reflexivity].
  unfold row_items. destruct (row_cells tr) as [cs|]; cbn [option_map]; [|reflexivity].
  rewrite nth_error_map. destruct (nth_error cs (Z.to_nat (c - 1))); reflexivity.
Qed.

(* Column handles exist exactly for 0..ncols; the lookup never panics *)
Theorem core_column : forall (h : list (op A)) (n : Z), wf_hist h ->
  column_exists (run h) n = Ok ((0 <=? n) && (n <=? Z.of_nat (ncols (run h)))).
Proof.
  intros h n W. unfold column_exists, ncols. pose proof (inv_cols _ _ (run_inv h W)) as C.
  destruct (n <? 0) eqn:N0.
  - apply Z.ltb_lt in N0. rewrite (proj2 (Z.leb_gt 0 n) N0). reflexivity.
  - apply Z.ltb_ge in N0. rewrite (proj2 (Z.leb_le 0 n) N0). cbn [orb andb].
    destruct (Z.of_nat (t_ncols (run h)) <? n) eqn:N1.
    + apply Z.ltb_lt in N1. rewrite (proj2 (Z.leb_gt n _) N1). reflexivity.
    + apply Z.ltb_ge in N1. rewrite (proj2 (Z.leb_le n _) N1).
      rewrite (proj2 (Nat.ltb_lt (Z.to_nat n) (t_cols (run h)))) by lia. reflexivity.
Qed.
Close Scope Z_scope.

(* the row list handed out is a copy: whatever the caller does to it, the
   table (rows, order, everything) is as before *)
Theorem core_all_rows_copy : forall h : list (op A), run (h ++ [MutateAllRowsCopy]) = run h.
Proof. intros h. rewrite run_snoc. reflexivity. Qed.

(* no building call panics *)
Theorem core_no_panic : forall h : list (op A), wf_hist h -> t_panic (run h) = false.
Proof. intros h W. exact (inv_panic _ _ (run_inv h W)). Qed.

(* what renderers see is well-formed (used by C09) *)
Theorem view_wf : forall (f : A -> vcell) (h : list (op A)), wf_hist h -> wf_view (view_of f (run h)).
Proof.
  intros f h W. pose proof (run_inv h W) as I. unfold wf_view, view_of.
  cbn [v_ncols v_rows v_header v_align v_skip]. rewrite !repeat_length.
  split; [|split; [|split; reflexivity]].
  - rewrite Forall_map, Forall_forall. intros tr Hin. unfold row_fits, row_cells.
    destruct (r_body tr) as [|cs] eqn:Eb; cbn [option_map]; [exact Logic.I|].
    rewrite map_length, (inv_ncols _ _ I). apply list_max_ge, in_or_app. right.
    unfold sizes. apply in_map_iff. exists tr. split; [|exact Hin]. unfold row_size. rewrite Eb. reflexivity.
  - unfold row_fits. pose proof (inv_header _ _ I) as Hh.
    destruct (t_header (run h)) as [cs|]; cbn [option_map]; [|exact Logic.I].
    rewrite map_length, (inv_ncols _ _ I). apply list_max_ge, in_or_app. left. exact (proj2 Hh).
Qed.

End Sim.
