(* Lemmas shared by the source ties of texttable/decoration (EmitSrcTie.v,
   WidthStrSrcTie.v): the prelude operations of Base/GoText.v / Base/GoLib.v
   against the operations the hand model Model/Text.v is written with.  Nothing
   here mentions a generated file. *)
From Tab Require Import Base.GoSem Base.GoText.
Local Open Scope Z_scope.

(* ---- res lifted into M *)
Definition lift_norm {L L' R} (r : res L) : M (ctl L L' R) :=
  match r with Ok l => ret (Norm l) | Err => fail_err | Panic => panic end.

Lemma mbind_lift {A B} (r : res A) (g : A -> M B) :
  mbind (lift r) g = match r with Ok a => g a | Err => fail_err | Panic => panic end.
Proof. unfold lift. destruct r; cbn; try reflexivity. destruct (g a); reflexivity. Qed.

Lemma lift_pure_done {A} (r : res A) : lift_pure (Done r) = lift r.
Proof. reflexivity. Qed.

Lemma index_of_nat {A} (l : list A) (k : nat) : index l (Z.of_nat k) = lift (idx l k).
Proof. unfold index. destruct (Z.of_nat k <? 0) eqn:E; [apply Z.ltb_lt in E; lia|]. rewrite Nat2Z.id. reflexivity. Qed.

(* ---- strings.Repeat / strings.Join / == "" *)
Lemma lib_Repeat_lift s n : lib_strings_Repeat s n = lift (repeat_z s n).
Proof.
  unfold lib_strings_Repeat, repeat_z, lift, panic, ret. destruct (n <? 0); [reflexivity|].
  rewrite lib_repeat_nat_rep. reflexivity.
Qed.

Lemma mbind_lift_repeat {B} s n (f : bytes -> M B) :
  mbind (lib_strings_Repeat s n) f = match repeat_z s n with Ok a => f a | Err => fail_err | Panic => panic end.
Proof. rewrite lib_Repeat_lift. apply mbind_lift. Qed.

Lemma bytes_eqb_nil (x : bytes) : bytes_eqb x (@nil N) = nilb x.
Proof. destruct x; reflexivity. Qed.

(* ---- fields[len(fields)-1] = v   and   fields[:len(fields)-1] *)
Lemma store_last {A} (l : list A) v : store l (Zlen l - 1) v = lift (set_last l v).
Proof.
  destruct l as [|x l'] using rev_ind.
  - reflexivity.
  - clear IHl'. rewrite (store_at (l' ++ [x]) _ v l' x []) by (try reflexivity; rewrite Zlen_app; unfold Zlen; cbn [length]; lia).
    unfold set_last, Text.upd. rewrite app_length. cbn [length].
    replace (length l' + 1 - 1)%nat with (length l') by lia.
    destruct (length l' <? length l' + 1)%nat eqn:E; [|apply Nat.ltb_ge in E; lia].
    rewrite firstn_app, Nat.sub_diag, firstn_all. cbn [firstn]. rewrite app_nil_r.
    replace (skipn (S (length l')) (l' ++ [x])) with (@nil A); [reflexivity|].
    rewrite skipn_all2; [reflexivity|]. rewrite app_length. cbn [length]. lia.
Qed.

Lemma slice_last {A} (l : list A) : l <> [] -> slice_to l (Zlen l - 1) = ret (firstn (length l - 1) l).
Proof.
  intros H. unfold slice_to. assert (0 < Zlen l) by (destruct l; [congruence|unfold Zlen; cbn [length]; lia]).
  destruct (Zlen l - 1 <? 0) eqn:E1; [apply Z.ltb_lt in E1; lia|].
  destruct (Zlen l <? Zlen l - 1) eqn:E2; [apply Z.ltb_lt in E2; lia|]. cbn [orb].
  unfold Zlen. replace (Z.to_nat (Z.of_nat (length l) - 1)) with (length l - 1)%nat by lia. reflexivity.
Qed.

(* ---- `for i := range xs` whose body turns the carried locals l into f i xs[i] l,
   possibly panicking: a monadic fold *)
Fixpoint mfoldi {A L} (f : nat -> A -> L -> res L) (k : nat) (xs : list A) (l : L) : res L :=
  match xs with
  | [] => Ok l
  | x :: r => bind (f k x l) (mfoldi f (S k) r)
  end.

Lemma range_idx_mfoldi {A L L' R} (xs : list A) (body : Z -> L -> M (ctl L L R)) (f : nat -> A -> L -> res L) :
  (forall k x l, nth_error xs k = Some x -> body (Z.of_nat k) l = lift_norm (f k x l)) ->
  forall l, range_loop (L':=L') (range_idx xs) body l = lift_norm (mfoldi f 0 xs l).
Proof.
  intros Hb. unfold range_idx.
  assert (G : forall rest pre l, xs = pre ++ rest ->
            range_loop (L':=L') (map Z.of_nat (seq (length pre) (length rest))) body l
            = lift_norm (mfoldi f (length pre) rest l)).
  { induction rest as [|x rest IH]; intros pre l E; cbn [length seq map range_loop mfoldi]; [reflexivity|].
    rewrite (Hb (length pre) x l) by (rewrite E, nth_error_app2 by lia; rewrite Nat.sub_diag; reflexivity).
    destruct (f (length pre) x l) as [l'| |]; cbn [lift_norm bind]; try reflexivity.
    rewrite mbind_ret_l. cbn [iter_k].
    specialize (IH (pre ++ [x]) l'). rewrite app_length in IH. cbn [length] in IH.
    rewrite Nat.add_1_r in IH. apply IH. rewrite <- app_assoc. exact E. }
  intros l. apply (G xs [] l). reflexivity.
Qed.

(* ---- WithinWidthAligned: the proof script, for whichever generated file
   defines src_WithinWidthAligned *)
Ltac rep_step :=
  rewrite mbind_lift_repeat; change [32%N] with [SP];
  match goal with |- context [match repeat_z ?s ?n with _ => _ end] => destruct (repeat_z s n) end;
  try reflexivity.

Ltac wwa_tie src :=
  intros ws available how;
  unfold src, within_width_aligned, pure_fn, fn_body;
  destruct (ws_w ws <? 0);
  [ rep_step
  | rewrite sbind_norm;
    set (pad0 := available - ws_w ws);
    destruct how as [|[| |]|]; cbn [al_is_nil]; rewrite sbind_norm; cbv zeta;
    (destruct (pad0 <? 0); rewrite sbind_norm; cbn [al_is align_eqb]; repeat rep_step);
    cbn; rewrite <- ?app_assoc; reflexivity ].
