(* The text renderer at zero columns (the header, if any, and every row have
   no cells): with a complete or NoBox decoration nothing panics - a content
   line is the right glyph alone (fields[len-1] = Right overwrites Left) or
   empty - and so, together with TextProps.no_panic_proof, the renderer never
   panics on any well-formed view, whatever its column count. *)
From Tab Require Import Model.Text Spec.TextLayout Proofs.TextBase Proofs.TextMeasure
     Proofs.TextRefine Proofs.TextTop Proofs.TextProps.

Local Open Scope nat_scope.

Definition no_cells (r : vrow) : Prop := r = None \/ r = Some [].

Lemma zero_rows v : wf_view v -> v_ncols v = 0 ->
  Forall no_cells (v_rows v) /\ no_cells (v_header v).
Proof.
  intros (Hfit & Hh & _) E. rewrite E in *. split.
  - eapply Forall_impl; [|exact Hfit]. intros [cs|] H; [right | left; reflexivity].
    simpl in H. destruct cs; [reflexivity | simpl in H; lia].
  - destruct (v_header v) as [cs|]; [right | left; reflexivity].
    simpl in Hh. destruct cs; [reflexivity | simpl in Hh; lia].
Qed.

Lemma zero_no_cells W v : wf_view v -> v_ncols v = 0 -> cells_ok W v.
Proof.
  intros Hwf E. destruct (zero_rows v Hwf E) as [Hrows Hhdr].
  unfold cells_ok, all_cells, all_rows.
  assert (Eb : concat (body_rows v) = []).
  { unfold body_rows. induction Hrows as [|r rows Hr _ IH]; [reflexivity|].
    destruct Hr as [-> | ->]; cbn [flat_map app concat]; exact IH. }
  rewrite concat_app, Eb, app_nil_r. destruct Hhdr as [-> | ->]; constructor.
Qed.

Section Zero.
  Variable W : bytes -> nat.
  Variable d : decoration.
  Hypothesis Hd : dec_ok d.

  Lemma zero_template l h c r : exists x, common_template_line d [] l h c r = Ok x.
  Proof. unfold common_template_line. destruct (d_boxless d); cbn; eauto. Qed.

  (* whatever cells the row holds: none of them is in a column *)
  Lemma zero_block dv cells : div3_ok dv -> exists x, rendered_block dv [] [] 0 cells = Ok x.
  Proof.
    unfold rendered_block, row_to_lines. rewrite Nat.min_0_r. cbn [firstn map fold_left seq Nat.sub repeat app].
    destruct dv as [[l i] r]. intros [(Hl & Hi & Hr) | (-> & -> & ->)].
    - destruct l; [congruence|]. destruct i; [congruence|]. destruct r; [congruence|].
      cbn. eauto.
    - cbn. eauto.
  Qed.

  Lemma zero_row_widths cs : row_widths 0 0 cs [] = Ok [].
  Proof. destruct cs; reflexivity. Qed.

  Lemma zero_body_widths rows : body_widths 0 rows [] = Ok [].
  Proof.
    induction rows as [|r rows IH]; [reflexivity|].
    destruct r as [cs|]; cbn [body_widths]; [rewrite zero_row_widths; cbn [bind]|]; exact IH.
  Qed.

  Lemma zero_body_writes rows : exists ws, body_writes d [] [] 0 rows = Ok ws.
  Proof.
    induction rows as [|r rows IH]; [cbn; eauto|].
    destruct IH as (ws & E). destruct r as [cs|]; cbn [body_writes].
    - destruct (zero_block (body_dividers d) cs) as (x & ->); [apply (dec_ok_div d Hd)|].
      cbn [bind]. rewrite E. cbn. eauto.
    - unfold line_separator. destruct (zero_template (d_LeftBodyRule d) (d_HRule d) (d_CrossPiece d) (d_RightBodyRule d)) as (x & ->).
      cbn [bind]. rewrite E. cbn. eauto.
  Qed.

  Lemma zero_ok v :
    length (v_align v) = S (v_ncols v) -> cells_ok W v -> v_ncols v = 0 ->
    exists out, text_render W d v = Ok out.
  Proof.
    intros Hal Hc E.
    unfold text_render, text_render_writes.
    rewrite (dec_ok_not_empty d Hd).
    assert (Eh : measure_opt W (v_header v) = Ok (mrow_of W (v_header v))).
    { apply measure_opt_ok. destruct (v_header v) as [h|] eqn:Eh; [|exact I].
      simpl. eapply cells_ok_header; eauto. }
    rewrite Eh. cbn [bind].
    assert (Er : mapM (measure_opt W) (v_rows v) = Ok (map (mrow_of W) (v_rows v))).
    { apply mapM_ok_map. intros r Hr. apply measure_opt_ok.
      pose proof (cells_ok_rows W v Hc) as X. rewrite Forall_forall in X. auto. }
    rewrite Er. cbn [bind].
    rewrite E. cbn [repeat].
    assert (Ecw : match mrow_of W (v_header v) with Some hs => header_widths [] hs | None => [] end = []).
    { destruct (mrow_of W (v_header v)) as [[|? ?]|]; reflexivity. }
    rewrite Ecw, zero_body_widths. cbn [bind].
    rewrite (column_aligns_ok v Hal), E. cbn [seq map bind].
    destruct (zero_body_writes (map (mrow_of W) (v_rows v))) as (ws & Eb). rewrite Eb.
    unfold line_bottom.
    destruct (zero_template (d_BottomLeft d) (d_HOuter d) (d_BBottomUp d) (d_BottomRight d)) as (xb & ->).
    destruct (mrow_of W (v_header v)) as [hs|].
    - unfold line_header_top, line_header_body_sep.
      destruct (zero_template (d_TopLeft d) (d_HOuter d) (d_HTopDown d) (d_TopRight d)) as (xt & ->).
      destruct (zero_template (d_HBLeft d) (d_HOuter d) (d_HBCross d) (d_HBRight d)) as (xs & ->).
      destruct (zero_block (header_dividers d) hs) as (xh & ->); [apply (dec_ok_div d Hd)|].
      cbn. eauto.
    - unfold line_body_top.
      destruct (zero_template (d_TopLeft d) (d_HOuter d) (d_BTopDown d) (d_TopRight d)) as (xt & ->).
      cbn. eauto.
  Qed.
End Zero.

(* Any column count, and rows / headers of any length (cells beyond the
   column count are measured but neither widen a column nor are laid out):
   the text renderer does not panic.  Needed of the view: one alignment slot
   per column plus column 0; of the cells: the sizes Cell reports (>= 0). *)
Theorem text_no_panic_any_rows : forall W d v,
  length (v_align v) = S (v_ncols v) -> dec_ok d -> cells_ok W v -> text_render W d v <> Panic.
Proof.
  intros W d v Hal Hd Hc. destruct (v_ncols v) as [|n] eqn:E.
  - destruct (zero_ok W d Hd v) as (out & ->); try assumption; [rewrite E; exact Hal | discriminate].
  - rewrite (text_refines_any_rows W d v); try assumption; [discriminate | lia | rewrite E; exact Hal].
Qed.

(* zero columns: no cell, so no hypothesis about cells *)
Theorem text_no_panic_zero : forall W d v,
  wf_view v -> dec_ok d -> v_ncols v = 0 -> text_render W d v <> Panic.
Proof.
  intros W d v Hwf Hd E. apply text_no_panic_any_rows; [apply Hwf | exact Hd | apply zero_no_cells; assumption].
Qed.

(* any column count *)
Theorem text_no_panic_all : forall W d v,
  wf_view v -> dec_ok d -> cells_ok W v -> text_render W d v <> Panic.
Proof.
  intros W d v Hwf Hd Hc. apply text_no_panic_any_rows; [apply Hwf | exact Hd | exact Hc].
Qed.
