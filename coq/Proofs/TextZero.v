(* The text renderer at zero columns (the header, if any, and every row have
   no cells): with a complete or NoBox decoration nothing panics - a content
   line is the right glyph alone (fields[len-1] = Right overwrites Left) or
   empty - and so, together with TextProps.no_panic_proof, the renderer never
   panics on any well-formed view, whatever its column count. *)
From Tab Require Import Model.Text Spec.TextLayout Proofs.TextBase Proofs.TextMeasure
     Proofs.TextRefine Proofs.TextTop Proofs.TextProps.

Local Open Scope nat_scope.

Definition no_cells (r : vrow) : Prop := r = None \/ r = Some [].

Lemma zero_rows v : wf_view v -> v_ncols v = 0 ->
  Forall no_cells (v_rows v) /\ no_cells (v_header v).
Proof.
  intros (Hfit & Hh & _) E. rewrite E in *. split.
  - eapply Forall_impl; [|exact Hfit]. intros [cs|] H; [right | left; reflexivity].
    simpl in H. destruct cs; [reflexivity | simpl in H; lia].
  - destruct (v_header v) as [cs|]; [right | left; reflexivity].
    simpl in Hh. destruct cs; [reflexivity | simpl in Hh; lia].
Qed.

Section Zero.
  Variable W : bytes -> nat.
  Variable d : decoration.
  Hypothesis Hd : dec_ok d.

  Lemma zero_template l h c r : exists x, common_template_line d [] l h c r = Ok x.
  Proof. unfold common_template_line. destruct (d_boxless d); cbn; eauto. Qed.

  Lemma zero_block dv : div3_ok dv -> exists x, rendered_block dv [] [] 0 [] = Ok x.
  Proof.
    destruct dv as [[l i] r]. intros [(Hl & Hi & Hr) | (-> & -> & ->)].
    - destruct l; [congruence|]. destruct i; [congruence|]. destruct r; [congruence|].
      cbn. eauto.
    - cbn. eauto.
  Qed.

  Lemma zero_measure_rows rows :
    Forall no_cells rows -> mapM (measure_opt W) rows = Ok (map (mrow_of W) rows).
  Proof.
    intros H. apply mapM_ok_map. intros r Hr. apply measure_opt_ok.
    rewrite Forall_forall in H. destruct (H r Hr) as [-> | ->]; simpl; constructor.
  Qed.

  Lemma zero_body_widths rows :
    Forall no_cells rows -> body_widths 0 (map (mrow_of W) rows) [] = Ok [].
  Proof.
    induction rows as [|r rows IH]; intros H; [reflexivity|].
    inversion H as [|? ? H1 H2]; subst. destruct H1 as [-> | ->]; cbn; auto.
  Qed.

  Lemma zero_body_writes rows :
    Forall no_cells rows -> exists ws, body_writes d [] [] 0 (map (mrow_of W) rows) = Ok ws.
  Proof.
    induction rows as [|r rows IH]; intros H; [cbn; eauto|].
    inversion H as [|? ? H1 H2]; subst. destruct (IH H2) as (ws & E).
    destruct H1 as [-> | ->]; cbn [map mrow_of option_map body_writes].
    - unfold line_separator. destruct (zero_template (d_LeftBodyRule d) (d_HRule d) (d_CrossPiece d) (d_RightBodyRule d)) as (x & ->).
      cbn [bind]. rewrite E. cbn. eauto.
    - cbn [map]. destruct (zero_block (body_dividers d)) as (x & ->); [apply (dec_ok_div d Hd)|].
      cbn [bind]. rewrite E. cbn. eauto.
  Qed.

  Lemma zero_ok v : wf_view v -> v_ncols v = 0 -> exists out, text_render W d v = Ok out.
  Proof.
    intros Hwf E. destruct (zero_rows v Hwf E) as [Hrows Hhdr].
    destruct Hwf as (_ & _ & Hal & _).
    unfold text_render, text_render_writes.
    rewrite (dec_ok_not_empty d Hd).
    assert (Eh : measure_opt W (v_header v) = Ok (mrow_of W (v_header v))).
    { apply measure_opt_ok. destruct Hhdr as [-> | ->]; simpl; constructor. }
    rewrite Eh. cbn [bind]. rewrite (zero_measure_rows _ Hrows). cbn [bind].
    rewrite E. cbn [repeat].
    assert (Ecw : match mrow_of W (v_header v) with Some hs => header_widths [] hs | None => [] end = []).
    { destruct (mrow_of W (v_header v)) as [[|? ?]|]; reflexivity. }
    rewrite Ecw, (zero_body_widths _ Hrows). cbn [bind].
    rewrite (column_aligns_ok v Hal), E. cbn [seq map bind].
    destruct (zero_body_writes _ Hrows) as (ws & Eb). rewrite Eb.
    unfold line_bottom.
    destruct (zero_template (d_BottomLeft d) (d_HOuter d) (d_BBottomUp d) (d_BottomRight d)) as (xb & ->).
    destruct Hhdr as [-> | ->]; cbn [mrow_of option_map map].
    - unfold line_body_top.
      destruct (zero_template (d_TopLeft d) (d_HOuter d) (d_BTopDown d) (d_TopRight d)) as (xt & ->).
      cbn. eauto.
    - unfold line_header_top, line_header_body_sep.
      destruct (zero_template (d_TopLeft d) (d_HOuter d) (d_HTopDown d) (d_TopRight d)) as (xt & ->).
      destruct (zero_template (d_HBLeft d) (d_HOuter d) (d_HBCross d) (d_HBRight d)) as (xs & ->).
      destruct (zero_block (header_dividers d)) as (xh & ->); [apply (dec_ok_div d Hd)|].
      cbn. eauto.
  Qed.
End Zero.

(* zero columns: no cell, so no hypothesis about cells *)
Theorem text_no_panic_zero : forall W d v,
  wf_view v -> dec_ok d -> v_ncols v = 0 -> text_render W d v <> Panic.
Proof.
  intros W d v Hwf Hd E. destruct (zero_ok W d Hd v Hwf E) as (out & ->). discriminate.
Qed.

(* any column count *)
Theorem text_no_panic_all : forall W d v,
  wf_view v -> dec_ok d -> cells_ok W v -> text_render W d v <> Panic.
Proof.
  intros W d v Hwf Hd Hc. destruct (v_ncols v) as [|n] eqn:E.
  - apply text_no_panic_zero; assumption.
  - apply no_panic_proof; try assumption. lia.
Qed.
