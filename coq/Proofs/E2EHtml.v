(* End to end, HTML (C06): the skeleton / decoding theorem for every table a
   history can build; "the supplied strings" are the documented texts of the
   items. *)
From Tab Require Import Model.Cell Model.Table Spec.TableHist Spec.CellText Proofs.TableProofs Proofs.E2EProofs.
From Tab Require Import Model.Html Spec.HtmlTok Proofs.HtmlProofs.

(* the supplied strings of a render of history h *)
Definition hist_html_spec (e : env) id cls cap have rcs (h : list top) : html_spec_in :=
  mkSpecIn id cls cap have rcs
           (match hist_header h with Some xs => map (documented_text e) xs | None => [] end)
           (map (option_map (map (documented_text e))) (hist_rows h)).

Lemma spec_of_hview W e json id cls cap have rcs h : twf_hist h ->
  spec_of (mkHtmlIn id cls cap have rcs (hview W e json h)) = hist_html_spec e id cls cap have rcs h.
Proof.
  intros Hw. unfold spec_of, hist_html_spec. cbn [h_id h_class h_caption h_have_rc h_rcs h_view]. f_equal.
  - unfold header_texts. rewrite (hview_header W e json h Hw).
    destruct (hist_header h); cbn [option_map]; [apply texts_of_items | reflexivity].
  - rewrite (hview_rows W e json h Hw), map_map. apply map_ext. intros [xs|]; cbn [option_map]; [|reflexivity].
    f_equal. apply texts_of_items.
Qed.

Theorem html_history : forall W e json id cls cap have rcs (h : list top),
  twf_hist h ->
  let x := mkHtmlIn id cls cap have rcs (hview W e json h) in
  rc_fit x -> spec_nul_free (hist_html_spec e id cls cap have rcs h) ->
  exists out, html_render x = Ok out /\ tokenize out = Some (skeleton (hist_html_spec e id cls cap have rcs h)).
Proof.
  intros W e json id cls cap have rcs h Hw x Hfit Hnul.
  rewrite <- (spec_of_hview W e json id cls cap have rcs h Hw) in Hnul |- *.
  apply html_tokens; assumption.
Qed.

Theorem html_history_calls : forall W e json id cls cap have rcs (h : list top),
  twf_hist h ->
  let x := mkHtmlIn id cls cap have rcs (hview W e json h) in
  rc_fit x -> html_rc_calls x = Ok (expected_calls (hist_html_spec e id cls cap have rcs h)).
Proof.
  intros W e json id cls cap have rcs h Hw x Hfit.
  rewrite <- (spec_of_hview W e json id cls cap have rcs h Hw). apply html_calls. exact Hfit.
Qed.
