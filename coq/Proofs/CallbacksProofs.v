(* C13 proofs, part 3: whole histories, the render pass, liveness. *)
From Tab Require Export Proofs.CallbacksSim.

(* ---- the table only grows *)
Definition srow_le (a b : srow) : Prop :=
  match sr_cells a with
  | Some n => exists n', sr_cells b = Some n' /\ n <= n'
  | None => sr_cells b = None
  end /\ (sr_attached a = true -> sr_attached b = true).

Definition rows_le (l l' : list srow) : Prop :=
  forall r a, nth_error l r = Some a -> exists b, nth_error l' r = Some b /\ srow_le a b.

Lemma srow_le_refl a : srow_le a a.
Proof. unfold srow_le. destruct (sr_cells a); eauto. Qed.

Lemma rows_le_refl l : rows_le l l.
Proof. intros r a H. exists a. split; [exact H | apply srow_le_refl]. Qed.

Lemma rows_le_app l x : rows_le l (l ++ [x]).
Proof.
  intros r a H. exists a. split; [|apply srow_le_refl].
  rewrite nth_error_app1; [exact H | eapply nth_error_lt; eauto].
Qed.

Lemma rows_le_set_nth l r a b : nth_error l r = Some a -> srow_le a b -> rows_le l (set_nth l r b).
Proof.
  intros Hr Hab r' a' H. destruct (Nat.eq_dec r r') as [->|Hne].
  - exists b. split; [apply nth_error_set_nth_eq; eapply nth_error_lt; eauto|]. congruence.
  - exists a'. split; [rewrite nth_error_set_nth_neq by exact Hne; exact H | apply srow_le_refl].
Qed.

Lemma shape_step_mono sh o :
  rows_le (sh_rows sh) (sh_rows (shape_step sh o)) /\ sh_ncols sh <= sh_ncols (shape_step sh o).
Proof.
  destruct o as [|r|r| |n| |n|ow tm g cb|r']; cbn [shape_step];
    try (split; [apply rows_le_app || apply rows_le_refl | simpl; lia]).
  - destruct (nth_error (sh_rows sh) r) as [[[n|] att]|] eqn:E; try (split; [apply rows_le_refl | lia]).
    split.
    + cbn [sh_rows]. eapply rows_le_set_nth; [exact E|]. unfold srow_le. simpl. split; [exists (S n); split; [reflexivity | lia] | auto].
    + cbn [sh_ncols]. destruct att; lia.
  - destruct (nth_error (sh_rows sh) r) as [sr|] eqn:E; try (split; [apply rows_le_refl | lia]).
    split.
    + cbn [sh_rows]. eapply rows_le_set_nth; [exact E|]. unfold srow_le. simpl. split; [|auto].
      destruct (sr_cells sr); eauto.
    + cbn [sh_ncols]. lia.
Qed.

Lemma owner_exists_mono sh sh' o :
  rows_le (sh_rows sh) (sh_rows sh') -> sh_ncols sh <= sh_ncols sh' ->
  owner_exists sh o = true -> owner_exists sh' o = true.
Proof.
  intros HR HN H. destruct o as [|n|r|r c]; simpl in *.
  - reflexivity.
  - apply Nat.leb_le in H. apply Nat.leb_le. lia.
  - apply Nat.ltb_lt in H. apply Nat.ltb_lt.
    destruct (nth_error (sh_rows sh) r) as [a|] eqn:E; [|apply nth_error_None in E; lia].
    destruct (HR r a E) as [b [Hb _]]. eapply nth_error_lt; eauto.
  - destruct (nth_error (sh_rows sh) r) as [[[n|] att]|] eqn:E; try discriminate.
    destruct (HR r _ E) as [b [Hb [[n' [Hc Hle]] _]]]. simpl in *.
    rewrite Hb. destruct b as [bc ba]. simpl in Hc. subst bc.
    apply andb_true_iff in H as [H1 H2]. apply andb_true_iff. split; [exact H1|].
    apply Nat.leb_le in H2. apply Nat.leb_le. lia.
Qed.

Lemma regs_bounded_step sh regs o :
  regs_bounded sh regs -> op_wf sh o = true -> regs_bounded (shape_step sh o) (regs_step regs o).
Proof.
  intros H W. destruct (shape_step_mono sh o) as [HR HN].
  assert (H' : regs_bounded (shape_step sh o) regs).
  { unfold regs_bounded in *. eapply Forall_impl; [|exact H]. intros rg. apply owner_exists_mono; assumption. }
  destruct o; try exact H'.
  cbn [regs_step]. destruct (accepts (kind o) g); [|exact H'].
  apply Forall_app. split; [exact H'|]. constructor; [|constructor]. exact W.
Qed.

(* ---- rows that are in the table exist, are marked so, and fit the column count *)
Definition shape_ok (sh : shape) : Prop :=
  (forall r sr, nth_error (sh_rows sh) r = Some sr -> sr_attached sr = true -> cells_n sr <= sh_ncols sh)
  /\ (forall r, In r (sh_order sh) -> exists sr, nth_error (sh_rows sh) r = Some sr /\ sr_attached sr = true)
  /\ (forall h, sh_header sh = Some h -> exists sr, nth_error (sh_rows sh) h = Some sr /\ sr_attached sr = true).

Lemma shape_ok0 : shape_ok shape0.
Proof.
  split; [|split].
  - intros r sr H. destruct r; discriminate.
  - intros r [].
  - discriminate.
Qed.

Lemma attached_mono l l' r : rows_le l l' ->
  (exists sr, nth_error l r = Some sr /\ sr_attached sr = true) ->
  exists sr, nth_error l' r = Some sr /\ sr_attached sr = true.
Proof. intros H [sr [Hr Ha]]. destruct (H r sr Hr) as [b [Hb [_ Hat]]]. eauto. Qed.

Lemma shape_ok_step sh o : shape_ok sh -> shape_ok (shape_step sh o).
Proof.
  intros [Ha [Hb Hc]]. destruct (shape_step_mono sh o) as [HR HN].
  assert (Hlast : forall x, nth_error (sh_rows sh ++ [x]) (length (sh_rows sh)) = Some x) by (intros; apply nth_error_app_last).
  split; [|split].
  - (* cells fit *)
    destruct o as [|r|r| |n| |n|ow tm g cb|r']; cbn [shape_step]; try exact Ha;
      try (cbn [sh_rows sh_ncols]; intros r' sr Hr Hat;
           apply nth_error_snoc_inv in Hr as [[_ Hr]|[_ ->]];
           [pose proof (Ha r' sr Hr Hat); lia | unfold cells_n; simpl in *; try discriminate; lia]).
    + destruct (nth_error (sh_rows sh) r) as [[[n|] att]|] eqn:E; try exact Ha.
      cbn [sh_rows sh_ncols]. intros r' sr Hr Hat. destruct (Nat.eq_dec r r') as [->|Hne].
      * rewrite nth_error_set_nth_eq in Hr by (eapply nth_error_lt; eauto). inversion Hr; subst.
        simpl in *. subst att. unfold cells_n. simpl. lia.
      * rewrite nth_error_set_nth_neq in Hr by exact Hne. pose proof (Ha r' sr Hr Hat). destruct att; lia.
    + destruct (nth_error (sh_rows sh) r) as [sr0|] eqn:E; try exact Ha.
      cbn [sh_rows sh_ncols]. intros r' sr Hr Hat. destruct (Nat.eq_dec r r') as [->|Hne].
      * rewrite nth_error_set_nth_eq in Hr by (eapply nth_error_lt; eauto). inversion Hr; subst.
        unfold cells_n. simpl. fold (cells_n sr0). lia.
      * rewrite nth_error_set_nth_neq in Hr by exact Hne. pose proof (Ha r' sr Hr Hat). lia.
  - (* order *)
    assert (Hold : forall r, In r (sh_order sh) -> exists sr, nth_error (sh_rows (shape_step sh o)) r = Some sr /\ sr_attached sr = true).
    { intros r Hr. eapply attached_mono; [exact HR | apply Hb; exact Hr]. }
    destruct o as [|r|r| |n| |n|ow tm g cb|r']; cbn [shape_step] in *; try exact Hold;
      try (cbn [sh_order sh_rows] in *; intros r' Hin; apply in_app_or in Hin as [Hin|[<-|[]]];
           [apply Hold; exact Hin | eexists; split; [apply Hlast | reflexivity]]).
    + destruct (nth_error (sh_rows sh) r) as [[[n|] att]|] eqn:E; exact Hold.
    + destruct (nth_error (sh_rows sh) r) as [sr0|] eqn:E; [|exact Hold].
      cbn [sh_order sh_rows] in *. intros r' Hin. apply in_app_or in Hin as [Hin|[<-|[]]].
      * apply Hold. exact Hin.
      * eexists. split; [apply nth_error_set_nth_eq; eapply nth_error_lt; eauto | reflexivity].
  - (* header *)
    assert (Hold : forall h, sh_header sh = Some h -> exists sr, nth_error (sh_rows (shape_step sh o)) h = Some sr /\ sr_attached sr = true).
    { intros h Hh. eapply attached_mono; [exact HR | apply Hc; exact Hh]. }
    destruct o as [|r|r| |n| |n|ow tm g cb|r']; cbn [shape_step] in *; try exact Hold.
    + destruct (nth_error (sh_rows sh) r) as [[[n|] att]|] eqn:E; exact Hold.
    + destruct (nth_error (sh_rows sh) r) as [sr0|] eqn:E; exact Hold.
    + cbn [sh_header sh_rows]. intros h Hh. inversion Hh; subst. eexists. split; [apply Hlast | reflexivity].
Qed.

(* ---- whole build histories *)
Lemma apply_events_app a b ps : apply_events (a ++ b) ps = apply_events b (apply_events a ps).
Proof. unfold apply_events. apply fold_left_app. Qed.

Lemma run_sim h : forall st sh regs log errs,
  Inv st sh regs -> regs_bounded sh regs -> shape_ok sh -> wf_from sh h = true ->
  exists st',
    run_from st log errs h = Ok (st', log ++ spec_add_from sh regs h, errs ++ flat_map regerr_step h)
    /\ Inv st' (final_shape sh h) (final_regs regs h)
    /\ regs_bounded (final_shape sh h) (final_regs regs h)
    /\ shape_ok (final_shape sh h)
    /\ st_props st' = apply_events (spec_add_from sh regs h) (st_props st).
Proof.
  induction h as [|o h IH]; intros st sh regs log errs I RB SO W.
  - exists st. simpl. rewrite !app_nil_r. auto.
  - cbn [wf_from] in W. apply andb_true_iff in W as [W1 W2].
    destruct (step_sim st sh regs o I RB W1) as [st1 [E [I1 P1]]].
    destruct (IH st1 (shape_step sh o) (regs_step regs o) (log ++ add_step sh regs o) (errs ++ regerr_step o)
                 I1 (regs_bounded_step _ _ _ RB W1) (shape_ok_step _ o SO) W2) as [st' [E' [I' [RB' [SO' P']]]]].
    exists st'. cbn [run_from]. rewrite E. cbn [bind fst snd]. rewrite E'.
    cbn [spec_add_from flat_map final_shape final_regs fold_left]. rewrite <- !app_assoc.
    split; [reflexivity|]. split; [exact I'|]. split; [exact RB'|]. split; [exact SO'|].
    rewrite apply_events_app, <- P1. exact P'.
Qed.

(* ---- the render pass *)
Lemma cols_invoke_eq st tm n : forall from,
  cols_invoke st tm from n = flat_map (fun k => invoke st (SlColSelf k) tm (XCol k)) (seq from n).
Proof. induction n as [|n IH]; intros from; simpl; [reflexivity | rewrite IH; reflexivity]. Qed.

Lemma cell_events_spec st regs r c : sets_ok (st_sets st) regs -> cell_events st r c = spec_cell regs r c.
Proof. intros D. unfold cell_events, spec_cell. to_fire D. reflexivity. Qed.

Lemma row_render_sim st sh regs r :
  Inv st sh regs -> shape_ok sh ->
  (exists sr, nth_error (sh_rows sh) r = Some sr /\ sr_attached sr = true) ->
  row_render st r = Ok (spec_row regs sh r).
Proof.
  intros I [Ha _] [sr [Hs Hat]]. pose proof I as [A B C D].
  pose proof (Ha r sr Hs Hat) as Hfit.
  rewrite <- A in Hs. apply abs_row_inv in Hs as [row [Hr ->]].
  unfold row_render. rewrite (idx_Some _ _ _ Hr). cbn [bind].
  assert (Hcells : cells_of row = cells_std r (cells_n (row_shape row))).
  { unfold cells_of, cells_n, row_shape. simpl. destruct (rw_cells row) as [cells|] eqn:Hc; simpl.
    - apply (C r row cells Hr Hc).
    - reflexivity. }
  rewrite Hcells. unfold cells_std.
  rewrite (render_cells_ok st r row _ 0 Hr Hat); [| subst sh; simpl in *; lia | exact B].
  cbn [bind]. unfold spec_row. rewrite <- A. rewrite (abs_row st r row Hr).
  to_fire D. rewrite (flat_map_ext' _ (spec_cell regs r)); [reflexivity|].
  intros c. apply cell_events_spec. exact D.
Qed.

Lemma rows_render_sim st sh regs l :
  Inv st sh regs -> shape_ok sh ->
  (forall r, In r l -> exists sr, nth_error (sh_rows sh) r = Some sr /\ sr_attached sr = true) ->
  rows_render st l = Ok (flat_map (spec_row regs sh) l).
Proof.
  intros I SO. induction l as [|r l IH]; intros H; [reflexivity|].
  cbn [rows_render flat_map]. rewrite (row_render_sim st sh regs r I SO) by (apply H; left; reflexivity).
  cbn [bind]. rewrite IH by (intros r' Hr'; apply H; right; exact Hr'). reflexivity.
Qed.

Lemma render_sim st sh regs :
  Inv st sh regs -> shape_ok sh -> invoke_render_callbacks st = Ok (spec_trace regs sh).
Proof.
  intros I SO. pose proof I as [A B C D]. pose proof SO as [_ [Hb Hc]].
  unfold invoke_render_callbacks, spec_trace.
  assert (Hh : st_header st = sh_header sh) by (subst sh; reflexivity).
  assert (Ho : st_order st = sh_order sh) by (subst sh; reflexivity).
  assert (Hn : st_ncols st = sh_ncols sh) by (subst sh; reflexivity).
  assert (Ehdr : match st_header st with Some h => row_render st h | None => Ok [] end
                 = Ok (match sh_header sh with Some h => spec_row regs sh h | None => [] end)).
  { rewrite Hh. destruct (sh_header sh) as [h|] eqn:E; [|reflexivity].
    apply (row_render_sim st sh regs h I SO). apply Hc. reflexivity. }
  rewrite Ehdr. cbn [bind].
  rewrite Ho, (rows_render_sim st sh regs (sh_order sh) I SO Hb). cbn [bind].
  rewrite !cols_invoke_eq, B, Hn. unfold spec_cols.
  to_fire D.
  rewrite !(flat_map_ext' (fun k => invoke st (SlColSelf k) _ (XCol k)) (fun n => fire regs (OColumn n) GItself _ (XCol n)))
    by (intros k; to_fire D; reflexivity).
  reflexivity.
Qed.

Lemma render_passes_sim sh regs k : forall st,
  Inv st sh regs -> shape_ok sh ->
  exists st', render_passes st k = Ok (st', repeat_app (spec_trace regs sh) k)
              /\ Inv st' sh regs
              /\ st_props st' = apply_events (repeat_app (spec_trace regs sh) k) (st_props st).
Proof.
  induction k as [|k IH]; intros st I SO.
  - exists st. auto.
  - cbn [render_passes]. unfold render_pass. rewrite (render_sim st sh regs I SO). cbn [bind with_effects fst snd].
    set (st1 := set_props st _).
    destruct (IH st1 (Inv_set_props _ _ _ _ I) SO) as [st' [E [I' P']]].
    exists st'. rewrite E. cbn [bind fst snd repeat_app]. split; [reflexivity|]. split; [exact I'|].
    rewrite apply_events_app. exact P'.
Qed.

(* ---- the whole run *)
Theorem run_spec h k :
  wf_hist h = true ->
  exists oc, run h k = Ok oc
             /\ oc_regerr oc = spec_regerr h
             /\ oc_add oc = spec_add h
             /\ oc_render oc = spec_render h k
             /\ oc_props oc = apply_events (spec_add h ++ spec_render h k) [].
Proof.
  intros W. unfold run, run_build.
  destruct (run_sim h init shape0 [] [] [] Inv_init (Forall_nil _) shape_ok0 W) as [st [E [I [_ [SO P]]]]].
  rewrite E. cbn [bind fst snd].
  destruct (render_passes_sim _ _ k st I SO) as [st' [E' [_ P']]].
  rewrite E'. cbn [bind fst snd]. eexists. split; [reflexivity|].
  cbn [oc_regerr oc_add oc_render oc_props]. split; [reflexivity|]. split; [reflexivity|]. split; [reflexivity|].
  rewrite apply_events_app. rewrite P', P. reflexivity.
Qed.

(* ---- liveness: what a callback set on its target is readable afterwards *)
Lemma get_set_prop_same x k ps : get_prop (set_prop x k ps) x k = true.
Proof. unfold get_prop, set_prop. simpl. unfold prop_is. simpl. rewrite Nat.eqb_refl.
  replace (tgt_eqb x x) with true by (symmetry; apply tgt_eqb_eq; reflexivity). reflexivity. Qed.

Lemma get_set_prop_keeps x k y j ps : get_prop ps x k = true -> get_prop (set_prop y j ps) x k = true.
Proof.
  unfold get_prop, set_prop. intros H. simpl.
  destruct (prop_is x k (y, j)) eqn:E; [reflexivity|]. simpl.
  apply existsb_exists in H as [p [Hin Hp]]. apply existsb_exists. exists p. split; [|exact Hp].
  apply filter_In. split; [exact Hin|].
  destruct (prop_is y j p) eqn:E2; [|reflexivity]. exfalso.
  unfold prop_is in *. simpl in E.
  apply andb_true_iff in Hp as [H1 H2]. apply andb_true_iff in E2 as [H3 H4].
  apply tgt_eqb_eq in H1, H3. apply Nat.eqb_eq in H2, H4. subst.
  rewrite Nat.eqb_refl in E. replace (tgt_eqb (fst p) (fst p)) with true in E by (symmetry; apply tgt_eqb_eq; reflexivity).
  discriminate.
Qed.

Lemma apply_events_keeps evs : forall ps x k, get_prop ps x k = true -> get_prop (apply_events evs ps) x k = true.
Proof.
  induction evs as [|e evs IH]; intros ps x k H; [exact H|].
  unfold apply_events in *. simpl. apply IH. apply get_set_prop_keeps. exact H.
Qed.

Lemma apply_events_live evs : forall ps cb x, In (cb, x) evs -> get_prop (apply_events evs ps) x cb = true.
Proof.
  induction evs as [|e evs IH]; intros ps cb x H; [contradiction|].
  destruct H as [->|H].
  - unfold apply_events. simpl. apply (apply_events_keeps evs). apply get_set_prop_same.
  - unfold apply_events in *. simpl. apply IH. exact H.
Qed.

Theorem live h k :
  wf_hist h = true ->
  exists oc, run h k = Ok oc /\
    forall cb x, In (cb, x) (oc_add oc ++ oc_render oc) -> get_prop (oc_props oc) x cb = true.
Proof.
  intros W. destruct (run_spec h k W) as [oc [E [_ [Ea [Er Ep]]]]].
  exists oc. split; [exact E|]. intros cb x H. rewrite Ep, <- Ea, <- Er. apply apply_events_live. exact H.
Qed.
