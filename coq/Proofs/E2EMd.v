(* End to end, Markdown (C08): structure and neutralisation with the view
   hypothesis discharged for every table a history can build; the cell texts
   the output must decode to are the documented texts of the items. *)
From Tab Require Import Model.Cell Model.Table Spec.TableHist Spec.CellText Proofs.TableProofs Proofs.E2EProofs.
From Tab Require Import Model.Markdown Spec.MdSplit Proofs.MarkdownProofs.

Theorem md_history : forall (W : bytes -> nat) (e : env) (json : item -> option bytes) (h : list top),
  twf_hist h ->
  let v := hview W e json h in
  match md_render W v with
  | Ok out => md_ok v out
  | Err => hist_header h = None \/ hist_ncols h = 0
  | Panic => False
  end.
Proof.
  intros W e json h Hw v. pose proof (md_structure W v (hview_wf W e json h Hw)) as H.
  destruct (md_render W v); [exact H | | exact H].
  unfold v in H. rewrite (hview_header W e json h Hw), (hview_ncols W e json h Hw) in H.
  destruct H as [H|H]; [left | right; exact H]. destruct (hist_header h); [discriminate | reflexivity].
Qed.

(* what md_ok compares the decoded cells with *)
Theorem md_history_texts : forall W e json (h : list top), twf_hist h ->
  header_texts (hview W e json h) = match hist_header h with Some xs => map (documented_text e) xs | None => [] end
  /\ body_texts (hview W e json h)
     = map (map (documented_text e)) (flat_map (fun r => match r with Some xs => [xs] | None => [] end) (hist_rows h)).
Proof.
  intros W e json h Hw. split.
  - unfold header_texts. rewrite (hview_header W e json h Hw).
    destruct (hist_header h); cbn [option_map]; [apply texts_of_items | reflexivity].
  - unfold body_texts, body_rows. rewrite (hview_rows W e json h Hw).
    induction (hist_rows h) as [|[xs|] rows IH]; cbn [map flat_map option_map app]; [reflexivity | | exact IH].
    rewrite IH. f_equal. apply texts_of_items.
Qed.


Theorem md_history_alignment : forall W e json (h : list top) i,
  twf_hist h -> i < hist_ncols h ->
  spec_eff_align (v_align (hview W e json h)) i
  = match hist_align h (S i) with Some a => Some a | None => hist_align h 0 end.
Proof.
  intros W e json h i Hw Hi. unfold spec_eff_align.
  rewrite (hview_align_nth W e json h (S i) Hw) by lia. rewrite (hview_align_nth W e json h 0 Hw) by lia.
  destruct (hist_align h (S i)); reflexivity.
Qed.
