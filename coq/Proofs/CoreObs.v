(* Everything a dump shows is what the history spec expects: the model's
   observation record equals the spec's, field by field, after every history;
   hence the oracle of the correspondence check accepts the model on ALL
   histories (the statement DESIGN section 2 asks of every property). *)
From Tab Require Import Base.Ops Model.Core Spec.History Proofs.CoreInv Proofs.CoreSim.

Lemma number_cells_from (rn : nat) : forall (cs : list (cell N)) k,
  (forall j c, nth_error cs j = Some c -> c_col c = k + j) ->
  map (ocell_of rn) cs =
  map (fun p => (Z.of_nat rn, Z.of_nat (fst p), snd p)) (combine (seq k (length (map c_item cs))) (map c_item cs)).
Proof.
  induction cs as [|c cs IH]; intros k H; [reflexivity|].
  cbn [map length seq combine fst snd]. f_equal.
  - unfold ocell_of. rewrite (H 0 c eq_refl). rewrite Nat.add_0_r. reflexivity.
  - apply IH. intros j c' Hj. rewrite (H (S j) c' Hj). lia.
Qed.

Lemma numbered_cells (rn : nat) (cs : list (cell N)) : numbered cs ->
  map (ocell_of rn) cs = number_cells (Z.of_nat rn) (map c_item cs).
Proof. intros H. unfold number_cells. apply number_cells_from. intros j c Hj. rewrite (H j c Hj). reflexivity. Qed.

Definition orow_model (tr : trow N) : orow :=
  mkORow (is_separator tr)
         (match row_cells tr with None => true | Some _ => false end)
         (Z.of_nat (fst (row_location tr)), Z.of_nat (snd (row_location tr)))
         (match row_cells tr with None => [] | Some cs => map (ocell_of (r_num tr)) cs end).

Definition orow_spec (p : nat * option (list N)) : orow :=
  let i := Z.of_nat (fst p) in
  match snd p with
  | None => mkORow true true (i, 0%Z) []
  | Some xs => mkORow false false (i, 0%Z) (number_cells i xs)
  end.

Lemma orows_from : forall (rows : list (trow N)) k,
  (forall i tr, nth_error rows i = Some tr -> r_num tr = k + i) ->
  Forall (fun tr => body_numbered (r_body tr)) rows ->
  map orow_model rows = map orow_spec (combine (seq k (length (map row_items rows))) (map row_items rows)).
Proof.
  induction rows as [|tr rows IH]; intros k H F; [reflexivity|].
  cbn [map length seq combine]. inversion F as [|? ? F1 F2]; subst. f_equal.
  - unfold orow_model, orow_spec, is_separator, row_items, row_cells, row_location. cbn [fst snd].
    rewrite (H 0 tr eq_refl), Nat.add_0_r.
    destruct (r_body tr) as [|cs]; cbn [option_map]; [reflexivity|].
    rewrite (numbered_cells k cs F1). reflexivity.
  - apply IH; [|exact F2]. intros i tr' Hi. rewrite (H (S i) tr' Hi). lia.
Qed.

Lemma wf_snoc_inv {A} (h : list (op A)) o : wf_hist (h ++ [o]) -> wf_hist h.
Proof.
  intros W. inversion W as [E|h' o' W' _ E].
  - destruct h; discriminate.
  - apply app_inj_tail in E as [-> _]. exact W'.
Qed.

Lemma wf_prefix {A} (h2 h1 : list (op A)) : wf_hist (h1 ++ h2) -> wf_hist h1.
Proof.
  induction h2 as [|o h2 IH] using rev_ind; intros W.
  - rewrite app_nil_r in W. exact W.
  - rewrite app_assoc in W. apply IH, (wf_snoc_inv _ o), W.
Qed.

Theorem observe_expected : forall h : list (op N), wf_hist h -> observe (run h) = expected (spec_run h).
Proof.
  intros h W. pose proof (run_inv h W) as I. pose proof (run_sim h) as S.
  pose proof (proj2 (run_wf h W)) as Ee.
  assert (En : nrows (run h) = e_nrows (spec_run h)).
  { unfold nrows, e_nrows. rewrite (sim_rows _ _ S), map_length. reflexivity. }
  assert (Ec : ncols (run h) = e_ncols (spec_run h)) by apply (core_ncols_spec h W).
  assert (Ew : Nat.max (ncols (run h)) (list_max (map row_size (all_rows (run h))))
             = Nat.max (e_ncols (spec_run h)) (list_max (map srow_size (sp_rows (spec_run h))))).
  { rewrite Ec, (sim_rows _ _ S), sizes_erase. reflexivity. }
  unfold observe, expected. cbv zeta. rewrite Ew, En, Ec, Ee. unfold e_row_num. cbn [assoc]. f_equal.
  - (* header *)
    unfold headers. rewrite (sim_header _ _ S). pose proof (inv_header _ _ I) as Hh.
    destruct (t_header (run h)) as [cs|]; cbn [option_map]; [|reflexivity].
    f_equal. apply (numbered_cells 0 cs), Hh.
  - (* rows *)
    unfold all_rows. rewrite (sim_rows _ _ S).
    change (map orow_model (t_rows (run h)) =
            map orow_spec (combine (seq 1 (length (map row_items (t_rows (run h))))) (map row_items (t_rows (run h))))).
    apply orows_from; [|apply (inv_cellnum _ _ I)].
    intros i tr Hi. rewrite (inv_rownum _ _ I i tr Hi). reflexivity.
  - (* CellAt over the box *)
    apply flat_map_ext. intros r. apply flat_map_ext. intros c.
    pose proof (core_cell_at_spec h r c) as Hs.
    pose proof (proj2 (core_cell_at h r c) W) as Hl.
    destruct (cell_at (run h) r c) as [[rn x]| |]; [|rewrite Hs; reflexivity|contradiction].
    rewrite Hs. destruct (Hl rn x eq_refl) as [L1 L2]. rewrite L1, L2.
    assert (1 <= r)%Z.
    { unfold e_cell_at in Hs. destruct (1 <=? r)%Z eqn:R1; [apply Z.leb_le, R1 | discriminate]. }
    rewrite Z2Nat.id by lia. reflexivity.
  - (* Column(n) *)
    apply map_ext. intros n. rewrite (core_column h n W). unfold e_column_exists. rewrite Ec. reflexivity.
Qed.

Lemma trace_from_run : forall (h2 h1 : list (op N)), wf_hist (h1 ++ h2) ->
  trace_from (run h1) h2 = spec_trace_from (spec_run h1) h2.
Proof.
  induction h2 as [|o h2 IH]; intros h1 W; [reflexivity|].
  cbn [trace_from spec_trace_from]. cbv zeta.
  replace (h1 ++ o :: h2) with ((h1 ++ [o]) ++ h2) in W by (rewrite <- app_assoc; reflexivity).
  rewrite <- run_snoc, <- spec_run_snoc, (observe_expected _ (wf_prefix h2 _ W)). f_equal. apply IH, W.
Qed.

(* the dump of the model after every op of a history is the expected dump *)
Theorem model_dump_expected : forall h : list (op N), wf_hist h -> model_dump h = spec_dump h.
Proof. intros h W. unfold model_dump, spec_dump. f_equal. apply (trace_from_run h [] W). Qed.

Theorem model_dump_last_expected : forall h : list (op N), wf_hist h -> model_dump_last h = spec_dump_last h.
Proof. intros h W. unfold model_dump_last, spec_dump_last. rewrite (observe_expected h W). reflexivity. Qed.
