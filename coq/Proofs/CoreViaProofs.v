From Tab Require Import Base.Ops Model.Core Model.CoreVia Spec.History Proofs.CoreInv Proofs.CoreSim Proofs.CoreObs.

Section ViaProofs.
Context {A : Type}.

Lemma vcore_vstep (v : tvalue A) o : vcore (vstep v o) = step (vcore v) o.
Proof. induction v as [st|k v IH]; cbn [vstep vcore]; [reflexivity | exact IH]. Qed.

Lemma vcore_vstep_at n (v : tvalue A) o : vcore (vstep_at n v o) = step (vcore v) o.
Proof.
  revert v; induction n as [|n IH]; intros v.
  - destruct v; cbn [vstep_at]; apply vcore_vstep.
  - destruct v as [st|k v]; cbn [vstep_at]; [apply vcore_vstep|]. cbn [vcore]. apply IH.
Qed.

Lemma vcore_wrap ks (v : tvalue A) : vcore (wrap ks v) = vcore v.
Proof. revert v; induction ks as [|k ks IH]; intros v; cbn [wrap]; [reflexivity|]. rewrite IH. reflexivity. Qed.

Lemma vcore_vrun (h : list (nat * op A)) (v : tvalue A) :
  vcore (vrun h v) = fold_left step (map snd h) (vcore v).
Proof.
  unfold vrun. revert v; induction h as [|p h IH]; intros v; cbn [fold_left map]; [reflexivity|].
  rewrite IH, vcore_vstep_at. reflexivity.
Qed.

(* whatever the stack of wrappers and whatever level each call is made on,
   the table is the core table after the same calls *)
Lemma via_refines ks (h : list (nat * op A)) : vcore (vrun h (vnew ks)) = run (map snd h).
Proof. unfold vnew, run. rewrite vcore_vrun, vcore_wrap. reflexivity. Qed.

Lemma cb_run_gen (h : list (op A * list bool)) st n :
  fold_left cb_step h (st, n) =
  (fold_left step (map fst h) st, n + count_errs (concat (map snd h))).
Proof.
  revert st n; induction h as [|p h IH]; intros st n; cbn [fold_left map concat].
  - unfold count_errs. cbn [filter length]. rewrite Nat.add_0_r. reflexivity.
  - unfold cb_step at 2. cbn [fst snd]. rewrite IH. f_equal.
    unfold count_errs. rewrite filter_app, app_length. lia.
Qed.

(* errors returned by add-time callbacks are recorded, every one of them, and
   leave no trace in the table *)
Lemma cb_refines (h : list (op A * list bool)) :
  cb_run h = (run (map fst h), count_errs (concat (map snd h))).
Proof. unfold cb_run, run. rewrite cb_run_gen. reflexivity. Qed.

End ViaProofs.

Lemma via_dump_last_expected ks (h : list (nat * op N)) :
  wf_hist (map snd h) -> enc_obs (observe (vcore (vrun h (vnew ks)))) = spec_dump_last (map snd h).
Proof. intros H. rewrite via_refines. exact (model_dump_last_expected _ H). Qed.

Lemma via_ncols {A} ks (h : list (nat * op A)) : wf_hist (map snd h) ->
  ncols (vcore (vrun h (vnew ks))) =
  list_max (header_sizes (map snd h) ++ map row_size (all_rows (vcore (vrun h (vnew ks))))).
Proof. intros H. rewrite via_refines. exact (core_ncols _ H). Qed.

Lemma cb_dump_last_expected (h : list (op N * list bool)) :
  wf_hist (map fst h) -> enc_obs (observe (fst (cb_run h))) = spec_dump_last (map fst h).
Proof. intros H. rewrite cb_refines. cbn [fst]. exact (model_dump_last_expected _ H). Qed.
