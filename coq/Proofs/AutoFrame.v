(* C19, round 5: what a registration can and cannot change.

   (1) Plain "texttable", in every ASCII letter case, is the package's default
       decoration under EVERY registry - the stock names re-registered by the
       application included: the default is a constant of texttable.Wrap, not
       a registry entry.
   (2) Frame: RegisterDecorationName(n, d) changes the resolution of a style
       only if n is one of the names that style can select (a dotted prefix of
       its name part); every other style - the sub-package names, plain
       "texttable", every other registered or unknown name - resolves and
       renders exactly as before, whether n was new or overwrote an entry.
   (3) A registration under n makes n itself (when it is a plain, dot-free
       name) select exactly the decoration just registered, also when the
       name was registered before (latest wins). *)
From Tab Require Import Model.Registry Model.Auto Spec.RegistrySpec Proofs.RegistryProofs Proofs.AutoProofs.

Lemma pick_ext amap amap' l :
  (forall p, In p l -> amap p = amap' p) -> pick amap l = pick amap' l.
Proof.
  induction l as [|x l IH] using rev_ind; intros H; [reflexivity|].
  rewrite !pick_snoc. rewrite <- (H x) by (apply in_or_app; right; left; reflexivity).
  rewrite IH; [reflexivity|]. intros p I. apply H. apply in_or_app. auto.
Qed.

Section Frame.
  Variable lower : bytes -> bytes.
  Variables r_csv r_html r_markdown r_json : res (bytes * bool).
  Variable body : decoration -> res bytes.

  Notation wrap' := (wrap lower).
  Notation render_auto' := (render_auto lower r_csv r_html r_markdown r_json body).
  Notation spec_resolve' := (spec_resolve lower r_csv r_html r_markdown r_json body).

  (* the names a style can select *)
  Definition selectable (s : bytes) : list bytes :=
    dotted_prefixes s ++ dotted_prefixes (skipn (S (length (first_section s))) s).

  Lemma resolve_ext amap amap' s :
    (forall p, In p (selectable s) -> amap p = amap' p) ->
    spec_resolve' amap s = spec_resolve' amap' s.
  Proof.
    intros H. unfold spec_resolve.
    rewrite !spec_select_pick.
    rewrite (pick_ext amap amap' (dotted_prefixes s))
      by (intros p I; apply H; unfold selectable; apply in_or_app; auto).
    rewrite (pick_ext amap amap' (dotted_prefixes (skipn (S (length (first_section s))) s)))
      by (intros p I; apply H; unfold selectable; apply in_or_app; auto).
    reflexivity.
  Qed.

  Lemma registration_frame reg n d s :
    ~ In n (selectable s) ->
    render_auto' (register n d reg) s = render_auto' reg s.
  Proof.
    intros H. rewrite !render_auto_resolve. f_equal. apply resolve_ext.
    intros p I. rewrite named_register.
    destruct (bytes_eqb n p) eqn:E; [|reflexivity].
    apply bytes_eqb_eq in E. subst p. contradiction.
  Qed.

  Lemma registration_frame_kind reg n d s :
    ~ In n (selectable s) ->
    forall r r', wrap' (register n d reg) s = Ok r -> wrap' reg s = Ok r' ->
    kind_of r = kind_of r'
    /\ render r_csv r_html r_markdown r_json body r = render r_csv r_html r_markdown r_json body r'.
  Proof.
    intros H r r' W W'.
    destruct (wrap_resolve lower r_csv r_html r_markdown r_json body (register n d reg) s) as [x [X1 X2]].
    destruct (wrap_resolve lower r_csv r_html r_markdown r_json body reg s) as [y [Y1 Y2]].
    rewrite W in X1. rewrite W' in Y1. inversion X1; inversion Y1; subst x y.
    assert (E : spec_resolve' (named (register n d reg)) s = spec_resolve' (named reg) s).
    { apply resolve_ext. intros p I. rewrite named_register.
      destruct (bytes_eqb n p) eqn:E; [|reflexivity].
      apply bytes_eqb_eq in E. subst p. contradiction. }
    rewrite E in X2. rewrite <- Y2 in X2. inversion X2. auto.
  Qed.

  Hypothesis lower_ascii : lower_on_ascii lower.

  Lemma texttable_default_any_case reg v :
    ascii_case_variant s_texttable v -> wrap' reg v = Ok (RText text_wrap).
  Proof.
    intros Hv.
    assert (Hn : nodot v) by (apply (variant_nodot s_texttable v); [left; reflexivity | exact Hv]).
    unfold wrap. rewrite (split_dot_nodot v Hn).
    unfold idx. simpl nth_error. simpl bind.
    rewrite (lower_variant lower lower_ascii s_texttable v Hv). reflexivity.
  Qed.

  Lemma texttable_default_renders reg v :
    ascii_case_variant s_texttable v ->
    render_auto' reg v = text_render body text_wrap.
  Proof.
    intros Hv. unfold render_auto. rewrite (texttable_default_any_case reg v Hv). reflexivity.
  Qed.

  (* latest registration wins for the name itself *)
  Lemma registered_selects_latest reg n d :
    nodot n -> plain_name lower n ->
    wrap' (register n d reg) n = Ok (RText (mkTT d)).
  Proof.
    intros Hn Hp. rewrite (plain_is_set lower (register n d reg) n Hn Hp).
    unfold text_named, set_decoration_named. simpl.
    rewrite named_register, bytes_eqb_refl. reflexivity.
  Qed.
End Frame.
