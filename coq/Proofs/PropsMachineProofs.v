(* C12 - the owner machine over the heap refines the abstract maps: for every
   history, what the model reads off every owner after every step is what
   Spec/PropMap.v predicts.  The invariant ties every head pointer stored
   anywhere in the model state to the abstract map of the owner that holds it;
   sharing between owners is unrestricted. *)
From Tab Require Import Model.Props Model.PropsHeap Spec.PropMap Proofs.PropsProofs Proofs.PropsHeapProofs.

Section Machine.
Variable U : list key.
Hypothesis U_nodup : NoDup U.

(* pointer p (in heap h) is a faithful store of the abstract map a *)
Definition good (h : heap) (p : ptr) (a : amap) : Prop :=
  exists c, reads h p c /\ NoDup (keys c) /\ incl (keys c) U /\ forall k, get_property c k = a k.

Lemma good_ext h h2 p a : good h p a -> good (h ++ h2) p a.
Proof. intros (c & R & N & I & A). exists c. repeat split; auto. apply path_ext. exact R. Qed.

Lemma good_empty h : good h None a_empty.
Proof. exists []. repeat split; try constructor. intros x []. Qed.

Lemma good_map_ext h p a b : (forall k, a k = b k) -> good h p a -> good h p b.
Proof. intros E (c & R & N & I & A). exists c. repeat split; auto. intros k. rewrite A. apply E. Qed.

(* the head pointer stored under a canonical owner name *)
Definition slot (st : mstate) (o : owner) : option ptr :=
  match o with
  | OTable => Some (m_table st)
  | OCol n => nth_error (m_cols st) n
  | OHandle _ => None
  | ORow r => match nth_error (m_rows st) r with Some rw => Some (r_props rw) | None => None end
  | OCell r c => match nth_error (m_rows st) r with Some rw => nth_error (r_cells rw) c | None => None end
  | ODet d => nth_error (m_dets st) d
  end.

Definition row_shape (rw : hrow) : bool * nat := (r_in_table rw, length (r_cells rw)).

Record Rel (st : mstate) (ss : sstate) : Prop := mkRel {
  R_wf : hwf (m_heap st);
  R_ncols : m_ncols st = s_ncols ss;
  R_cols : length (m_cols st) = S (m_ncols st);
  R_rows : map row_shape (m_rows st) = s_rows ss;
  R_dets : length (m_dets st) = s_ndets ss;
  R_handles : m_handles st = s_handles ss;
  R_hbound : forall hd n, nth_error (m_handles st) hd = Some n -> n <= m_ncols st;
  R_good : forall o p, slot st o = Some p -> good (m_heap st) p (s_map ss o)
}.

Lemma rel_init : Rel m_init s_init.
Proof.
  constructor; cbn; auto.
  - intros i n E. destruct i; discriminate.
  - intros hd n E. destruct hd; discriminate.
  - intros o p E. destruct o; cbn in E.
    + inversion E; subst. apply good_empty.
    + destruct n as [|[|n]]; cbn in E; inversion E; subst. apply good_empty.
    + discriminate.
    + destruct r; discriminate.
    + destruct r; discriminate.
    + destruct d; discriminate.
Qed.

(* ---- small list facts *)

Lemma s_upd_upd {A} (l : list A) i x : s_upd l i x = upd l i x.
Proof. revert i. induction l as [|y l IH]; intros [|i]; cbn; auto; rewrite IH; reflexivity. Qed.

Lemma map_upd {A B} (f : A -> B) l i x : map f (upd l i x) = upd (map f l) i (f x).
Proof. revert i. induction l as [|y l IH]; intros [|i]; cbn; auto; rewrite IH; reflexivity. Qed.

Lemma upd_same_id {A} (l : list A) i x : nth_error l i = Some x -> upd l i x = l.
Proof.
  revert i. induction l as [|y l IH]; intros [|i] E; cbn in *; auto; try discriminate.
  - inversion E; auto.
  - rewrite IH; auto.
Qed.

Lemma nth_error_repeat {A} (x : A) n i y : nth_error (repeat x n) i = Some y -> y = x /\ i < n.
Proof.
  revert i. induction n; intros [|i] E; cbn in E; try discriminate.
  - inversion E. split; auto. lia.
  - apply IHn in E. destruct E. split; auto. lia.
Qed.

Lemma nth_error_snoc {A} (l : list A) x i y :
  nth_error (l ++ [x]) i = Some y -> (i < length l /\ nth_error l i = Some y) \/ (i = length l /\ y = x).
Proof.
  intros E. destruct (Nat.lt_ge_cases i (length l)) as [L|L].
  - rewrite nth_error_app1 in E by exact L. auto.
  - rewrite nth_error_app2 in E by exact L. destruct (i - length l) as [|d] eqn:D; cbn in E.
    + inversion E. right. split; auto. lia.
    + destruct d; discriminate.
Qed.

Lemma nth_error_map_some {A B} (f : A -> B) l i : nth_error (map f l) i = option_map f (nth_error l i).
Proof. revert i. induction l; intros [|i]; cbn; auto. Qed.

(* ---- head_of against canon *)

Lemma head_of_spec st ss o : Rel st ss ->
  match canon ss o with
  | None => head_of st o = Ok None
  | Some cn => exists p, head_of st o = Ok (Some p) /\ slot st cn = Some p
  end.
Proof.
  intros R. destruct o; cbn [canon head_of].
  - exists (m_table st). auto.
  - unfold column. rewrite <- (R_ncols _ _ R).
    destruct (n <=? m_ncols st) eqn:E.
    + apply Nat.leb_le in E. assert (m_ncols st <? n = false) as -> by (apply Nat.ltb_ge; lia).
      destruct (idx_lt (m_cols st) n) as (p & E1 & E2); [rewrite (R_cols _ _ R); lia|].
      rewrite E1. cbn [bind]. rewrite E1. cbn [bind]. exists p. auto.
    + apply Nat.leb_gt in E. assert (m_ncols st <? n = true) as -> by (apply Nat.ltb_lt; lia). reflexivity.
  - rewrite <- (R_handles _ _ R). destruct (nth_error (m_handles st) h) as [n|] eqn:E; [|reflexivity].
    pose proof (R_hbound _ _ R _ _ E).
    destruct (idx_lt (m_cols st) n) as (p & E1 & E2); [rewrite (R_cols _ _ R); lia|].
    rewrite E1. cbn [bind]. exists p. auto.
  - rewrite <- (R_rows _ _ R), nth_error_map_some.
    destruct (nth_error (m_rows st) r) as [rw|] eqn:E; cbn [option_map]; [|reflexivity].
    exists (r_props rw). cbn [slot]. rewrite E. auto.
  - rewrite <- (R_rows _ _ R), nth_error_map_some.
    destruct (nth_error (m_rows st) r) as [rw|] eqn:E; cbn [option_map row_shape]; [|reflexivity].
    destruct (c <? length (r_cells rw)) eqn:Ec.
    + apply Nat.ltb_lt in Ec. destruct (nth_error (r_cells rw) c) as [p|] eqn:Ep.
      * exists p. cbn [slot]. rewrite E. auto.
      * apply nth_error_None in Ep. lia.
    + apply Nat.ltb_ge in Ec. destruct (nth_error (r_cells rw) c) as [p|] eqn:Ep; [|reflexivity].
      assert (c < length (r_cells rw)) by (apply nth_error_Some; congruence). lia.
  - rewrite <- (R_dets _ _ R).
    destruct (d <? length (m_dets st)) eqn:Ed.
    + apply Nat.ltb_lt in Ed. destruct (nth_error (m_dets st) d) as [p|] eqn:Ep.
      * exists p. auto.
      * apply nth_error_None in Ep. lia.
    + apply Nat.ltb_ge in Ed. destruct (nth_error (m_dets st) d) as [p|] eqn:Ep; [|reflexivity].
      assert (d < length (m_dets st)) by (apply nth_error_Some; congruence). lia.
Qed.

(* ---- reading an owner *)

Lemma live_count_ext a b : (forall k, a k = b k) -> live_count U a = live_count U b.
Proof. intros E. unfold live_count. f_equal. apply filter_ext. intros k. rewrite E. reflexivity. Qed.

Lemma m_gets_ok h p c : reads h p c -> forall ks, m_gets h p ks = Ok (map (fun k => enc (get_property c k)) ks).
Proof.
  intros R. induction ks as [|k ks IH]; cbn [m_gets map]; auto.
  rewrite (hget_ok h p c k R). cbn [bind]. rewrite IH. reflexivity.
Qed.

Lemma m_entry_ok st ss o : Rel st ss -> m_entry st U o = Ok (s_entry ss U o).
Proof.
  intros R. unfold m_entry, s_entry. pose proof (head_of_spec st ss o R) as H.
  destruct (canon ss o) as [cn|].
  - destruct H as (p & -> & S). cbn [bind].
    destruct (R_good _ _ R cn p S) as (c & Rd & N & I & A).
    rewrite (hchain_len_ok _ _ _ Rd). cbn [bind]. rewrite (m_gets_ok _ _ _ Rd). cbn [bind].
    f_equal. f_equal. f_equal.
    + unfold chain_len. rewrite <- (live_count_length c U N U_nodup I). apply live_count_ext. exact A.
    + apply map_ext. intros k. rewrite A. reflexivity.
  - rewrite H. reflexivity.
Qed.

Lemma m_dump_ok st ss watch : Rel st ss -> m_dump st U watch = Ok (s_dump ss U watch).
Proof.
  intros R. induction watch as [|o ws IH]; cbn [m_dump s_dump map]; auto.
  rewrite (m_entry_ok st ss o R). cbn [bind]. rewrite IH. reflexivity.
Qed.

(* ---- set_head *)

Lemma slot_with_heap st h o : slot (with_heap st h) o = slot st o.
Proof. destruct o; reflexivity. Qed.

Lemma slot_set_head st cn p o q : slot st cn = Some q ->
  slot (set_head st cn p) o = if owner_eqb cn o then Some p else slot st o.
Proof.
  intros S. destruct cn; cbn [slot] in S; try discriminate.
  - destruct o; reflexivity.
  - destruct o; cbn [set_head slot owner_eqb m_table m_cols m_rows m_dets]; auto.
    destruct (Nat.eqb n n0) eqn:E.
    + apply Nat.eqb_eq in E. subst. apply nth_error_upd_same. apply nth_error_Some. congruence.
    + apply Nat.eqb_neq in E. apply nth_error_upd_other. exact E.
  - destruct (nth_error (m_rows st) r) as [rw|] eqn:Er; [|discriminate].
    cbn [set_head]; rewrite Er. destruct o; cbn [slot owner_eqb m_table m_cols m_rows m_dets]; auto.
    + destruct (Nat.eqb r r0) eqn:E.
      * apply Nat.eqb_eq in E. subst. rewrite nth_error_upd_same by (apply nth_error_Some; congruence). reflexivity.
      * apply Nat.eqb_neq in E. rewrite nth_error_upd_other by exact E. reflexivity.
    + destruct (Nat.eq_dec r r0) as [<-|E].
      * rewrite nth_error_upd_same by (apply nth_error_Some; congruence). cbn [r_cells]. rewrite Er. reflexivity.
      * rewrite nth_error_upd_other by exact E. reflexivity.
  - destruct (nth_error (m_rows st) r) as [rw|] eqn:Er; [|discriminate].
    cbn [set_head]; rewrite Er. destruct o; cbn [slot owner_eqb m_table m_cols m_rows m_dets]; auto.
    + destruct (Nat.eq_dec r r0) as [<-|E].
      * rewrite nth_error_upd_same by (apply nth_error_Some; congruence). cbn [r_props]. rewrite Er. reflexivity.
      * rewrite nth_error_upd_other by exact E. reflexivity.
    + destruct (Nat.eq_dec r r0) as [<-|E].
      * rewrite nth_error_upd_same by (apply nth_error_Some; congruence). cbn [r_cells]. rewrite Nat.eqb_refl. cbn [andb].
        destruct (Nat.eqb c c0) eqn:Ec.
        -- apply Nat.eqb_eq in Ec. subst. apply nth_error_upd_same. apply nth_error_Some. congruence.
        -- apply Nat.eqb_neq in Ec. rewrite Er. apply nth_error_upd_other. exact Ec.
      * rewrite nth_error_upd_other by exact E. apply Nat.eqb_neq in E. rewrite E. reflexivity.
  - destruct o; cbn [set_head slot owner_eqb m_table m_cols m_rows m_dets]; auto.
    destruct (Nat.eqb d d0) eqn:E.
    + apply Nat.eqb_eq in E. subst. apply nth_error_upd_same. apply nth_error_Some. congruence.
    + apply Nat.eqb_neq in E. apply nth_error_upd_other. exact E.
Qed.

(* set_head does not change the shape *)
Lemma set_head_shape st cn p :
  let st' := set_head st cn p in
  m_heap st' = m_heap st /\ m_ncols st' = m_ncols st /\ length (m_cols st') = length (m_cols st)
  /\ map row_shape (m_rows st') = map row_shape (m_rows st)
  /\ length (m_dets st') = length (m_dets st) /\ m_handles st' = m_handles st.
Proof.
  destruct cn; cbn [set_head]; repeat split; cbn; auto using upd_length.
  - destruct (nth_error (m_handles st) h); reflexivity.
  - destruct (nth_error (m_handles st) h); reflexivity.
  - destruct (nth_error (m_handles st) h); cbn; auto using upd_length.
  - destruct (nth_error (m_handles st) h); reflexivity.
  - destruct (nth_error (m_handles st) h); reflexivity.
  - destruct (nth_error (m_handles st) h); reflexivity.
  - destruct (nth_error (m_rows st) r); reflexivity.
  - destruct (nth_error (m_rows st) r); reflexivity.
  - destruct (nth_error (m_rows st) r); reflexivity.
  - destruct (nth_error (m_rows st) r) as [rw|] eqn:E; cbn; auto.
    rewrite map_upd. apply upd_same_id. rewrite nth_error_map_some, E. reflexivity.
  - destruct (nth_error (m_rows st) r); reflexivity.
  - destruct (nth_error (m_rows st) r); reflexivity.
  - destruct (nth_error (m_rows st) r); reflexivity.
  - destruct (nth_error (m_rows st) r); reflexivity.
  - destruct (nth_error (m_rows st) r); reflexivity.
  - destruct (nth_error (m_rows st) r) as [rw|] eqn:E; cbn; auto.
    rewrite map_upd. apply upd_same_id. rewrite nth_error_map_some, E. unfold row_shape. cbn.
    rewrite upd_length. reflexivity.
  - destruct (nth_error (m_rows st) r); reflexivity.
  - destruct (nth_error (m_rows st) r); reflexivity.
Qed.

(* a set through any name of an owner writes the canonical owner's slot *)
Lemma set_head_canon st ss o cn p : m_handles st = s_handles ss -> canon ss o = Some cn -> set_head st o p = set_head st cn p.
Proof.
  intros R C. destruct o; cbn [canon] in C.
  - inversion C; reflexivity.
  - destruct (n <=? s_ncols ss); inversion C; reflexivity.
  - rewrite <- R in C. cbn [set_head].
    destruct (nth_error (m_handles st) h); inversion C; reflexivity.
  - destruct (nth_error (s_rows ss) r); inversion C; reflexivity.
  - destruct (nth_error (s_rows ss) r) as [[b nc]|]; [|discriminate].
    destruct (c <? nc); inversion C; reflexivity.
  - destruct (d <? s_ndets ss); inversion C; reflexivity.
Qed.

Lemma canon_not_handle ss o cn : canon ss o = Some cn -> forall h, cn <> OHandle h.
Proof.
  intros C h E. subst cn. destruct o; cbn [canon] in C.
  - discriminate.
  - destruct (n <=? s_ncols ss); discriminate.
  - destruct (nth_error (s_handles ss) h0); discriminate.
  - destruct (nth_error (s_rows ss) r); discriminate.
  - destruct (nth_error (s_rows ss) r) as [[b nc]|]; [|discriminate]. destruct (c <? nc); discriminate.
  - destruct (d <? s_ndets ss); discriminate.
Qed.

(* ---- resizeColumnsAtLeast *)

Lemma resize_spec st n : length (m_cols st) = S (m_ncols st) ->
  let st' := resize_columns_at_least st n in
  m_heap st' = m_heap st /\ m_table st' = m_table st /\ m_rows st' = m_rows st /\ m_dets st' = m_dets st
  /\ m_handles st' = m_handles st /\ m_ncols st' = Nat.max (m_ncols st) n
  /\ length (m_cols st') = S (m_ncols st')
  /\ forall c q, nth_error (m_cols st') c = Some q ->
       (c <= m_ncols st /\ nth_error (m_cols st) c = Some q) \/ (m_ncols st < c /\ q = None).
Proof.
  intros L. unfold resize_columns_at_least. destruct (n <=? m_ncols st) eqn:E.
  - apply Nat.leb_le in E. repeat split; auto; try lia.
    intros c q Eq. left. split; auto.
    assert (c < length (m_cols st)) by (apply nth_error_Some; congruence). lia.
  - apply Nat.leb_gt in E. cbn. repeat split; auto; try lia.
    + rewrite app_length, repeat_length. lia.
    + intros c q Eq. destruct (Nat.lt_ge_cases c (length (m_cols st))) as [Lc|Lc].
      * rewrite nth_error_app1 in Eq by exact Lc. left. split; auto. lia.
      * rewrite nth_error_app2 in Eq by exact Lc. apply nth_error_repeat in Eq. right. split; [lia|tauto].
Qed.

(* ---- one step *)

Definition key_in_U (o : op) : Prop := forall k, In k (op_key o) -> In k U.

Lemma put_other f o m o' : owner_eqb o o' = false -> s_put f o m o' = f o'.
Proof. intros E. unfold s_put. rewrite E. reflexivity. Qed.
Lemma put_same f o m : s_put f o m o = m.
Proof. unfold s_put. rewrite owner_eqb_refl. reflexivity. Qed.

Lemma step_ok st ss o : Rel st ss -> key_in_U o ->
  exists st', m_step st o = Ok (st', snd (s_step ss o)) /\ Rel st' (fst (s_step ss o)).
Proof.
  intros R KU. unfold m_step. destruct o as [ow k v|ow k|ow| | |r d|r|n|n|n|ow| |ow]; cbn [m_step_gen s_step].
  - (* SetP *)
    pose proof (head_of_spec st ss ow R) as H. destruct (canon ss ow) as [cn|] eqn:C.
    + destruct H as (p & -> & S). cbn [bind].
      destruct (R_good _ _ R cn p S) as (c & Rd & N & I & A).
      destruct (hset_ok (m_heap st) p c k v (R_wf _ _ R) Rd) as (h2 & p2 & E & R2 & W2).
      rewrite E. cbn [bind fst snd]. eexists. split; [reflexivity|].
      rewrite (set_head_canon (with_heap st (m_heap st ++ h2)) ss ow cn p2).
      2:{ cbn. apply (R_handles _ _ R). }
      2:{ exact C. }
      pose proof (set_head_shape (with_heap st (m_heap st ++ h2)) cn p2) as (Sh & Sn & Sc & Sr & Sd & Shd).
      cbn [fst]. constructor; cbn [s_map s_ncols s_rows s_ndets s_handles].
      * rewrite Sh. exact W2.
      * rewrite Sn. apply (R_ncols _ _ R).
      * rewrite Sc, Sn. apply (R_cols _ _ R).
      * rewrite Sr. apply (R_rows _ _ R).
      * rewrite Sd. apply (R_dets _ _ R).
      * rewrite Shd. apply (R_handles _ _ R).
      * rewrite Shd, Sn. apply (R_hbound _ _ R).
      * intros o q Eo. rewrite Sh. cbn [with_heap m_heap].
        rewrite (slot_set_head _ cn p2 o p) in Eo by (rewrite slot_with_heap; exact S).
        unfold s_put. destruct (owner_eqb cn o) eqn:Eq.
        -- inversion Eo; subst q. exists (set_result c k v).
           pose proof (set_property_ok c k v) as SP. repeat split.
           ++ exact R2.
           ++ eapply set_nodup; eauto.
           ++ eapply set_keys_incl; eauto. apply KU. cbn. auto.
           ++ intros y. rewrite (get_set c k v _ y N SP). unfold a_set. destruct (key_eqb k y); auto.
        -- rewrite slot_with_heap in Eo. apply good_ext. apply (R_good _ _ R). exact Eo.
    + rewrite H. cbn [bind]. eexists. split; [reflexivity|exact R].
  - (* GetP *)
    pose proof (head_of_spec st ss ow R) as H. destruct (canon ss ow) as [cn|] eqn:C.
    + destruct H as (p & -> & S). cbn [bind].
      destruct (R_good _ _ R cn p S) as (c & Rd & N & I & A).
      rewrite (hget_ok _ _ _ k Rd). cbn [bind]. rewrite A. eexists. split; [reflexivity|exact R].
    + rewrite H. cbn [bind]. eexists. split; [reflexivity|exact R].
  - (* CopyCell *)
    assert (is_cell_owner ow = s_is_cell ow) as -> by (destruct ow; reflexivity).
    destruct (s_is_cell ow); [|eexists; split; [reflexivity|exact R]].
    pose proof (head_of_spec st ss ow R) as H. destruct (canon ss ow) as [cn|] eqn:C.
    + destruct H as (p & -> & S). cbn [bind]. eexists. split; [reflexivity|].
      cbn [fst]. destruct R. constructor; cbn; auto.
      * rewrite app_length. cbn. lia.
      * intros o q Eo. destruct o; cbn [slot m_table m_cols m_rows m_dets] in Eo;
          try (rewrite put_other by reflexivity; apply R_good0; exact Eo).
        apply nth_error_snoc in Eo as [[L Eo]|[-> ->]].
        -- rewrite put_other. { apply R_good0. exact Eo. }
           cbn. apply Nat.eqb_neq. lia.
        -- rewrite <- R_dets0. rewrite put_same. apply R_good0. exact S.
    + rewrite H. cbn [bind]. eexists. split; [reflexivity|exact R].
  - (* NewCell *)
    eexists. split; [reflexivity|]. cbn [fst]. destruct R. constructor; cbn; auto.
    + rewrite app_length. cbn. lia.
    + intros o q Eo. destruct o; cbn [slot m_table m_cols m_rows m_dets] in Eo;
        try (rewrite put_other by reflexivity; apply R_good0; exact Eo).
      apply nth_error_snoc in Eo as [[L Eo]|[-> ->]].
      * rewrite put_other. { apply R_good0. exact Eo. }
        cbn. apply Nat.eqb_neq. lia.
      * rewrite <- R_dets0. rewrite put_same. apply good_empty.
  - (* NewRow *)
    eexists. split; [reflexivity|]. cbn [fst]. destruct R. constructor; cbn; auto.
    + rewrite map_app. cbn. rewrite R_rows0. reflexivity.
    + assert (length (s_rows ss) = length (m_rows st)) as LL by (rewrite <- R_rows0; apply map_length).
      intros o q Eo. destruct o; cbn [slot m_table m_cols m_rows m_dets] in Eo;
        try (rewrite put_other by reflexivity; apply R_good0; exact Eo).
      * destruct (nth_error (m_rows st ++ [mkRow None [] false]) r) as [rw|] eqn:Er; [|discriminate].
        inversion Eo; subst q. apply nth_error_snoc in Er as [[L Er]|[-> ->]].
        -- rewrite put_other. { apply R_good0. cbn. rewrite Er. reflexivity. }
           cbn. apply Nat.eqb_neq. lia.
        -- rewrite LL, put_same. apply good_empty.
      * rewrite put_other by reflexivity.
        destruct (nth_error (m_rows st ++ [mkRow None [] false]) r) as [rw|] eqn:Er; [|discriminate].
        apply nth_error_snoc in Er as [[L Er]|[-> ->]].
        -- apply R_good0. cbn. rewrite Er. exact Eo.
        -- cbn in Eo. destruct c; discriminate.
  - (* RowAdd *)
    rewrite <- (R_rows _ _ R), nth_error_map_some.
    destruct (nth_error (m_rows st) r) as [rw|] eqn:Er; cbn [option_map row_shape];
      [|eexists; split; [reflexivity|exact R]].
    rewrite <- (R_dets _ _ R).
    destruct (nth_error (m_dets st) d) as [p|] eqn:Ed.
    + assert (d <? length (m_dets st) = true) as Ld by (apply Nat.ltb_lt, nth_error_Some; congruence).
      destruct (r_in_table rw) eqn:Et; [eexists; split; [reflexivity|exact R]|].
      rewrite Ld. eexists. split; [reflexivity|]. cbn [fst]. destruct R. constructor; cbn; auto.
      * etransitivity; [apply map_upd|]. etransitivity; [|symmetry; apply s_upd_upd].
        unfold row_shape. cbn. rewrite app_length. cbn. rewrite Nat.add_1_r. reflexivity.
      * intros o q Eo. destruct o; cbn [slot m_table m_cols m_rows m_dets] in Eo;
          try (rewrite put_other by reflexivity; apply R_good0; exact Eo).
        -- rewrite put_other by reflexivity. destruct (Nat.eq_dec r r0) as [<-|Ne].
           ++ rewrite nth_error_upd_same in Eo by (apply nth_error_Some; congruence).
              cbn in Eo. apply R_good0. cbn. rewrite Er. exact Eo.
           ++ rewrite nth_error_upd_other in Eo by exact Ne. apply R_good0. exact Eo.
        -- destruct (Nat.eq_dec r r0) as [<-|Ne].
           ++ rewrite nth_error_upd_same in Eo by (apply nth_error_Some; congruence).
              cbn [r_cells] in Eo. apply nth_error_snoc in Eo as [[L Eo]|[-> ->]].
              ** rewrite put_other. { apply R_good0. cbn. rewrite Er. exact Eo. }
                 cbn. rewrite Nat.eqb_refl. cbn. apply Nat.eqb_neq. lia.
              ** rewrite put_same. apply R_good0. exact Ed.
           ++ rewrite nth_error_upd_other in Eo by exact Ne. rewrite put_other. { apply R_good0. exact Eo. }
              cbn. apply Nat.eqb_neq in Ne. rewrite Ne. reflexivity.
    + assert (d <? length (m_dets st) = false) as Ld by (apply Nat.ltb_ge, nth_error_None; exact Ed).
      rewrite Ld. destruct (r_in_table rw); eexists; (split; [reflexivity|exact R]).
  - (* AddRow *)
    rewrite <- (R_rows _ _ R), nth_error_map_some.
    destruct (nth_error (m_rows st) r) as [rw|] eqn:Er; cbn [option_map row_shape];
      [|eexists; split; [reflexivity|exact R]].
    destruct (r_in_table rw) eqn:Et; [eexists; split; [reflexivity|exact R]|].
    eexists. split; [reflexivity|]. cbn [fst].
    match goal with |- Rel (resize_columns_at_least ?s ?k) _ => set (st1 := s); pose proof (resize_spec st1 k) as RS end.
    cbn zeta in RS. destruct RS as (Rh & Rt & Rr & Rd & Rhd & Rn & Rc & Rcol); [apply (R_cols _ _ R)|].
    destruct R. constructor; cbn [s_map s_ncols s_rows s_ndets s_handles].
    + rewrite Rh. exact R_wf0.
    + rewrite Rn. cbn. rewrite R_ncols0. reflexivity.
    + exact Rc.
    + rewrite Rr. cbn. etransitivity; [apply map_upd|]. etransitivity; [|symmetry; apply s_upd_upd].
      reflexivity.
    + rewrite Rd. exact R_dets0.
    + rewrite Rhd. exact R_handles0.
    + rewrite Rhd, Rn. cbn. intros hd m E. apply R_hbound0 in E. lia.
    + intros o q Eo. rewrite Rh. cbn [st1 m_heap]. unfold s_grow.
      destruct o; cbn [slot] in Eo; rewrite ?Rt, ?Rr, ?Rd in Eo; cbn [st1 m_table m_rows m_dets] in Eo.
      * apply R_good0. exact Eo.
      * apply Rcol in Eo. cbn [st1 m_ncols m_cols] in Eo. rewrite <- R_ncols0.
        destruct Eo as [[L Eo]|[L ->]].
        -- assert (m_ncols st <? n = false) as -> by (apply Nat.ltb_ge; lia). apply R_good0. exact Eo.
        -- assert (m_ncols st <? n = true) as -> by (apply Nat.ltb_lt; lia). apply good_empty.
      * discriminate.
      * destruct (Nat.eq_dec r r0) as [<-|Ne].
        -- rewrite nth_error_upd_same in Eo by (apply nth_error_Some; congruence).
           cbn in Eo. apply R_good0. cbn. rewrite Er. exact Eo.
        -- rewrite nth_error_upd_other in Eo by exact Ne. apply R_good0. exact Eo.
      * destruct (Nat.eq_dec r r0) as [<-|Ne].
        -- rewrite nth_error_upd_same in Eo by (apply nth_error_Some; congruence).
           cbn in Eo. apply R_good0. cbn. rewrite Er. exact Eo.
        -- rewrite nth_error_upd_other in Eo by exact Ne. apply R_good0. exact Eo.
      * apply R_good0. exact Eo.
  - (* AddRowItems *)
    eexists. split; [reflexivity|]. cbn [fst].
    match goal with |- Rel (resize_columns_at_least ?s ?k) _ => set (st1 := s); pose proof (resize_spec st1 k) as RS end.
    cbn zeta in RS. destruct RS as (Rh & Rt & Rr & Rd & Rhd & Rn & Rc & Rcol); [apply (R_cols _ _ R)|].
    destruct R.
    assert (length (s_rows ss) = length (m_rows st)) as LL by (rewrite <- R_rows0; apply map_length).
    constructor; cbn [s_map s_ncols s_rows s_ndets s_handles].
    + rewrite Rh. exact R_wf0.
    + rewrite Rn. cbn. rewrite R_ncols0. reflexivity.
    + exact Rc.
    + rewrite Rr. cbn. rewrite map_app, R_rows0. cbn. unfold row_shape. cbn. rewrite repeat_length. reflexivity.
    + rewrite Rd. exact R_dets0.
    + rewrite Rhd. exact R_handles0.
    + rewrite Rhd, Rn. cbn. intros hd m E. apply R_hbound0 in E. lia.
    + intros o q Eo. rewrite Rh. cbn [st1 m_heap]. rewrite LL.
      destruct o; cbn [slot] in Eo; rewrite ?Rt, ?Rr, ?Rd in Eo; cbn [st1 m_table m_rows m_dets] in Eo.
      * rewrite put_other by reflexivity. cbn. apply R_good0. exact Eo.
      * rewrite put_other by reflexivity. cbn [s_fresh_cells s_grow].
        apply Rcol in Eo. cbn [st1 m_ncols m_cols] in Eo. rewrite <- R_ncols0.
        destruct Eo as [[L Eo]|[L ->]].
        -- assert (m_ncols st <? n0 = false) as -> by (apply Nat.ltb_ge; lia). apply R_good0. exact Eo.
        -- assert (m_ncols st <? n0 = true) as -> by (apply Nat.ltb_lt; lia). apply good_empty.
      * discriminate.
      * destruct (nth_error (m_rows st ++ [mkRow None (repeat None n) true]) r) as [rw|] eqn:Er; [|discriminate].
        inversion Eo; subst q. apply nth_error_snoc in Er as [[L Er]|[-> ->]].
        -- rewrite put_other. { cbn. apply R_good0. cbn. rewrite Er. reflexivity. }
           cbn. apply Nat.eqb_neq. lia.
        -- rewrite put_same. apply good_empty.
      * rewrite put_other by reflexivity. cbn [s_fresh_cells].
        destruct (nth_error (m_rows st ++ [mkRow None (repeat None n) true]) r) as [rw|] eqn:Er; [|discriminate].
        apply nth_error_snoc in Er as [[L Er]|[-> ->]].
        -- assert (Nat.eqb (length (m_rows st)) r = false) as -> by (apply Nat.eqb_neq; lia).
           cbn. apply R_good0. cbn. rewrite Er. exact Eo.
        -- rewrite Nat.eqb_refl. cbn in Eo. apply nth_error_repeat in Eo as [-> _]. apply good_empty.
      * rewrite put_other by reflexivity. cbn. apply R_good0. exact Eo.
  - (* TakeColumn *)
    unfold column. rewrite <- (R_ncols _ _ R).
    destruct (n <=? m_ncols st) eqn:E.
    + apply Nat.leb_le in E. assert (m_ncols st <? n = false) as -> by (apply Nat.ltb_ge; lia).
      destruct (idx_lt (m_cols st) n) as (p & E1 & E2); [rewrite (R_cols _ _ R); lia|].
      rewrite E1. cbn [bind]. eexists. split; [reflexivity|]. cbn [fst]. destruct R. constructor; cbn; auto.
      * rewrite R_handles0. reflexivity.
      * intros hd m Eh. apply nth_error_snoc in Eh as [[L Eh]|[-> ->]]; eauto.
    + apply Nat.leb_gt in E. assert (m_ncols st <? n = true) as -> by (apply Nat.ltb_lt; lia).
      cbn [bind]. eexists. split; [reflexivity|exact R].
  - (* AddHeaders *)
    eexists. split; [reflexivity|]. cbn [fst].
    pose proof (resize_spec st n (R_cols _ _ R)) as RS.
    cbn zeta in RS. destruct RS as (Rh & Rt & Rr & Rd & Rhd & Rn & Rc & Rcol).
    destruct R. constructor; cbn [s_map s_ncols s_rows s_ndets s_handles].
    + rewrite Rh. exact R_wf0.
    + rewrite Rn. rewrite R_ncols0. reflexivity.
    + exact Rc.
    + rewrite Rr. exact R_rows0.
    + rewrite Rd. exact R_dets0.
    + rewrite Rhd. exact R_handles0.
    + rewrite Rhd, Rn. intros hd m E. apply R_hbound0 in E. lia.
    + intros o q Eo. rewrite Rh. unfold s_grow.
      destruct o; cbn [slot] in Eo; rewrite ?Rt, ?Rr, ?Rd in Eo.
      * apply R_good0. exact Eo.
      * apply Rcol in Eo. rewrite <- R_ncols0.
        destruct Eo as [[L Eo]|[L ->]].
        -- assert (m_ncols st <? n0 = false) as -> by (apply Nat.ltb_ge; lia). apply R_good0. exact Eo.
        -- assert (m_ncols st <? n0 = true) as -> by (apply Nat.ltb_lt; lia). apply good_empty.
      * discriminate.
      * apply R_good0. exact Eo.
      * apply R_good0. exact Eo.
      * apply R_good0. exact Eo.
  - (* Touch *)
    pose proof (head_of_spec st ss ow R) as H. destruct (canon ss ow) as [cn|] eqn:C.
    + destruct H as (p & -> & S). cbn [bind]. eexists. split; [reflexivity|exact R].
    + rewrite H. cbn [bind]. eexists. split; [reflexivity|exact R].
  - (* AddSeparator *)
    eexists. split; [reflexivity|]. cbn [fst]. destruct R. constructor; cbn; auto.
    + rewrite map_app. cbn. rewrite R_rows0. reflexivity.
    + assert (length (s_rows ss) = length (m_rows st)) as LL by (rewrite <- R_rows0; apply map_length).
      intros o q Eo. destruct o; cbn [slot m_table m_cols m_rows m_dets] in Eo;
        try (rewrite put_other by reflexivity; apply R_good0; exact Eo).
      * destruct (nth_error (m_rows st ++ [mkRow None [] true]) r) as [rw|] eqn:Er; [|discriminate].
        inversion Eo; subst q. apply nth_error_snoc in Er as [[L Er]|[-> ->]].
        -- rewrite put_other. { apply R_good0. cbn. rewrite Er. reflexivity. }
           cbn. apply Nat.eqb_neq. lia.
        -- rewrite LL, put_same. apply good_empty.
      * rewrite put_other by reflexivity.
        destruct (nth_error (m_rows st ++ [mkRow None [] true]) r) as [rw|] eqn:Er; [|discriminate].
        apply nth_error_snoc in Er as [[L Er]|[-> ->]].
        -- apply R_good0. cbn. rewrite Er. exact Eo.
        -- cbn in Eo. destruct c; discriminate.
  - (* NewCellOf *)
    assert (is_cell_owner ow = s_is_cell ow) as -> by (destruct ow; reflexivity).
    destruct (s_is_cell ow); [|eexists; split; [reflexivity|exact R]].
    pose proof (head_of_spec st ss ow R) as H. destruct (canon ss ow) as [cn|] eqn:C.
    + destruct H as (p & -> & S). cbn [bind]. eexists. split; [reflexivity|].
      cbn [fst]. destruct R. constructor; cbn; auto.
      * rewrite app_length. cbn. lia.
      * intros o q Eo. destruct o; cbn [slot m_table m_cols m_rows m_dets] in Eo;
          try (rewrite put_other by reflexivity; apply R_good0; exact Eo).
        apply nth_error_snoc in Eo as [[L Eo]|[-> ->]].
        -- rewrite put_other. { apply R_good0. exact Eo. }
           cbn. apply Nat.eqb_neq. lia.
        -- rewrite <- R_dets0. rewrite put_same. apply good_empty.
    + rewrite H. cbn [bind]. eexists. split; [reflexivity|exact R].
Qed.

(* ---- histories *)

Lemma run_refines watch ops : forall st ss,
  Rel st ss -> Forall key_in_U ops -> m_run st U watch ops = s_run ss U watch ops.
Proof.
  induction ops as [|o rest IH]; intros st ss R F; [reflexivity|].
  inversion F as [|? ? Ho Hr]; subst.
  destruct (step_ok st ss o R Ho) as (st' & E & R').
  unfold m_run. cbn [m_run_gen s_run]. fold (m_step st o). rewrite E.
  destruct (s_step ss o) as [ss' r] eqn:Es. cbn [fst snd] in *.
  rewrite (m_dump_ok st' ss' watch R'). f_equal. apply IH; auto.
Qed.

End Machine.

Lemma universe_ok_spec U ops : universe_ok U ops = true -> NoDup U /\ Forall (key_in_U U) ops.
Proof.
  unfold universe_ok. intros H. apply andb_true_iff in H as [H1 H2]. split.
  - apply nodupb_NoDup. exact H1.
  - rewrite forallb_forall in H2. apply Forall_forall. intros o Ho k Hk.
    assert (In k (flat_map op_key ops)) as X by (apply in_flat_map; eauto).
    apply H2 in X. apply existsb_exists in X as (k' & Hin & E). apply key_eqb_eq in E. subst. exact Hin.
Qed.

(* the model's trace of any history is the one the abstract maps predict *)
Theorem machine_refines U watch ops :
  universe_ok U ops = true -> m_run m_init U watch ops = expected U watch ops.
Proof.
  intros H. apply universe_ok_spec in H as [N F].
  apply run_refines; auto. apply rel_init.
Qed.

(* ---- column handles.  With columns []*column a handle is the column object
   itself, which the model names by its number; so "the handle addresses
   column n after any growth" is, in the model, the statement that a column
   number taken when it was valid stays valid and keeps resolving to the same
   slot as a fresh t.Column(n) - the table only ever appends column objects. *)

Fixpoint m_steps (st : mstate) (ops : list op) : res mstate :=
  match ops with
  | [] => Ok st
  | o :: rest => bind (m_step st o) (fun sr => m_steps (fst sr) rest)
  end.

Definition m_inv (st : mstate) : Prop :=
  length (m_cols st) = S (m_ncols st)
  /\ forall hd n, nth_error (m_handles st) hd = Some n -> n <= m_ncols st.

Lemma m_inv_init : m_inv m_init.
Proof. split; cbn; auto. intros [|hd] n E; discriminate. Qed.

Ltac break_hyp H :=
  match type of H with
  | context [match ?x with _ => _ end] => destruct x eqn:?
  | context [if ?x then _ else _] => destruct x eqn:?
  end.

Lemma step_inv st o st' r : m_step st o = Ok (st', r) -> m_inv st ->
  m_inv st' /\ m_ncols st <= m_ncols st' /\ exists extra, m_handles st' = m_handles st ++ extra.
Proof.
  intros H [I1 I2].
  assert (m_inv st /\ m_ncols st <= m_ncols st /\ exists extra, m_handles st = m_handles st ++ extra) as Same.
  { split; [split; auto|]. split; auto. exists []. rewrite app_nil_r. reflexivity. }
  unfold m_step in H. destruct o as [ow k v|ow k|ow| | |rr d|rr|n|n|n|ow| |ow]; cbn [m_step_gen] in H.
  - destruct (head_of st ow) as [[p|]| |]; cbn [bind] in H; try discriminate.
    + destruct (hset_property (m_heap st) p k v) as [[h' p']| |]; cbn [bind fst snd] in H; try discriminate.
      inversion H; subst.
      pose proof (set_head_shape (with_heap st h') ow p') as (Sh & Sn & Sc & Sr & Sd & Shd).
      cbn [with_heap m_ncols m_cols m_handles] in *.
      split; [split|split].
      * rewrite Sc, Sn. exact I1.
      * rewrite Shd, Sn. exact I2.
      * rewrite Sn. auto.
      * exists []. rewrite Shd, app_nil_r. reflexivity.
    + inversion H; subst. exact Same.
  - destruct (head_of st ow) as [[p|]| |]; cbn [bind] in H; try discriminate.
    + destruct (hget_property (m_heap st) p k); cbn [bind] in H; try discriminate. inversion H; subst. exact Same.
    + inversion H; subst. exact Same.
  - destruct (is_cell_owner ow); [|inversion H; subst; exact Same].
    destruct (head_of st ow) as [[p|]| |]; cbn [bind] in H; try discriminate; inversion H; subst; [|exact Same].
    cbn. split; [split; auto|]. split; auto. exists []. rewrite app_nil_r. reflexivity.
  - inversion H; subst. cbn. split; [split; auto|]. split; auto. exists []. rewrite app_nil_r. reflexivity.
  - inversion H; subst. cbn. split; [split; auto|]. split; auto. exists []. rewrite app_nil_r. reflexivity.
  - destruct (nth_error (m_rows st) rr) as [rw|]; [|inversion H; subst; exact Same].
    destruct (nth_error (m_dets st) d) as [p|]; [|inversion H; subst; exact Same].
    destruct (r_in_table rw); inversion H; subst; [exact Same|].
    cbn. split; [split; auto|]. split; auto. exists []. rewrite app_nil_r. reflexivity.
  - destruct (nth_error (m_rows st) rr) as [rw|]; [|inversion H; subst; exact Same].
    destruct (r_in_table rw); inversion H; subst; [exact Same|].
    match goal with |- m_inv (resize_columns_at_least ?s ?k) /\ _ => pose proof (resize_spec s k I1) as RS end.
    cbn zeta in RS. destruct RS as (Rh & Rt & Rr & Rd & Rhd & Rn & Rc & Rcol). cbn [m_ncols m_handles] in *.
    split; [split|split].
    + exact Rc.
    + rewrite Rhd, Rn. intros hd m E. apply I2 in E. lia.
    + rewrite Rn. lia.
    + exists []. rewrite Rhd, app_nil_r. reflexivity.
  - inversion H; subst.
    match goal with |- m_inv (resize_columns_at_least ?s ?k) /\ _ => pose proof (resize_spec s k I1) as RS end.
    cbn zeta in RS. destruct RS as (Rh & Rt & Rr & Rd & Rhd & Rn & Rc & Rcol). cbn [m_ncols m_handles] in *.
    split; [split|split].
    + exact Rc.
    + rewrite Rhd, Rn. intros hd m E. apply I2 in E. lia.
    + rewrite Rn. lia.
    + exists []. rewrite Rhd, app_nil_r. reflexivity.
  - unfold column in H. destruct (m_ncols st <? n) eqn:E; cbn [bind] in H.
    + inversion H; subst. exact Same.
    + destruct (idx (m_cols st) n); cbn [bind] in H; try discriminate. inversion H; subst.
      apply Nat.ltb_ge in E. cbn. split; [split; auto|].
      * intros hd m Eh. apply nth_error_snoc in Eh as [[L Eh]|[-> ->]]; eauto.
      * split; auto. exists [n]. reflexivity.
  - inversion H; subst.
    pose proof (resize_spec st n I1) as RS.
    cbn zeta in RS. destruct RS as (Rh & Rt & Rr & Rd & Rhd & Rn & Rc & Rcol).
    split; [split|split].
    + exact Rc.
    + rewrite Rhd, Rn. intros hd m E. apply I2 in E. lia.
    + rewrite Rn. lia.
    + exists []. rewrite Rhd, app_nil_r. reflexivity.
  - destruct (head_of st ow) as [[p|]| |]; cbn [bind] in H; try discriminate; inversion H; subst; exact Same.
  - inversion H; subst. cbn. split; [split; auto|]. split; auto. exists []. rewrite app_nil_r. reflexivity.
  - destruct (is_cell_owner ow); [|inversion H; subst; exact Same].
    destruct (head_of st ow) as [[p|]| |]; cbn [bind] in H; try discriminate; inversion H; subst; [|exact Same].
    cbn. split; [split; auto|]. split; auto. exists []. rewrite app_nil_r. reflexivity.
Qed.

Lemma steps_inv ops : forall st st', m_steps st ops = Ok st' -> m_inv st ->
  m_inv st' /\ m_ncols st <= m_ncols st' /\ exists extra, m_handles st' = m_handles st ++ extra.
Proof.
  induction ops as [|o rest IH]; intros st st' H I; cbn [m_steps] in H.
  - inversion H; subst. split; auto. split; auto. exists []. rewrite app_nil_r. reflexivity.
  - destruct (m_step st o) as [[st1 r]| |] eqn:E; cbn [bind fst] in H; try discriminate.
    destruct (step_inv _ _ _ _ E I) as (I1 & L1 & x1 & E1).
    destruct (IH _ _ H I1) as (I2 & L2 & x2 & E2).
    split; auto. split; [lia|]. exists (x1 ++ x2). rewrite E2, E1, app_assoc. reflexivity.
Qed.

(* a handle taken for column n: after any further history (growth included) it
   is still the handle for n, column n still exists, and reading or writing
   through the handle is reading or writing what a fresh t.Column(n) gives *)
Theorem handle_stable ops st st' hd n :
  m_inv st -> nth_error (m_handles st) hd = Some n -> m_steps st ops = Ok st' ->
  nth_error (m_handles st') hd = Some n
  /\ n <= m_ncols st'
  /\ column st' n = Ok (Some n)
  /\ head_of st' (OHandle hd) = head_of st' (OCol n)
  /\ forall p, set_head st' (OHandle hd) p = set_head st' (OCol n) p.
Proof.
  intros I E H. destruct (steps_inv ops st st' H I) as ([I1 I2] & L & x & Ex).
  assert (nth_error (m_handles st') hd = Some n) as E'.
  { rewrite Ex. rewrite nth_error_app1; auto. apply nth_error_Some. congruence. }
  pose proof (I2 _ _ E') as Ln.
  assert (column st' n = Ok (Some n)) as C.
  { unfold column. assert (m_ncols st' <? n = false) as -> by (apply Nat.ltb_ge; lia).
    destruct (idx_lt (m_cols st') n) as (p & E1 & _); [lia|]. rewrite E1. reflexivity. }
  repeat split; auto.
  - cbn [head_of]. rewrite E', C. cbn [bind]. reflexivity.
  - intros p. cbn [set_head]. rewrite E'. reflexivity.
Qed.

(* taking the handle itself: TakeColumn n on a state where column n exists *)
Lemma take_column_handle st n st' r :
  m_step st (TakeColumn n) = Ok (st', r) -> r = R_OK ->
  nth_error (m_handles st') (length (m_handles st)) = Some n.
Proof.
  unfold m_step. cbn [m_step_gen]. unfold column. intros H Hr.
  destruct (m_ncols st <? n); cbn [bind] in H.
  - inversion H; subst. discriminate.
  - destruct (idx (m_cols st) n); cbn [bind] in H; try discriminate. inversion H; subst. cbn.
    rewrite nth_error_app2 by lia. rewrite Nat.sub_diag. reflexivity.
Qed.

(* ---- reachable states, and the frame property between owners *)

Fixpoint s_steps (ss : sstate) (ops : list op) : sstate :=
  match ops with
  | [] => ss
  | o :: rest => s_steps (fst (s_step ss o)) rest
  end.

(* no history panics, and every reachable model state is tied to the abstract
   maps of the history *)
Lemma rel_steps U (N : NoDup U) ops : forall st ss,
  Rel U st ss -> Forall (key_in_U U) ops ->
  exists st', m_steps st ops = Ok st' /\ Rel U st' (s_steps ss ops).
Proof.
  induction ops as [|o rest IH]; intros st ss R F; cbn [m_steps s_steps].
  - exists st. auto.
  - inversion F as [|? ? Ho Hr]; subst.
    destruct (step_ok U st ss o R Ho) as (st1 & E & R1). rewrite E. cbn [bind fst].
    apply IH; auto.
Qed.

Lemma canon_after_set ss ow k v o : canon (fst (s_step ss (SetP ow k v))) o = canon ss o.
Proof. cbn [s_step]. destruct (canon ss ow); destruct o; reflexivity. Qed.

(* a set through one owner - under any of its names, and whoever shares links
   with it - leaves what any OTHER owner reports unchanged: its value under
   every key and its chain length *)
Lemma machine_frame U (N : NoDup U) st ss ow k v o' :
  Rel U st ss -> In k U -> canon ss ow <> canon ss o' ->
  exists st' r, m_step st (SetP ow k v) = Ok (st', r) /\ m_entry st' U o' = m_entry st U o'.
Proof.
  intros R Hk Ne.
  assert (key_in_U U (SetP ow k v)) as KU by (intros x [<-|[]]; exact Hk).
  destruct (step_ok U st ss _ R KU) as (st' & E & R').
  exists st', (snd (s_step ss (SetP ow k v))). split; [exact E|].
  rewrite (m_entry_ok U N st' _ o' R'), (m_entry_ok U N st ss o' R). f_equal.
  unfold s_entry. rewrite canon_after_set.
  destruct (canon ss o') as [c'|] eqn:C'; [|reflexivity].
  cbn [s_step]. destruct (canon ss ow) as [c|] eqn:C; [|reflexivity].
  cbn [fst s_map]. assert (owner_eqb c c' = false) as X.
  { apply owner_eqb_neq. intros ->. apply Ne. reflexivity. }
  rewrite !put_other by exact X. reflexivity.
Qed.

Theorem frame_owners U ops st ow k v o' :
  NoDup U -> Forall (key_in_U U) ops -> In k U -> m_steps m_init ops = Ok st ->
  canon (s_steps s_init ops) ow <> canon (s_steps s_init ops) o' ->
  exists st' r, m_step st (SetP ow k v) = Ok (st', r) /\ m_entry st' U o' = m_entry st U o'.
Proof.
  intros N F Hk H Ne.
  destruct (rel_steps U N ops m_init s_init (rel_init U) F) as (st0 & E & R).
  rewrite E in H. inversion H; subst st0.
  eapply machine_frame; eauto.
Qed.

Theorem no_panic U ops :
  NoDup U -> Forall (key_in_U U) ops -> exists st, m_steps m_init ops = Ok st.
Proof.
  intros N F. destruct (rel_steps U N ops m_init s_init (rel_init U) F) as (st & E & _). eauto.
Qed.
