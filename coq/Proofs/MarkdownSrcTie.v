(* The tie between the TRANSLATED SOURCE of markdown/markdown.go's mdCellEscape
   (Generated/MarkdownSrc.v, written by tools/go2coq) and Model/Markdown.v. *)
From Tab Require Import Base.GoSem Base.GoLib Model.Markdown.
From Tab Require Import Generated.MarkdownSrc.

Lemma lib_html_esc_byte_is_model b : lib_html_esc_byte b = html_esc_byte b.
Proof. reflexivity. Qed.

Lemma lib_html_EscapeString_is_model s : lib_html_EscapeString s = html_escape s.
Proof. reflexivity. Qed.

Lemma lib_strings_Replace1_is_model old new s : lib_strings_Replace1 old new s = replace_byte old new s.
Proof. reflexivity. Qed.

(* for every byte string: the same three passes in the same order, with the
   pattern bytes and the replacement entities the source spells out *)
Theorem src_mdCellEscape_is_model : forall s, src_mdCellEscape s = Ok (md_escape s).
Proof.
  intros s. unfold src_mdCellEscape, pure_fn, fn_body. rewrite !mbind_ret_l. cbn [snd ret].
  rewrite !lib_strings_Replace1_is_model, lib_html_EscapeString_is_model. reflexivity.
Qed.

From Tab Require Import Spec.MdSplit Proofs.MarkdownProofs.

(* the neutralisation clause of C08, for what the TRANSLATED SOURCE returns *)
Theorem src_mdCellEscape_neutral : forall s out,
  src_mdCellEscape s = Ok out ->
  raw_free out = true
  /\ decode out = Some s
  /\ (forall pre post, out = pre ++ 38%N :: post -> starts_entity post).
Proof.
  intros s out H. rewrite src_mdCellEscape_is_model in H. inversion H; subst out. apply md_neutral.
Qed.
