From Tab Require Import Model.Cell Model.CellProc Spec.CellText Spec.CellHist Spec.MethodSet Proofs.CellProofs.

Section ProcProofs.
  Variable W : bytes -> nat.

  Definition cell_of (p : item * env) : cell := new_cell W (snd p) (fst p).

  Definition pinv (st : pstate) (hs : env * reads) : Prop :=
    p_env st = fst hs /\ p_cells st = map cell_of (snd hs).

  Lemma upd_nth_map e k (l : reads) :
    upd_nth (update W e) k (map cell_of l) = map cell_of (upd_nth (fun p => (fst p, e)) k l).
  Proof.
    revert k. induction l as [| p l IH]; intros k.
    - destruct k; reflexivity.
    - destruct k as [| k]; cbn [map upd_nth].
      + f_equal. unfold cell_of. cbn [fst snd]. rewrite update_raw_only, new_cell_raw. reflexivity.
      + f_equal. apply IH.
  Qed.

  Lemma pstep_inv st hs o : pinv st hs -> pinv (pstep W st o) (hstep hs o).
  Proof.
    intros [He Hc]. destruct o as [it | k | e']; unfold pinv; cbn [pstep hstep p_env p_cells fst snd].
    - split; [exact He|]. rewrite Hc, map_app, He. reflexivity.
    - split; [exact He|]. rewrite Hc, He. apply upd_nth_map.
    - split; [reflexivity | exact Hc].
  Qed.

  Lemma prun_inv h : forall st hs, pinv st hs -> pinv (fold_left (pstep W) h st) (fold_left hstep h hs).
  Proof.
    induction h as [| o h IH]; intros st hs H; cbn [fold_left]; [exact H|].
    apply IH. apply pstep_inv. exact H.
  Qed.

  Lemma prun_cells e0 h : p_cells (prun W e0 h) = map cell_of (hist_reads e0 h).
  Proof.
    unfold prun, hist_reads.
    destruct (prun_inv h (mkP e0 []) (e0, [])) as [_ Hc]; [split; reflexivity|]. exact Hc.
  Qed.

  Lemma process_texts e0 h :
    map cell_text (p_cells (prun W e0 h)) = map expected_text (hist_reads e0 h)
    /\ map cell_item (p_cells (prun W e0 h)) = map fst (hist_reads e0 h).
  Proof.
    rewrite prun_cells, !map_map. split; apply map_ext; intros [it e]; unfold cell_of, expected_text; cbn [fst snd].
    - apply cell_text_documented.
    - apply cell_item_same.
  Qed.

  (* the cells a process made before do not matter: a cell made after any
     history reads exactly as a cell made first thing *)
  Lemma process_new_is_first e0 h it :
    let st := prun W e0 h in
    p_cells (pstep W st (PNew it)) = p_cells st ++ [new_cell W (p_env st) it].
  Proof. reflexivity. Qed.

  (* ---- method sets *)
  Lemma method_set_documented e id d s h :
    e id = obj_of d s h -> documented_text e (IObj id) = method_set_text d s h.
  Proof.
    intros H. unfold documented_text, object_text, method_set_text. rewrite H.
    unfold obj_of, offered. cbn [m_string m_gostring m_error fmt_v].
    destruct (offers h (r_string d)), (offers h (r_gostring d)), (offers h (r_error d)), h; reflexivity.
  Qed.

  Lemma method_set_cell_text e id d s h :
    e id = obj_of d s h -> cell_text (new_cell W e (IObj id)) = method_set_text d s h.
  Proof. intros H. rewrite cell_text_documented. apply method_set_documented. exact H. Qed.

  Lemma value_ignores_pointer_methods e id d s :
    e id = obj_of d s ByValue ->
    r_string d <> OnValue -> r_gostring d <> OnValue -> r_error d <> OnValue ->
    cell_text (new_cell W e (IObj id)) = s_fmt_value s.
  Proof.
    intros H Hs Hg He. rewrite (method_set_cell_text e id d s ByValue H). unfold method_set_text.
    destruct (r_string d), (r_gostring d), (r_error d); cbn [offers]; try reflexivity; congruence.
  Qed.

  Lemma pointer_offers_both e id d s :
    e id = obj_of d s ByPointer ->
    cell_text (new_cell W e (IObj id)) =
      match r_string d, r_gostring d, r_error d with
      | NoMethod, NoMethod, NoMethod => s_fmt_pointer s
      | NoMethod, NoMethod, _ => s_error s
      | NoMethod, _, _ => s_gostring s
      | _, _, _ => s_string s
      end.
  Proof.
    intros H. rewrite (method_set_cell_text e id d s ByPointer H). unfold method_set_text.
    destruct (r_string d), (r_gostring d), (r_error d); reflexivity.
  Qed.
End ProcProofs.
