(* C13 proofs, part 2: every build operation of the model does to the table and
   to the callback sets what the specification's [shape_step] / [regs_step]
   say, and emits the specification's add-time events. *)
From Tab Require Export Proofs.CallbacksBase.

Definition row_shape (row : mrow) : srow := mkSrow (option_map (@length mcell) (rw_cells row)) (rw_inTable row).
Definition abs (st : state) : shape := mkShape (map row_shape (st_rows st)) (st_order st) (st_header st) (st_ncols st).
Definition cells_std (r n : nat) : list mcell := map (fun c => mkCell c r) (seq 1 n).

Record Inv (st : state) (sh : shape) (regs : list reg) : Prop := mkInv {
  inv_abs : abs st = sh;
  inv_len : st_lencols st = S (st_ncols st);
  inv_cells : forall r row cells, nth_error (st_rows st) r = Some row -> rw_cells row = Some cells ->
                                  cells = cells_std r (length cells);
  inv_sets : sets_ok (st_sets st) regs }.

Lemma Inv_init : Inv init shape0 [].
Proof.
  constructor; try reflexivity.
  - intros r row cells H. destruct r; discriminate.
  - apply sets_ok_init.
Qed.

Lemma Inv_set_props st sh regs p : Inv st sh regs -> Inv (set_props st p) sh regs.
Proof. intros [A B C D]. constructor; assumption. Qed.

Lemma cells_std_length r n : length (cells_std r n) = n.
Proof. unfold cells_std. rewrite map_length, seq_length. reflexivity. Qed.

Lemma cells_std_S r n : cells_std r (S n) = cells_std r n ++ [mkCell (S n) r].
Proof. unfold cells_std. rewrite seq_snoc, map_app. reflexivity. Qed.

Lemma std_from r i n : map (fun c => mkCell c r) (seq (S i) (S n)) = mkCell (S i) r :: map (fun c => mkCell c r) (seq (S (S i)) n).
Proof. reflexivity. Qed.

Lemma abs_row st r row : nth_error (st_rows st) r = Some row -> nth_error (sh_rows (abs st)) r = Some (row_shape row).
Proof. intros H. simpl. rewrite nth_error_map, H. reflexivity. Qed.

Lemma abs_row_inv st r sr : nth_error (sh_rows (abs st)) r = Some sr -> exists row, nth_error (st_rows st) r = Some row /\ sr = row_shape row.
Proof.
  simpl. rewrite nth_error_map. destruct (nth_error (st_rows st) r) as [row|]; simpl; intros H; inversion H.
  eauto.
Qed.

(* ---- resizeColumnsAtLeast *)
Lemma resize_spec st n :
  st_lencols st = S (st_ncols st) ->
  resize_columns_at_least st n = set_cols st (Nat.max (st_ncols st) n) (S (Nat.max (st_ncols st) n)).
Proof.
  intros H. unfold resize_columns_at_least. destruct (n <=? st_ncols st) eqn:E.
  - apply Nat.leb_le in E. rewrite Nat.max_l by lia. destruct st; simpl in *. subst. reflexivity.
  - apply Nat.leb_gt in E. rewrite Nat.max_r by lia. unfold set_cols. f_equal. lia.
Qed.

(* ---- columnOfTable *)
Lemma column_of_table_ok st r c row :
  nth_error (st_rows st) r = Some row -> rw_inTable row = true ->
  1 <= c -> c <= st_ncols st -> st_lencols st = S (st_ncols st) ->
  column_of_table st (mkCell c r) = Ok (Some c).
Proof.
  intros Hr Ht H1 H2 Hl. unfold column_of_table. simpl.
  destruct (c <? 1) eqn:E1; [apply Nat.ltb_lt in E1; lia|].
  rewrite (idx_Some _ _ _ Hr). simpl. rewrite Ht. simpl.
  destruct (st_ncols st <? c) eqn:E2; [apply Nat.ltb_lt in E2; lia|].
  unfold idx_n. destruct (c <? st_lencols st) eqn:E3; [reflexivity|].
  apply Nat.ltb_ge in E3. lia.
Qed.

Lemma add_cells_loop_ok st r row n : forall i,
  nth_error (st_rows st) r = Some row -> rw_inTable row = true ->
  i + n <= st_ncols st -> st_lencols st = S (st_ncols st) ->
  add_cells_loop st r (map (fun c => mkCell c r) (seq (S i) n)) i
  = Ok (flat_map (fun c => invoke st (SlColCell c) TAdd (XCell r c) ++ invoke st SlTableCell TAdd (XCell r c)) (seq (S i) n)).
Proof.
  induction n as [|n IH]; intros i Hr Ht Hn Hl.
  - reflexivity.
  - rewrite std_from. cbn [add_cells_loop].
    rewrite (column_of_table_ok st r (S i) row Hr Ht) by lia. cbn [bind].
    rewrite (IH (S i) Hr Ht) by lia. cbn [bind invoke_col].
    cbn [seq flat_map]. rewrite <- app_assoc. reflexivity.
Qed.

Definition cell_events (st : state) (r c : nat) : list event :=
  let x := XCell r c in
  invoke st SlTableCell TPre x ++ invoke st (SlColCell c) TPre x ++ invoke st (SlRowCell r) TPre x
  ++ invoke st SlTableCell TRender x ++ invoke st (SlCellSelf r c) TRender x
  ++ invoke st (SlRowCell r) TPost x ++ invoke st (SlColCell c) TPost x ++ invoke st SlTableCell TPost x.

Lemma render_cells_ok st r row n : forall i,
  nth_error (st_rows st) r = Some row -> rw_inTable row = true ->
  i + n <= st_ncols st -> st_lencols st = S (st_ncols st) ->
  render_cells st r (map (fun c => mkCell c r) (seq (S i) n)) i
  = Ok (flat_map (cell_events st r) (seq (S i) n)).
Proof.
  induction n as [|n IH]; intros i Hr Ht Hn Hl.
  - reflexivity.
  - rewrite std_from. cbn [render_cells].
    rewrite (column_of_table_ok st r (S i) row Hr Ht) by lia. cbn [bind].
    rewrite (IH (S i) Hr Ht) by lia. cbn [bind invoke_col].
    cbn [seq flat_map]. unfold cell_events at 2. rewrite <- ?app_assoc. reflexivity.
Qed.

(* ---- Row.Add, the three cases *)
Lemma row_add_sep st r row :
  nth_error (st_rows st) r = Some row -> rw_cells row = None -> row_add st r = Ok (st, []).
Proof. intros H C. unfold row_add. rewrite (idx_Some _ _ _ H). simpl. rewrite C. reflexivity. Qed.

Lemma row_add_detached st r row cells :
  nth_error (st_rows st) r = Some row -> rw_cells row = Some cells -> rw_inTable row = false ->
  row_add st r = Ok (set_rows st (set_nth (st_rows st) r (mkRow (Some (cells ++ [mkCell (S (length cells)) r])) false)),
                     invoke st (SlRowCell r) TAdd (XCell r (S (length cells)))).
Proof. intros H C T. unfold row_add. rewrite (idx_Some _ _ _ H). simpl. rewrite C, T. reflexivity. Qed.

Lemma row_add_attached st r row cells :
  nth_error (st_rows st) r = Some row -> rw_cells row = Some cells -> rw_inTable row = true ->
  st_lencols st = S (st_ncols st) ->
  let c := S (length cells) in
  let m := Nat.max (st_ncols st) c in
  row_add st r = Ok (set_cols (set_rows st (set_nth (st_rows st) r (mkRow (Some (cells ++ [mkCell c r])) true))) m (S m),
                     invoke st (SlRowCell r) TAdd (XCell r c) ++ invoke st (SlColCell c) TAdd (XCell r c)
                     ++ invoke st SlTableCell TAdd (XCell r c)).
Proof.
  intros H C T L c m. unfold row_add. rewrite (idx_Some _ _ _ H). simpl. rewrite C, T.
  fold c. rewrite resize_spec by exact L. cbn [st_ncols set_rows]. fold m.
  erewrite column_of_table_ok.
  - reflexivity.
  - cbn [st_rows set_cols set_rows]. apply nth_error_set_nth_eq. eapply nth_error_lt; eauto.
  - reflexivity.
  - unfold c. lia.
  - cbn [st_ncols set_cols]. unfold m. lia.
  - reflexivity.
Qed.

(* ---- Row.Add n times on the row just allocated *)
Lemma row_add_n_fresh n : forall st rows0 k,
  st_rows st = rows0 ++ [mkRow (Some (cells_std (length rows0) k)) false] ->
  row_add_n st (length rows0) n
  = Ok (set_rows st (rows0 ++ [mkRow (Some (cells_std (length rows0) (k + n))) false]),
        flat_map (fun c => invoke st (SlRowCell (length rows0)) TAdd (XCell (length rows0) c)) (seq (S k) n)).
Proof.
  induction n as [|n IH]; intros st rows0 k H.
  - simpl. rewrite Nat.add_0_r, <- H. destruct st; reflexivity.
  - cbn [row_add_n].
    erewrite row_add_detached; [| rewrite H; apply nth_error_app_last | reflexivity | reflexivity].
    cbn [bind fst snd]. rewrite cells_std_length.
    rewrite H, set_nth_app_last, <- cells_std_S.
    rewrite (IH _ rows0 (S k)) by reflexivity.
    cbn [bind fst snd seq flat_map]. rewrite <- Nat.add_succ_comm.
    unfold set_rows; cbn. reflexivity.
Qed.

(* ---- AddRow *)
Lemma add_row_ok st r row n :
  nth_error (st_rows st) r = Some row -> cells_of row = cells_std r n ->
  st_lencols st = S (st_ncols st) ->
  let m := Nat.max (st_ncols st) n in
  add_row st r
  = Ok (set_cols (set_rows (set_order st (st_order st ++ [r])) (set_nth (st_rows st) r (mkRow (rw_cells row) true))) m (S m),
        invoke st (SlRowSelf r) TAdd (XRow r) ++ invoke st SlTableRow TAdd (XRow r)
        ++ flat_map (fun c => invoke st (SlColCell c) TAdd (XCell r c) ++ invoke st SlTableCell TAdd (XCell r c)) (seq 1 n)).
Proof.
  intros H C L m. unfold add_row. rewrite (idx_Some _ _ _ H). cbn [bind].
  rewrite C, cells_std_length. rewrite resize_spec by exact L. cbn [st_ncols set_rows set_order]. fold m.
  unfold cells_std.
  erewrite (add_cells_loop_ok _ r _ n 0).
  - reflexivity.
  - cbn [st_rows set_cols set_rows]. apply nth_error_set_nth_eq. eapply nth_error_lt; eauto.
  - reflexivity.
  - cbn [st_ncols set_cols]. unfold m. lia.
  - reflexivity.
Qed.

(* ---- nth_error at the end of a list *)
Lemma nth_error_snoc_inv {A} (l : list A) y r x :
  nth_error (l ++ [y]) r = Some x -> (r < length l /\ nth_error l r = Some x) \/ (r = length l /\ x = y).
Proof.
  intros H. destruct (Nat.lt_ge_cases r (length l)) as [Hl|Hl].
  - left. rewrite nth_error_app1 in H by exact Hl. auto.
  - right. rewrite nth_error_app2 in H by exact Hl.
    destruct (r - length l) as [|d] eqn:E; simpl in H.
    + inversion H. split; [lia | reflexivity].
    + destruct d; discriminate.
Qed.

(* ---- the invariant, operation by operation *)
Lemma Inv_push st sh regs cells att :
  Inv st sh regs -> cells = cells_std (length (st_rows st)) (length cells) ->
  Inv (set_rows st (st_rows st ++ [mkRow (Some cells) att]))
      (mkShape (sh_rows sh ++ [mkSrow (Some (length cells)) att]) (sh_order sh) (sh_header sh) (sh_ncols sh)) regs.
Proof.
  intros [A B C D] Hc. constructor; try assumption.
  - subst sh. unfold abs. simpl. rewrite map_app. reflexivity.
  - intros r row cs Hr Hcs. cbn [st_rows set_rows] in Hr.
    apply nth_error_snoc_inv in Hr as [[_ Hr]|[Hr Hx]].
    + eapply C; eauto.
    + subst. simpl in Hcs. inversion Hcs; subst. exact Hc.
Qed.

Lemma Inv_set_row st sh regs r row cells att :
  Inv st sh regs -> nth_error (st_rows st) r = Some row ->
  cells = cells_std r (length cells) ->
  Inv (set_rows st (set_nth (st_rows st) r (mkRow (Some cells) att)))
      (mkShape (set_nth (sh_rows sh) r (mkSrow (Some (length cells)) att)) (sh_order sh) (sh_header sh) (sh_ncols sh)) regs.
Proof.
  intros [A B C D] Hr Hc. constructor; try assumption.
  - subst sh. unfold abs. simpl. rewrite map_set_nth. reflexivity.
  - intros r' row' cs Hr' Hcs. cbn [st_rows set_rows] in Hr'.
    destruct (Nat.eq_dec r r') as [->|Hne].
    + rewrite nth_error_set_nth_eq in Hr' by (eapply nth_error_lt; eauto).
      inversion Hr'; subst. simpl in Hcs. inversion Hcs; subst. exact Hc.
    + rewrite nth_error_set_nth_neq in Hr' by exact Hne. eapply C; eauto.
Qed.

Lemma Inv_cols st rows order header ncols sh regs m :
  Inv st (mkShape rows order header ncols) regs -> sh = mkShape rows order header m ->
  Inv (set_cols st m (S m)) sh regs.
Proof.
  intros [A B C D] ->. constructor; try assumption; try reflexivity.
  unfold abs in *. simpl in *. inversion A. reflexivity.
Qed.

Lemma Inv_order st rows order header ncols regs order' :
  Inv st (mkShape rows order header ncols) regs ->
  Inv (set_order st order') (mkShape rows order' header ncols) regs.
Proof.
  intros [A B C D]. constructor; try assumption.
  unfold abs in *. simpl in *. inversion A. reflexivity.
Qed.

Lemma Inv_header st rows order header ncols regs header' :
  Inv st (mkShape rows order header ncols) regs ->
  Inv (set_header st header') (mkShape rows order header' ncols) regs.
Proof.
  intros [A B C D]. constructor; try assumption.
  unfold abs in *. simpl in *. inversion A. reflexivity.
Qed.

(* events: model's invoke = spec's fire, under the invariant *)
Ltac to_fire H :=
  repeat rewrite (invoke_fire _ _ _ _ _ H); cbn [slot_owner fst snd].

Lemma flat_map_ext' {A B} (f g : A -> list B) l : (forall x, f x = g x) -> flat_map f l = flat_map g l.
Proof. intros H. induction l; simpl; congruence. Qed.

Lemma flat_map_pair {B} (r : nat) (f : nat * nat -> list B) l :
  flat_map f (map (pair r) l) = flat_map (fun c => f (r, c)) l.
Proof. induction l; simpl; congruence. Qed.

Lemma finish st0 sh' regs' st1 ev spec :
  ev = spec -> Inv st1 sh' regs' -> st_props st1 = st_props st0 ->
  exists st', bind (with_effects (Ok (st1, ev))) (fun se => Ok (se, @nil bool)) = Ok (st', spec, [])
              /\ Inv st' sh' regs' /\ st_props st' = apply_events spec (st_props st0).
Proof.
  intros -> I P. eexists. split; [reflexivity|]. split.
  - apply Inv_set_props. exact I.
  - simpl. rewrite P. reflexivity.
Qed.

Lemma cells_fire_ext st regs r l :
  sets_ok (st_sets st) regs ->
  flat_map (fun c => invoke st (SlColCell c) TAdd (XCell r c) ++ invoke st SlTableCell TAdd (XCell r c)) l
  = flat_map (fun c => fire regs (OColumn c) GCell TAdd (XCell r c) ++ fire regs OTable GCell TAdd (XCell r c)) l.
Proof. intros D. apply flat_map_ext'. intros c. to_fire D. reflexivity. Qed.

Lemma rowcell_fire_ext st regs r l :
  sets_ok (st_sets st) regs ->
  flat_map (fun c => invoke st (SlRowCell r) TAdd (XCell r c)) l
  = flat_map (fun c => fire regs (ORow r) GCell TAdd (XCell r c)) l.
Proof. intros D. apply flat_map_ext'. intros c. to_fire D. reflexivity. Qed.

Lemma Inv_push_gen st sh regs oc att order' header' m st' :
  Inv st sh regs ->
  (forall cells, oc = Some cells -> cells = cells_std (length (st_rows st)) (length cells)) ->
  st' = mkState (st_rows st ++ [mkRow oc att]) order' header' m (S m) (st_sets st) (st_props st) ->
  Inv st' (mkShape (sh_rows sh ++ [mkSrow (option_map (@length mcell) oc) att]) order' header' m) regs.
Proof.
  intros [A B C D] Hc ->. constructor; try assumption; try reflexivity.
  - subst sh. unfold abs. simpl. rewrite map_app. reflexivity.
  - intros r row cs Hr Hcs. cbn [st_rows] in Hr.
    apply nth_error_snoc_inv in Hr as [[_ Hr]|[Hr Hx]].
    + eapply C; eauto.
    + subst. simpl in Hcs. apply Hc. exact Hcs.
Qed.

Lemma abs_len st sh : abs st = sh -> length (sh_rows sh) = length (st_rows st).
Proof. intros <-. simpl. apply map_length. Qed.

Definition regs_bounded (sh : shape) (regs : list reg) : Prop :=
  Forall (fun rg => owner_exists sh (r_owner rg) = true) regs.

Lemma fire_fresh_row sh regs g tm x :
  regs_bounded sh regs -> fire regs (ORow (length (sh_rows sh))) g tm x = [].
Proof.
  intros H. unfold fire. induction H as [|rg regs Hrg _ IH]; [reflexivity|].
  simpl. destruct (is_for (ORow (length (sh_rows sh))) g tm rg) eqn:E; [|exact IH].
  exfalso. unfold is_for in E. apply andb_true_iff in E as [E _]. apply andb_true_iff in E as [E _].
  apply owner_eqb_eq in E. rewrite E in Hrg. simpl in Hrg. apply Nat.ltb_lt in Hrg. lia.
Qed.

Lemma deref_owner_ok st sh regs o : Inv st sh regs -> owner_exists sh o = true -> deref_owner st o = Ok tt.
Proof.
  intros [A B C D] H. destruct o as [|n|r|r c]; simpl in *.
  - reflexivity.
  - subst sh. simpl in H. apply Nat.leb_le in H.
    destruct (st_ncols st <? n) eqn:E; [apply Nat.ltb_lt in E; lia|].
    unfold idx_n. destruct (n <? st_lencols st) eqn:E2; [reflexivity|]. apply Nat.ltb_ge in E2. lia.
  - apply Nat.ltb_lt in H. rewrite (abs_len _ _ A) in H.
    destruct (nth_error (st_rows st) r) eqn:E; [rewrite (idx_Some _ _ _ E); reflexivity|].
    apply nth_error_None in E. lia.
  - destruct (nth_error (sh_rows sh) r) as [sr|] eqn:E; [|discriminate].
    rewrite <- A in E. apply abs_row_inv in E as [row [Hr ->]].
    rewrite (idx_Some _ _ _ Hr). simpl. unfold row_shape in H.
    destruct (rw_cells row) as [cells|]; simpl in H; [|discriminate].
    apply andb_true_iff in H as [H1 H2].
    destruct c as [|c']; [discriminate H1|]. apply Nat.leb_le in H2.
    destruct (nth_error cells c') eqn:E; [rewrite (idx_Some _ _ _ E); reflexivity|].
    apply nth_error_None in E. lia.
Qed.

(* one build operation *)
Lemma step_sim st sh regs o :
  Inv st sh regs -> regs_bounded sh regs -> op_wf sh o = true ->
  exists st', step st o = Ok (st', add_step sh regs o, regerr_step o)
              /\ Inv st' (shape_step sh o) (regs_step regs o)
              /\ st_props st' = apply_events (add_step sh regs o) (st_props st).
Proof.
  intros I RB W. pose proof I as [A B C D]. pose proof (abs_len _ _ A) as HL.
  destruct o as [|r|r| |n| |n|ow tm g cb|r].
  9:{ (* another table's AddRow of a shared row: nothing of this table changes *)
    eexists. split; [reflexivity|]. split; [exact I | reflexivity]. }
  - (* NewRow *)
    eexists. split; [reflexivity|]. split; [|reflexivity].
    cbn [new_row fst shape_step regs_step].
    apply (Inv_push st sh regs [] false I). reflexivity.
  - (* Row.Add *)
    cbn [op_wf] in W. apply Nat.ltb_lt in W.
    destruct (nth_error (st_rows st) r) as [row|] eqn:Hr.
    2:{ apply nth_error_None in Hr. lia. }
    pose proof (abs_row st r row Hr) as Hs. rewrite A in Hs.
    cbn [step]. unfold add_step, cells_added, rows_joined, cells_joined. cbn [shape_step regs_step regerr_step]. rewrite Hs.
    assert (Hl : forall cells, length (cells ++ [mkCell (S (length cells)) r]) = S (length cells))
      by (intros; rewrite app_length; simpl; lia).
    destruct (rw_cells row) as [cells|] eqn:Hc; [destruct (rw_inTable row) eqn:Ht|]; unfold row_shape; rewrite Hc; cbn [option_map]; try rewrite Ht.
    + (* attached *)
      rewrite (row_add_attached st r row cells Hr Hc Ht B). cbn [flat_map fst snd].
      apply finish.
      * rewrite !app_nil_r. to_fire D. reflexivity.
      * pose proof (Inv_set_row st sh regs r row (cells ++ [mkCell (S (length cells)) r]) true I Hr) as I2.
        rewrite Hl in I2. destruct sh as [rows order header ncols].
        eapply Inv_cols; [apply I2|].
        -- rewrite (C r row cells Hr Hc) at 1. symmetry. apply cells_std_S.
        -- cbn. inversion A. reflexivity.
      * reflexivity.
    + (* detached *)
      rewrite (row_add_detached st r row cells Hr Hc Ht). cbn [flat_map fst snd].
      apply finish.
      * rewrite !app_nil_r. to_fire D. reflexivity.
      * pose proof (Inv_set_row st sh regs r row (cells ++ [mkCell (S (length cells)) r]) false I Hr) as I2.
        rewrite Hl in I2. destruct sh as [rows order header ncols]. apply I2.
        rewrite (C r row cells Hr Hc) at 1. symmetry. apply cells_std_S.
      * reflexivity.
    + (* separator *)
      rewrite (row_add_sep st r row Hr Hc). cbn [flat_map app].
      apply finish; [reflexivity | | reflexivity].
      destruct (rw_inTable row); exact I.
  - (* AddRow *)
    cbn [op_wf] in W.
    destruct (nth_error (sh_rows sh) r) as [sr|] eqn:Hs; [|discriminate].
    rewrite <- A in Hs. apply abs_row_inv in Hs as [row [Hr ->]].
    pose proof (abs_row st r row Hr) as Hs. rewrite A in Hs.
    assert (Hcells : cells_of row = cells_std r (cells_n (row_shape row))).
    { unfold cells_of, cells_n, row_shape. simpl. destruct (rw_cells row) as [cells|] eqn:Hc; simpl.
      - apply (C r row cells Hr Hc).
      - reflexivity. }
    cbn [step]. rewrite (add_row_ok st r row _ Hr Hcells B).
    unfold add_step, cells_added, rows_joined, cells_joined. cbn [shape_step regs_step regerr_step]. rewrite Hs.
    assert (Hlt : (r <? length (sh_rows sh)) = true).
    { apply Nat.ltb_lt. eapply nth_error_lt; eauto. }
    rewrite Hlt. cbn [flat_map app]. rewrite app_nil_r, flat_map_pair. cbn [fst snd].
    apply finish.
    + to_fire D. rewrite (cells_fire_ext st regs r _ D). rewrite <- ?app_assoc. reflexivity.
    + destruct sh as [rows order header ncols].
      eapply Inv_cols; [| cbn; inversion A; reflexivity].
      destruct (rw_cells row) as [cells|] eqn:Hc.
      * pose proof (Inv_order _ _ _ _ _ _ (st_order st ++ [r]) I) as I1.
        pose proof (Inv_set_row _ _ _ r row cells true I1 Hr (C r row cells Hr Hc)) as I2.
        cbn in I2. inversion A; subst. exact I2.
      * (* a row without cells is never handed to AddRow *)
        exfalso. unfold row_shape in W. rewrite Hc in W. simpl in W. discriminate.
    + reflexivity.
  - (* AppendNewRow *)
    cbn [step]. unfold append_new_row. cbn [new_row].
    set (id := length (st_rows st)).
    set (st1 := set_rows st (st_rows st ++ [mkRow (Some []) false])).
    erewrite (add_row_ok st1 id (mkRow (Some []) false) 0);
      [| apply nth_error_app_last | reflexivity | exact B].
    unfold add_step, cells_added, rows_joined, cells_joined. cbn [shape_step regs_step regerr_step flat_map app seq].
    rewrite HL. fold id.
    apply finish.
    + assert (D1 : sets_ok (st_sets st1) regs) by exact D.
      to_fire D1. rewrite !app_nil_r. reflexivity.
    + eapply (Inv_push_gen st sh regs (Some []) true); [exact I | intros cells Hc; inversion Hc; reflexivity |].
      subst id st1. cbn. rewrite set_nth_app_last. subst sh. rewrite Nat.max_0_r. reflexivity.
    + reflexivity.
  - (* AddRowItems *)
    cbn [step]. unfold add_row_items. cbn [new_row].
    set (st1 := set_rows st (st_rows st ++ [mkRow (Some []) false])).
    rewrite (row_add_n_fresh n st1 (st_rows st) 0) by reflexivity.
    set (id := length (st_rows st)).
    cbn [bind fst snd Nat.add].
    set (st2 := set_rows st1 (st_rows st ++ [mkRow (Some (cells_std id n)) false])).
    erewrite (add_row_ok st2 id (mkRow (Some (cells_std id n)) false) n);
      [| apply nth_error_app_last | reflexivity | exact B].
    cbn [bind fst snd].
    unfold add_step, cells_added, rows_joined, cells_joined. cbn [shape_step regs_step regerr_step flat_map app].
    rewrite HL. fold id. rewrite !flat_map_pair. cbn [fst snd].
    apply finish.
    + assert (D1 : sets_ok (st_sets st1) regs) by exact D.
      assert (D2 : sets_ok (st_sets st2) regs) by exact D.
      rewrite (rowcell_fire_ext st1 regs id _ D1). to_fire D2. rewrite (cells_fire_ext st2 regs id _ D2).
      rewrite !app_nil_r, <- ?app_assoc. reflexivity.
    + pose proof (Inv_push_gen st sh regs (Some (cells_std id n)) true) as P. cbn [option_map] in P.
      rewrite cells_std_length in P. eapply P; [exact I | intros cells Hc; inversion Hc; rewrite cells_std_length; reflexivity |].
      subst st2 st1 id. cbn. rewrite set_nth_app_last. subst sh. reflexivity.
    + reflexivity.
  - (* AddSeparator *)
    cbn [step]. eexists. split; [reflexivity|]. split; [|reflexivity].
    cbn [shape_step regs_step]. rewrite HL.
    eapply (Inv_push_gen st sh regs None true); [exact I | discriminate |].
    unfold add_separator, set_order, set_rows. cbn. rewrite B. subst sh. reflexivity.
  - (* AddHeaders *)
    cbn [step]. unfold add_headers. rewrite resize_spec by exact B.
    set (m := Nat.max (st_ncols st) n).
    set (st0 := set_cols st m (S m)). cbn [new_row].
    set (st1 := set_rows st0 (st_rows st0 ++ [mkRow (Some []) false])).
    change (length (st_rows st0)) with (length (st_rows st)).
    rewrite (row_add_n_fresh n st1 (st_rows st) 0) by reflexivity.
    set (id := length (st_rows st)).
    cbn [bind fst snd Nat.add].
    set (st2 := set_rows st1 (st_rows st ++ [mkRow (Some (cells_std id n)) false])).
    rewrite (idx_Some (st_rows st2) id (mkRow (Some (cells_std id n)) false)) by apply nth_error_app_last.
    cbn [bind rw_cells cells_of].
    set (st3 := set_header _ (Some id)).
    unfold cells_std at 1.
    erewrite (add_cells_loop_ok st3 id _ n 0).
    2:{ unfold st3, st2, id. cbn [st_rows set_header set_rows]. rewrite set_nth_app_last. apply nth_error_app_last. }
    2: reflexivity.
    2:{ unfold st3, st2, st1, st0. cbn. unfold m. lia. }
    2: reflexivity.
    cbn [bind].
    unfold add_step, cells_added, rows_joined, cells_joined. cbn [shape_step regs_step regerr_step flat_map app].
    rewrite HL. fold id. rewrite !flat_map_pair. cbn [fst snd].
    apply finish.
    + assert (D1 : sets_ok (st_sets st1) regs) by exact D.
      assert (D3 : sets_ok (st_sets st3) regs) by exact D.
      rewrite (rowcell_fire_ext st1 regs id _ D1). to_fire D3. rewrite (cells_fire_ext st3 regs id _ D3).
      assert (Hf : forall g tm x, fire regs (ORow id) g tm x = [])
        by (intros; unfold id; rewrite <- HL; apply fire_fresh_row; exact RB).
      rewrite Hf.
      rewrite !app_nil_r. reflexivity.
    + pose proof (Inv_push_gen st sh regs (Some (cells_std id n)) true) as P. cbn [option_map] in P.
      rewrite cells_std_length in P. eapply P; [exact I | intros cells Hc; inversion Hc; rewrite cells_std_length; reflexivity |].
      subst st3 st2 st1 id. cbn. rewrite set_nth_app_last. subst sh. reflexivity.
    + reflexivity.
  - (* RegisterPropertyCallback *)
    cbn [op_wf] in W. cbn [step]. unfold register.
    unfold add_step, cells_added, rows_joined, cells_joined. cbn [shape_step regs_step regerr_step flat_map app].
    destruct (select_set ow g) as [sl|] eqn:Hs.
    + assert (Ha : accepts (kind ow) g = true).
      { destruct (accepts (kind ow) g) eqn:E; [reflexivity|]. apply select_set_accepts in E. congruence. }
      rewrite Ha. rewrite (deref_owner_ok st sh regs ow I W). cbn [bind negb].
      eexists. split; [reflexivity|]. split; [|reflexivity].
      constructor; try assumption.
      cbn [st_sets put_set set_sets]. apply sets_ok_register; assumption.
    + apply select_set_accepts in Hs. rewrite Hs. cbn [negb].
      eexists. split; [reflexivity|]. split; [exact I | reflexivity].
Qed.
