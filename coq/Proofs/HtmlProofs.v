From Tab Require Import Model.Html Spec.HtmlTok.
From Coq Require Import Sorting.Sorted.

(* ---------- the model's input read as the spec's input ---------- *)

(* What the property calls "the supplied strings" of a render: the wrapper's
   fields, the generator's return values, Headers() and AllRows() as texts. *)
Definition spec_of (x : html_in) : html_spec_in :=
  mkSpecIn (h_id x) (h_class x) (h_caption x) (h_have_rc x) (h_rcs x)
           (header_texts (h_view x))
           (map (option_map row_texts) (v_rows (h_view x))).

(* the guard of the theorems: the generator script holds a value for every
   call the render makes (one per emitted row) *)
Definition rc_fit (x : html_in) : Prop :=
  h_have_rc x = true -> S (length (body_rows (h_view x))) <= length (h_rcs x).

(* ================================================================== *)
(* Part A: the escaper and the decoder                                 *)
(* ================================================================== *)

Definition nul_byte (b : N) : bytes := if N.eqb b 0 then [239; 191; 189]%N else [b].

Lemma nul_subst_cons b s : nul_subst (b :: s) = nul_byte b ++ nul_subst s.
Proof. reflexivity. Qed.

Lemma nul_subst_free s : nul_free s -> nul_subst s = s.
Proof.
  induction 1 as [|b s Hb _ IH]; [reflexivity|].
  rewrite nul_subst_cons, IH. unfold nul_byte.
  destruct (N.eqb_spec b 0); [contradiction | reflexivity].
Qed.

(* the seven special bytes, or a byte that is copied *)
Lemma esc_byte_cases b :
  b = 0%N \/ b = 34%N \/ b = 38%N \/ b = 39%N \/ b = 43%N \/ b = 60%N \/ b = 62%N
  \/ (esc_byte b = [b] /\ b <> 0 /\ b <> 34 /\ b <> 38 /\ b <> 39 /\ b <> 43 /\ b <> 60 /\ b <> 62)%N.
Proof.
  unfold esc_byte, html_repl.
  destruct (N.eqb_spec b 0); [auto|].
  destruct (N.eqb_spec b 34); [auto|].
  destruct (N.eqb_spec b 38); [auto 6|].
  destruct (N.eqb_spec b 39); [auto 6|].
  destruct (N.eqb_spec b 43); [auto 7|].
  destruct (N.eqb_spec b 60); [auto 8|].
  destruct (N.eqb_spec b 62); [auto 9|].
  do 7 right. repeat split; assumption.
Qed.

Lemma dec_run_app st a b : dec_run st (a ++ b) = dec_run (dec_run st a) b.
Proof. apply fold_left_app. Qed.

Lemma dec_esc_byte out b :
  dec_run (Some (out, None)) (esc_byte b) = Some (out ++ nul_byte b, None).
Proof.
  destruct (esc_byte_cases b) as [->|[->|[->|[->|[->|[->|[->|(E & H0 & _ & H38 & _)]]]]]]];
    try reflexivity.
  - cbn. rewrite <- !app_assoc. reflexivity.
  - rewrite E. unfold nul_byte. cbn [dec_run fold_left dec_step].
    destruct (N.eqb_spec b 38); [contradiction|].
    destruct (N.eqb_spec b 0); [contradiction|]. reflexivity.
Qed.

Lemma dec_replacer s : forall out,
  dec_run (Some (out, None)) (html_replacer s) = Some (out ++ nul_subst s, None).
Proof.
  induction s as [|b s IH]; intros out.
  - cbn. rewrite app_nil_r. reflexivity.
  - unfold html_replacer. cbn [flat_map]. rewrite dec_run_app, dec_esc_byte.
    fold (html_replacer s). rewrite IH, nul_subst_cons, app_assoc. reflexivity.
Qed.

(* the decoder inverts the escaper (NUL excepted: it comes back as U+FFFD) *)
Lemma decode_replacer s : decode (html_replacer s) = Some (nul_subst s).
Proof. unfold decode. rewrite dec_replacer. reflexivity. Qed.

(* no escaped string contains a byte the lexer refuses raw: NUL, the quotes, < > *)
Lemma esc_byte_raw_ok b : forallb raw_ok (esc_byte b) = true.
Proof.
  destruct (esc_byte_cases b) as [->|[->|[->|[->|[->|[->|[->|(E & H0 & H34 & _ & H39 & _ & H60 & H62)]]]]]]];
    try reflexivity.
  rewrite E. cbn [forallb]. unfold raw_ok.
  destruct (N.eqb_spec b 0); [contradiction|]. destruct (N.eqb_spec b 34); [contradiction|].
  destruct (N.eqb_spec b 39); [contradiction|]. destruct (N.eqb_spec b 60); [contradiction|].
  destruct (N.eqb_spec b 62); [contradiction|]. reflexivity.
Qed.

Lemma replacer_raw_ok s : forallb raw_ok (html_replacer s) = true.
Proof.
  induction s as [|b s IH]; [reflexivity|].
  unfold html_replacer. cbn [flat_map]. rewrite forallb_app, esc_byte_raw_ok. exact IH.
Qed.

Lemma raw_ok_spec b : raw_ok b = true -> (b <> 0 /\ b <> 34 /\ b <> 39 /\ b <> 60 /\ b <> 62)%N.
Proof.
  unfold raw_ok. intros H.
  destruct (N.eqb_spec b 0); [discriminate|]. destruct (N.eqb_spec b 34); [discriminate|].
  destruct (N.eqb_spec b 39); [discriminate|]. destruct (N.eqb_spec b 60); [discriminate|].
  destruct (N.eqb_spec b 62); [discriminate|]. auto.
Qed.

Definition markup_free (s : bytes) : Prop :=
  Forall (fun b => b <> 60 /\ b <> 62 /\ b <> 34 /\ b <> 39)%N s.

Lemma replacer_markup_free s : markup_free (html_replacer s).
Proof.
  apply Forall_forall. intros b Hb.
  pose proof (replacer_raw_ok s) as H. rewrite forallb_forall in H.
  destruct (raw_ok_spec b (H b Hb)) as (_ & ? & ? & ? & ?). auto.
Qed.

Lemma html_decode_roundtrip s : nul_free s ->
  (decode (html_escape s) = Some s /\ markup_free (html_escape s))
  /\ (decode (attr_escape s) = Some s /\ markup_free (attr_escape s)).
Proof.
  intros H. unfold html_escape, attr_escape.
  rewrite decode_replacer, nul_subst_free by exact H.
  repeat split; auto using replacer_markup_free.
Qed.

Lemma html_decode_general s :
  decode (html_escape s) = Some (nul_subst s) /\ decode (attr_escape s) = Some (nul_subst s)
  /\ markup_free (html_escape s) /\ markup_free (attr_escape s).
Proof.
  unfold html_escape, attr_escape. rewrite decode_replacer. auto using replacer_markup_free.
Qed.

(* ================================================================== *)
(* Part B: the lexer reads back what a printer of tokens writes        *)
(* ================================================================== *)


Lemma lex_run_app s a b : lex_run s (a ++ b) = lex_run (lex_run s a) b.
Proof. apply fold_left_app. Qed.

Lemma lex_run_cons s b l : lex_run s (b :: l) = lex_run (lex_step s b) l.
Proof. reflexivity. Qed.

Lemma lex_run_nil s : lex_run s [] = s.
Proof. reflexivity. Qed.

(* one byte of input: unfold the step on a state whose mode is known *)
Ltac lstep := rewrite lex_run_cons; unfold lex_step at 1; cbn [l_mode l_toks l_text].

Lemma raw_ok_not_lt b : raw_ok b = true -> N.eqb b 60 = false.
Proof. intros H. destruct (raw_ok_spec b H) as (_ & _ & _ & H60 & _). apply N.eqb_neq. exact H60. Qed.

Lemma raw_ok_not_dq b : raw_ok b = true -> N.eqb b 34 = false.
Proof. intros H. destruct (raw_ok_spec b H) as (_ & H34 & _). apply N.eqb_neq. exact H34. Qed.

Lemma lex_text l : forallb raw_ok l = true -> forall toks txt,
  lex_run (mkL toks txt LText) l = mkL toks (txt ++ l) LText.
Proof.
  induction l as [|b l IH]; intros H toks txt.
  - rewrite lex_run_nil, app_nil_r. reflexivity.
  - cbn [forallb] in H. apply andb_true_iff in H as [Hb Hl].
    lstep. rewrite (raw_ok_not_lt b Hb), Hb.
    rewrite IH by exact Hl. rewrite <- app_assoc. reflexivity.
Qed.

Lemma lex_value l : forallb raw_ok l = true -> forall toks txt n a an v,
  lex_run (mkL toks txt (LVal n a an v)) l = mkL toks txt (LVal n a an (v ++ l)).
Proof.
  induction l as [|b l IH]; intros H toks txt n a an v.
  - rewrite lex_run_nil, app_nil_r. reflexivity.
  - cbn [forallb] in H. apply andb_true_iff in H as [Hb Hl].
    lstep. rewrite (raw_ok_not_dq b Hb), Hb.
    rewrite IH by exact Hl. rewrite <- app_assoc. reflexivity.
Qed.

Lemma lex_open_name l : forallb is_name_char l = true -> forall toks txt n,
  lex_run (mkL toks txt (LOpenName n)) l = mkL toks txt (LOpenName (n ++ l)).
Proof.
  induction l as [|b l IH]; intros H toks txt n.
  - rewrite lex_run_nil, app_nil_r. reflexivity.
  - cbn [forallb] in H. apply andb_true_iff in H as [Hb Hl].
    lstep. rewrite Hb.
    rewrite IH by exact Hl. rewrite <- app_assoc. reflexivity.
Qed.

Lemma lex_close_name l : forallb is_name_char l = true -> forall toks txt n,
  lex_run (mkL toks txt (LCloseName n)) l = mkL toks txt (LCloseName (n ++ l)).
Proof.
  induction l as [|b l IH]; intros H toks txt n.
  - rewrite lex_run_nil, app_nil_r. reflexivity.
  - cbn [forallb] in H. apply andb_true_iff in H as [Hb Hl].
    lstep. rewrite Hb.
    rewrite IH by exact Hl. rewrite <- app_assoc. reflexivity.
Qed.

Lemma lex_attr_name l : forallb is_name_char l = true -> forall toks txt n a an,
  lex_run (mkL toks txt (LAttrName n a an)) l = mkL toks txt (LAttrName n a (an ++ l)).
Proof.
  induction l as [|b l IH]; intros H toks txt n a an.
  - rewrite lex_run_nil, app_nil_r. reflexivity.
  - cbn [forallb] in H. apply andb_true_iff in H as [Hb Hl].
    lstep. rewrite Hb.
    rewrite IH by exact Hl. rewrite <- app_assoc. reflexivity.
Qed.

(* a well-formed name: non-empty, a-z *)
Definition name_ok (n : bytes) : Prop := n <> [] /\ forallb is_name_char n = true.
Definition attr_ok (a : bytes * bytes) : Prop := name_ok (fst a) /\ forallb raw_ok (snd a) = true.

Lemma lex_one_attr toks txt n a x rest : attr_ok x ->
  lex_run (mkL toks txt (LSpace n a)) (fst x ++ 61%N :: 34%N :: snd x ++ 34%N :: rest)
  = lex_run (mkL toks txt (LAfterVal n (a ++ [x]))) rest.
Proof.
  destruct x as [an v]. intros [[Hne Hn] Hv]. cbn [fst snd] in *.
  destruct an as [|c an]; [congruence|]. cbn [forallb] in Hn. apply andb_true_iff in Hn as [Hc Hn].
  cbn [app]. lstep. rewrite Hc.
  rewrite lex_run_app, lex_attr_name by exact Hn.
  cbn [app]. lstep. change (is_name_char 61) with false. cbn [N.eqb Pos.eqb].
  cbn [app]. lstep. cbn [N.eqb Pos.eqb]. cbn [app].
  rewrite lex_run_app, lex_value by exact Hv.
  cbn [app]. lstep. cbn [N.eqb Pos.eqb]. reflexivity.
Qed.

Lemma lex_attrs_after attrs : Forall attr_ok attrs -> forall toks txt n a,
  lex_run (mkL toks txt (LAfterVal n a)) (flat_map ser_attr attrs ++ [62]%N)
  = mkL (toks ++ [TText txt; TOpen n (a ++ attrs)]) [] LText.
Proof.
  induction 1 as [|x attrs Hx _ IH]; intros toks txt n a.
  - cbn [flat_map app]. lstep. cbn [N.eqb Pos.eqb]. rewrite lex_run_nil, app_nil_r. reflexivity.
  - cbn [flat_map]. unfold ser_attr at 1. rewrite <- !app_assoc.
    cbn [app]. lstep. cbn [N.eqb Pos.eqb]. cbn [app].
    rewrite lex_one_attr by exact Hx.
    rewrite IH, <- app_assoc. reflexivity.
Qed.

Lemma lex_open_tag toks txt n attrs : name_ok n -> Forall attr_ok attrs ->
  lex_run (mkL toks txt LText) (ser_tok (TOpen n attrs))
  = mkL (toks ++ [TText txt; TOpen n attrs]) [] LText.
Proof.
  intros [Hne Hn] Ha. destruct n as [|c n]; [congruence|].
  cbn [forallb] in Hn. apply andb_true_iff in Hn as [Hc Hn].
  assert (H47 : N.eqb c 47 = false).
  { apply N.eqb_neq. intros ->. discriminate Hc. }
  cbn [ser_tok app].
  lstep. cbn [N.eqb Pos.eqb]. lstep. rewrite H47, Hc.
  rewrite lex_run_app, lex_open_name by exact Hn. cbn [app].
  destruct Ha as [|x attrs Hx Ha].
  - cbn [flat_map app]. lstep. change (is_name_char 62) with false. cbn [N.eqb Pos.eqb].
    rewrite lex_run_nil. reflexivity.
  - cbn [flat_map]. unfold ser_attr at 1. rewrite <- !app_assoc.
    cbn [app]. lstep. change (is_name_char 32) with false. cbn [N.eqb Pos.eqb]. cbn [app].
    rewrite lex_one_attr by exact Hx.
    rewrite lex_attrs_after by exact Ha. reflexivity.
Qed.

Lemma lex_close_tag toks txt n : name_ok n ->
  lex_run (mkL toks txt LText) (ser_tok (TClose n))
  = mkL (toks ++ [TText txt; TClose n]) [] LText.
Proof.
  intros [Hne Hn].
  cbn [ser_tok app].
  lstep. cbn [N.eqb Pos.eqb]. lstep. cbn [N.eqb Pos.eqb].
  rewrite lex_run_app, lex_close_name by exact Hn. cbn [app].
  lstep. change (is_name_char 62) with false. cbn [N.eqb Pos.eqb].
  rewrite lex_run_nil. destruct n; [congruence | reflexivity].
Qed.

(* ================================================================== *)
(* Part C: documents over the fixed vocabulary                         *)
(* ================================================================== *)

(* The element and attribute names the template can produce, as a type, so
   that "every name is well formed" needs no side condition. *)
Inductive ename := Etable | Ecaption | Ethead | Etbody | Etr | Eth | Etd.
Inductive aname := Aclass | Aid.

Definition ename_b (e : ename) : bytes :=
  match e with
  | Etable => Names.table | Ecaption => Names.caption | Ethead => Names.thead
  | Etbody => Names.tbody | Etr => Names.tr | Eth => Names.th | Etd => Names.td
  end.
Definition aname_b (a : aname) : bytes :=
  match a with Aclass => Names.class | Aid => Names.id end.

Inductive dtag := DOpen (e : ename) (attrs : list (aname * bytes)) | DClose (e : ename).

(* a tag together with the text that precedes it *)
Definition ditem := (bytes * dtag)%type.

(* tokens of an item, every string passed through f (the escaper, or what
   decoding the escaped string gives back) *)
Definition attr_of (f : bytes -> bytes) (a : aname * bytes) : bytes * bytes := (aname_b (fst a), f (snd a)).
Definition tok_of (f : bytes -> bytes) (t : dtag) : tok :=
  match t with
  | DOpen e a => TOpen (ename_b e) (map (attr_of f) a)
  | DClose e => TClose (ename_b e)
  end.
Definition item_toks (f : bytes -> bytes) (i : ditem) : list tok := [TText (f (fst i)); tok_of f (snd i)].
Definition flat (f : bytes -> bytes) (I : list ditem) : list tok := flat_map (item_toks f) I.

Lemma ename_ok e : name_ok (ename_b e).
Proof. destruct e; (split; [discriminate | reflexivity]). Qed.
Lemma aname_ok a : name_ok (aname_b a).
Proof. destruct a; (split; [discriminate | reflexivity]). Qed.

Lemma attrs_ok a : Forall attr_ok (map (attr_of html_replacer) a).
Proof.
  induction a as [|x a IH]; constructor; [|exact IH].
  split; [apply aname_ok | apply replacer_raw_ok].
Qed.

Lemma lex_tok_of toks txt t :
  lex_run (mkL toks txt LText) (ser_tok (tok_of html_replacer t))
  = mkL (toks ++ [TText txt; tok_of html_replacer t]) [] LText.
Proof.
  destruct t as [e a|e]; cbn [tok_of].
  - apply lex_open_tag; [apply ename_ok | apply attrs_ok].
  - apply lex_close_tag, ename_ok.
Qed.

Lemma ser_app a b : ser (a ++ b) = ser a ++ ser b.
Proof. apply flat_map_app. Qed.

(* G1: the lexer reads an escaped document back token by token *)
Lemma lex_flat I : forall toks,
  lex_run (mkL toks [] LText) (ser (flat html_replacer I)) = mkL (toks ++ flat html_replacer I) [] LText.
Proof.
  induction I as [|[p t] I IH]; intros toks.
  - cbn. rewrite app_nil_r. reflexivity.
  - unfold flat. cbn [flat_map]. fold (flat html_replacer I). rewrite ser_app.
    unfold item_toks at 1. cbn [fst snd]. unfold ser at 1. cbn [flat_map ser_tok]. rewrite app_nil_r.
    rewrite <- !app_assoc. rewrite lex_run_app, lex_text by apply replacer_raw_ok.
    rewrite lex_run_app, lex_tok_of. cbn [app]. rewrite IH, <- app_assoc. reflexivity.
Qed.

Lemma lex_document I tl :
  lex (ser (flat html_replacer I ++ [TText (html_replacer tl)]))
  = Some (flat html_replacer I ++ [TText (html_replacer tl)]).
Proof.
  unfold lex. rewrite ser_app. unfold lex_init. rewrite lex_run_app, lex_flat. cbn [app].
  unfold ser. cbn [flat_map ser_tok]. rewrite app_nil_r.
  rewrite lex_text by apply replacer_raw_ok. cbn [l_mode l_toks l_text app]. reflexivity.
Qed.

(* G2: decoding gives the strings back, NUL as U+FFFD *)
Lemma decode_attrs_of a :
  decode_attrs (map (attr_of html_replacer) a) = Some (map (attr_of nul_subst) a).
Proof.
  induction a as [|[n v] a IH]; [reflexivity|].
  cbn [map]. change (attr_of html_replacer (n, v)) with (aname_b n, html_replacer v).
  cbn [decode_attrs]. rewrite decode_replacer, IH. reflexivity.
Qed.

Lemma decode_tok_of t : decode_tok (tok_of html_replacer t) = Some (tok_of nul_subst t).
Proof.
  destruct t as [e a|e]; cbn [tok_of decode_tok]; [|reflexivity].
  rewrite decode_attrs_of. reflexivity.
Qed.

Lemma decode_toks_app a b a' b' :
  decode_toks a = Some a' -> decode_toks b = Some b' -> decode_toks (a ++ b) = Some (a' ++ b').
Proof.
  revert a'. induction a as [|t a IH]; intros a' Ha Hb.
  - inversion Ha. exact Hb.
  - cbn [decode_toks app] in *. destruct (decode_tok t) as [t'|]; [|discriminate].
    destruct (decode_toks a) as [r|]; [|discriminate]. inversion Ha; subst.
    rewrite (IH r eq_refl Hb). reflexivity.
Qed.

Lemma decode_flat I : decode_toks (flat html_replacer I) = Some (flat nul_subst I).
Proof.
  induction I as [|[p t] I IH]; [reflexivity|].
  unfold flat. cbn [flat_map]. fold (flat html_replacer I). fold (flat nul_subst I).
  apply decode_toks_app; [|exact IH].
  unfold item_toks. cbn [fst snd decode_toks decode_tok]. rewrite decode_replacer, decode_tok_of. reflexivity.
Qed.

(* G1 + G2 + the comparison form *)
Lemma tokenize_document I tl :
  tokenize (ser (flat html_replacer I ++ [TText (html_replacer tl)]))
  = Some (norm false (flat nul_subst I ++ [TText (nul_subst tl)])).
Proof.
  unfold tokenize. rewrite lex_document.
  rewrite (decode_toks_app _ _ _ [TText (nul_subst tl)] (decode_flat I)).
  - reflexivity.
  - cbn [decode_toks decode_tok]. rewrite decode_replacer. reflexivity.
Qed.

(* ================================================================== *)
(* Part D: the document a render produces                              *)
(* ================================================================== *)

Definition ws1 : bytes := [10]%N.
Definition ws2 : bytes := [10; 32; 32]%N.
Definition ws4 : bytes := [10; 32; 32; 32; 32]%N.

Definition d_opt (n : aname) (v : bytes) : list (aname * bytes) :=
  match v with [] => [] | _ => [(n, v)] end.
Definition d_cls (c : option bytes) : list (aname * bytes) :=
  match c with Some c => [(Aclass, c)] | None => [] end.
Definition d_cell (e : ename) (c : bytes) : list ditem := [([], DOpen e []); (c, DClose e)].
Definition d_cells (e : ename) (texts : list bytes) : list ditem := flat_map (d_cell e) texts.
Definition d_row (e : ename) (texts : list bytes) (c : option bytes) : list ditem :=
  (ws4, DOpen Etr (d_cls c)) :: d_cells e texts ++ [([], DClose Etr)].
Definition d_caption (c : bytes) : list ditem :=
  match c with [] => [] | _ => [(ws2, DOpen Ecaption []); (c, DClose Ecaption)] end.
Definition d_body (rows : list (list bytes * option bytes)) : list ditem :=
  flat_map (fun r => d_row Etd (fst r) (snd r)) rows.

Definition ditems (y : html_spec_in) : list ditem :=
  let body := nonsep (s_rows y) in
  match row_classes y (S (length body)) with
  | [] => []
  | hc :: bcs =>
      [([], DOpen Etable (d_opt Aclass (s_class y) ++ d_opt Aid (s_id y)))]
      ++ d_caption (s_caption y)
      ++ [(ws2, DOpen Ethead [])]
      ++ d_row Eth (s_header y) hc
      ++ [(ws2, DClose Ethead); (ws2, DOpen Etbody [])]
      ++ d_body (combine body bcs)
      ++ [(ws2, DClose Etbody); (ws1, DClose Etable)]
  end.

Notation R := html_replacer (only parsing).
Definition sf (I : list ditem) : bytes := ser (flat html_replacer I).

Lemma sf_nil : sf [] = [].
Proof. reflexivity. Qed.

Lemma sf_cons p t I : sf ((p, t) :: I) = html_replacer p ++ ser_tok (tok_of html_replacer t) ++ sf I.
Proof.
  unfold sf, flat. cbn [flat_map]. rewrite ser_app. unfold item_toks, ser at 1.
  cbn [flat_map ser_tok fst snd]. rewrite app_nil_r, <- app_assoc. reflexivity.
Qed.

Lemma sf_app a b : sf (a ++ b) = sf a ++ sf b.
Proof. unfold sf, flat. rewrite flat_map_app. apply ser_app. Qed.

Lemma cells_bytes_td texts :
  tpl_cells Tpl.td_open Tpl.td_close texts = sf (d_cells Etd texts).
Proof.
  induction texts as [|c texts IH]; [reflexivity|].
  cbn [tpl_cells d_cells flat_map]. fold (d_cells Etd texts). unfold d_cell. cbn [app].
  rewrite !sf_cons, <- IH. unfold html_escape. cbn. reflexivity.
Qed.

Lemma cells_bytes_th texts :
  tpl_cells Tpl.th_open Tpl.th_close texts = sf (d_cells Eth texts).
Proof.
  induction texts as [|c texts IH]; [reflexivity|].
  cbn [tpl_cells d_cells flat_map]. fold (d_cells Eth texts). unfold d_cell. cbn [app].
  rewrite !sf_cons, <- IH. unfold html_escape. cbn. reflexivity.
Qed.

Definition cls_bytes (c : option bytes) : bytes :=
  match c with Some v => Tpl.class_open ++ attr_escape v ++ Tpl.quote | None => [] end.

Lemma row_bytes_td texts c rest :
  Tpl.tr_open ++ cls_bytes c ++ Tpl.gt ++ tpl_cells Tpl.td_open Tpl.td_close texts ++ Tpl.tr_close ++ rest
  = sf (d_row Etd texts c) ++ rest.
Proof.
  unfold d_row. rewrite sf_cons, sf_app, sf_cons, cells_bytes_td. change (sf []) with (@nil N).
  generalize (sf (d_cells Etd texts)). intros cells.
  destruct c as [v|]; unfold cls_bytes, attr_escape; cbn; rewrite <- ?app_assoc; cbn; reflexivity.
Qed.

Definition bclasses (have : bool) (rcs : list bytes) (n : nat) : list (option bytes) :=
  if have then map Some rcs else repeat None n.

Definition rows_texts (rows : list vrow) : list (option (list bytes)) := map (option_map row_texts) rows.

Lemma tpl_rows_eq have rows : forall i rcs,
  (have = true -> length (nonsep (rows_texts rows)) <= length rcs) ->
  tpl_rows have i rows rcs
  = Ok (sf (d_body (combine (nonsep (rows_texts rows))
                            (bclasses have rcs (length (nonsep (rows_texts rows)))))),
        if have then positions_from (S i) (rows_texts rows) else []).
Proof.
  induction rows as [|[cells|] rows IH]; intros i rcs Hfit.
  - cbn. destruct have; reflexivity.
  - cbn [tpl_rows rows_texts map option_map nonsep flat_map app length positions_from] in *.
    fold (rows_texts rows) in *. fold (nonsep (rows_texts rows)) in *.
    destruct have.
    + destruct rcs as [|c rcs]; [specialize (Hfit eq_refl); cbn in Hfit; lia|].
      cbn [tpl_row_class bind]. rewrite IH by (intros _; specialize (Hfit eq_refl); cbn in Hfit; lia).
      cbn [bind bclasses map combine d_body flat_map fst snd].
      f_equal. f_equal.
      change (Tpl.class_open ++ attr_escape c ++ Tpl.quote) with (cls_bytes (Some c)).
      rewrite row_bytes_td, sf_app. reflexivity.
    + cbn [tpl_row_class bind]. rewrite IH by discriminate.
      cbn [bind bclasses repeat combine d_body flat_map fst snd].
      f_equal. f_equal.
      change (@nil N) with (cls_bytes None) at 1.
      rewrite row_bytes_td, sf_app. reflexivity.
  - cbn [tpl_rows rows_texts map option_map nonsep flat_map app length positions_from] in *.
    fold (rows_texts rows) in *. fold (nonsep (rows_texts rows)) in *.
    apply IH. exact Hfit.
Qed.

Lemma with_class v :
  tpl_with v Tpl.class_open Tpl.quote attr_escape
  = flat_map ser_attr (map (attr_of html_replacer) (d_opt Aclass v)).
Proof.
  destruct v as [|b l]; [reflexivity|].
  unfold tpl_with, d_opt, attr_escape. cbn [map flat_map]. unfold attr_of. cbn [fst snd].
  generalize (html_replacer (b :: l)). intros e. cbn. rewrite <- ?app_assoc. reflexivity.
Qed.

Lemma with_id v :
  tpl_with v Tpl.id_open Tpl.quote attr_escape
  = flat_map ser_attr (map (attr_of html_replacer) (d_opt Aid v)).
Proof.
  destruct v as [|b l]; [reflexivity|].
  unfold tpl_with, d_opt, attr_escape. cbn [map flat_map]. unfold attr_of. cbn [fst snd].
  generalize (html_replacer (b :: l)). intros e. cbn. rewrite <- ?app_assoc. reflexivity.
Qed.

Lemma with_caption v :
  tpl_with v Tpl.caption_open Tpl.caption_close html_escape = sf (d_caption v).
Proof.
  destruct v as [|b l]; [reflexivity|].
  unfold tpl_with, d_caption, html_escape. rewrite !sf_cons. change (sf []) with (@nil N).
  generalize (html_replacer (b :: l)). intros e. cbn. rewrite <- ?app_assoc. reflexivity.
Qed.

Lemma top_bytes cls id cap rest :
  Tpl.table_open
    ++ tpl_with cls Tpl.class_open Tpl.quote attr_escape
    ++ tpl_with id Tpl.id_open Tpl.quote attr_escape
    ++ Tpl.gt
    ++ tpl_with cap Tpl.caption_open Tpl.caption_close html_escape
    ++ rest
  = sf (([], DOpen Etable (d_opt Aclass cls ++ d_opt Aid id)) :: d_caption cap) ++ rest.
Proof.
  rewrite sf_cons, with_class, with_id, with_caption.
  cbn [tok_of ser_tok]. rewrite map_app, flat_map_app.
  generalize (flat_map ser_attr (map (attr_of html_replacer) (d_opt Aclass cls))).
  generalize (flat_map ser_attr (map (attr_of html_replacer) (d_opt Aid id))).
  generalize (sf (d_caption cap)). intros a b c.
  cbn. rewrite <- ?app_assoc. cbn. rewrite <- ?app_assoc. reflexivity.
Qed.

Lemma head_bytes texts c rest :
  Tpl.thead_tr ++ cls_bytes c ++ Tpl.gt
    ++ tpl_cells Tpl.th_open Tpl.th_close texts
    ++ Tpl.thead_end ++ rest
  = sf ((ws2, DOpen Ethead []) :: d_row Eth texts c ++ [(ws2, DClose Ethead); (ws2, DOpen Etbody [])]) ++ rest.
Proof.
  unfold d_row. cbn [app]. rewrite !sf_cons, !sf_app, !sf_cons, cells_bytes_th. change (sf []) with (@nil N).
  generalize (sf (d_cells Eth texts)). intros cells.
  destruct c as [v|]; unfold cls_bytes, attr_escape; cbn; rewrite <- ?app_assoc; cbn; reflexivity.
Qed.

Lemma foot_bytes :
  Tpl.table_end = sf [(ws2, DClose Etbody); (ws1, DClose Etable)] ++ html_replacer ws1.
Proof. reflexivity. Qed.

Lemma body_rows_nonsep rows :
  length (flat_map (fun r : vrow => match r with Some cs => [cs] | None => [] end) rows)
  = length (nonsep (rows_texts rows)).
Proof.
  induction rows as [|[cs|] rows IH]; cbn [flat_map rows_texts map option_map nonsep app length] in *;
    [reflexivity | f_equal; exact IH | exact IH].
Qed.

(* what the model computes, in closed form *)
Lemma html_exec_eq x : rc_fit x ->
  html_exec x = Ok (ser (flat html_replacer (ditems (spec_of x)) ++ [TText (html_replacer ws1)]),
                    expected_calls (spec_of x)).
Proof.
  destruct x as [id cls cap have rcs v]. unfold rc_fit, html_exec, body_rows.
  cbn [h_id h_class h_caption h_have_rc h_rcs h_view]. rewrite body_rows_nonsep. intros Hfit.
  rewrite ser_app. fold (sf (ditems (spec_of (mkHtmlIn id cls cap have rcs v)))).
  unfold ser at 1. cbn [flat_map ser_tok]. rewrite app_nil_r.
  unfold ditems, expected_calls, spec_of, row_classes.
  cbn [h_id h_class h_caption h_have_rc h_rcs h_view s_id s_class s_caption s_have_rc s_rcs s_header s_rows].
  fold (rows_texts (v_rows v)).
  destruct have.
  - specialize (Hfit eq_refl). destruct rcs as [|c rcs]; [cbn in Hfit; lia|]. cbn [length] in Hfit.
    cbn [tpl_row_class bind]. rewrite tpl_rows_eq by (intros _; lia). cbn [bind bclasses map].
    f_equal. f_equal.
    change (Tpl.class_open ++ attr_escape c ++ Tpl.quote) with (cls_bytes (Some c)).
    rewrite top_bytes, head_bytes, foot_bytes. cbn [app].
    rewrite !app_comm_cons, !sf_app, <- !app_assoc. reflexivity.
  - cbn [tpl_row_class bind]. rewrite tpl_rows_eq by discriminate. cbn [bind bclasses repeat].
    f_equal. f_equal.
    match goal with |- context [ Tpl.thead_tr ++ [] ++ ?r ] =>
      change (Tpl.thead_tr ++ [] ++ r) with (Tpl.thead_tr ++ cls_bytes None ++ r) end.
    rewrite top_bytes, head_bytes, foot_bytes. cbn [app].
    rewrite !app_comm_cons, !sf_app, <- !app_assoc. reflexivity.
Qed.

(* ================================================================== *)
(* Part E: the comparison form of that document is the skeleton        *)
(* ================================================================== *)

Notation NS := nul_subst (only parsing).
Definition nf (I : list ditem) : list tok := flat nul_subst I.

Lemma nf_app a b : nf (a ++ b) = nf a ++ nf b.
Proof. apply flat_map_app. Qed.

Lemma nf_cons p t I : nf ((p, t) :: I) = TText (nul_subst p) :: tok_of nul_subst t :: nf I.
Proof. reflexivity. Qed.

Lemma nul_subst_nil_iff s : nul_subst s = [] <-> s = [].
Proof.
  split; [|intros ->; reflexivity].
  destruct s as [|b s]; [reflexivity|]. rewrite nul_subst_cons. unfold nul_byte.
  destruct (N.eqb b 0); discriminate.
Qed.

Lemma opt_attr_subst a v :
  map (attr_of nul_subst) (d_opt a v) = opt_attr (aname_b a) (nul_subst v).
Proof.
  destruct v as [|b l]; [reflexivity|]. unfold d_opt, opt_attr. cbn [map]. unfold attr_of. cbn [fst snd].
  destruct (nul_subst (b :: l)) eqn:E; [apply (proj1 (nul_subst_nil_iff (b :: l))) in E; discriminate E | reflexivity].
Qed.

Lemma cls_subst c :
  map (attr_of nul_subst) (d_cls c)
  = match option_map nul_subst c with Some c' => [(Names.class, c')] | None => [] end.
Proof. destruct c; reflexivity. Qed.

(* cells of a content element: the empty text before <td> is dropped, the
   text before </td> is the content and is kept *)
Lemma norm_cells e texts rest : content_elem (ename_b e) = true ->
  norm false (nf (d_cells e texts) ++ rest)
  = flat_map (elem (ename_b e)) (map nul_subst texts) ++ norm false rest.
Proof.
  intros He. induction texts as [|c texts IH]; [reflexivity|].
  cbn [d_cells flat_map]. fold (d_cells e texts). unfold d_cell. cbn [app].
  rewrite !nf_cons. cbn [app tok_of map norm]. rewrite He.
  change (nul_subst []) with (@nil N). cbn [forallb negb orb app].
  rewrite IH. reflexivity.
Qed.

Lemma norm_row e texts c rest : content_elem (ename_b e) = true ->
  norm false (nf (d_row e texts c) ++ rest)
  = row_toks (ename_b e) (map nul_subst texts) (option_map nul_subst c) ++ norm false rest.
Proof.
  intros He. unfold d_row, row_toks. cbn [app]. rewrite nf_cons, nf_app. cbn [app tok_of norm].
  change (negb (forallb is_ws (nul_subst ws4))) with false.
  change (content_elem (ename_b Etr)) with false. cbn [orb app].
  rewrite cls_subst. rewrite <- app_assoc, norm_cells by exact He.
  rewrite nf_cons. cbn [nf flat flat_map app tok_of norm].
  change (nul_subst []) with (@nil N). cbn [forallb negb orb app].
  rewrite <- app_assoc. reflexivity.
Qed.

Lemma norm_caption c rest :
  norm false (nf (d_caption c) ++ rest)
  = match nul_subst c with [] => [] | c' => elem Names.caption c' end ++ norm false rest.
Proof.
  destruct c as [|b l]; [reflexivity|]. unfold d_caption. rewrite !nf_cons.
  destruct (nul_subst (b :: l)) eqn:E; [apply (proj1 (nul_subst_nil_iff (b :: l))) in E; discriminate E|].
  cbn [nf flat flat_map app tok_of norm map].
  change (negb (forallb is_ws (nul_subst ws2))) with false.
  change (content_elem (ename_b Ecaption)) with true. cbn [orb app]. reflexivity.
Qed.

Definition subst_row (r : list bytes * option bytes) : list bytes * option bytes :=
  (map nul_subst (fst r), option_map nul_subst (snd r)).

Lemma norm_body rows rest :
  norm false (nf (d_body rows) ++ rest)
  = concat (map (fun '(texts, c) => row_toks Names.td texts c) (map subst_row rows)) ++ norm false rest.
Proof.
  induction rows as [|[t c] rows IH]; [reflexivity|].
  cbn [d_body flat_map fst snd]. fold (d_body rows). rewrite nf_app, <- app_assoc.
  rewrite norm_row by reflexivity. rewrite IH. cbn [map concat subst_row fst snd].
  rewrite <- app_assoc. reflexivity.
Qed.

Lemma combine_map {A B C D} (f : A -> C) (g : B -> D) (a : list A) (b : list B) :
  combine (map f a) (map g b) = map (fun p => (f (fst p), g (snd p))) (combine a b).
Proof.
  revert b. induction a as [|x a IH]; intros [|y b]; cbn [map combine fst snd]; try reflexivity.
  rewrite IH. reflexivity.
Qed.

Lemma nonsep_subst rows :
  nonsep (map (option_map (map nul_subst)) rows) = map (map nul_subst) (nonsep rows).
Proof.
  induction rows as [|[r|] rows IH]; cbn [map option_map nonsep flat_map app] in *; [reflexivity| |exact IH].
  f_equal. exact IH.
Qed.

Lemma row_classes_subst y n :
  row_classes (spec_nul_subst y) n = map (option_map nul_subst) (row_classes y n).
Proof.
  unfold row_classes, spec_nul_subst. cbn [s_have_rc s_rcs]. destruct (s_have_rc y).
  - rewrite !map_map. reflexivity.
  - induction n; cbn [repeat map option_map]; [reflexivity | f_equal; assumption].
Qed.

Definition keep_after (t : dtag) : bool :=
  match t with DOpen e _ => content_elem (ename_b e) | DClose _ => false end.

Lemma norm_ws_item p t I rest : forallb is_ws (nul_subst p) = true ->
  norm false (nf ((p, t) :: I) ++ rest) = tok_of nul_subst t :: norm (keep_after t) (nf I ++ rest).
Proof.
  intros H. rewrite nf_cons. cbn [app norm]. rewrite H. cbn [negb orb app]. destruct t; reflexivity.
Qed.

Lemma norm_document y :
  norm false (flat nul_subst (ditems y) ++ [TText (nul_subst ws1)]) = skeleton (spec_nul_subst y).
Proof.
  unfold skeleton, ditems. rewrite row_classes_subst.
  cbn [spec_nul_subst s_rows s_id s_class s_caption s_header].
  rewrite nonsep_subst, map_length.
  destruct (row_classes y (S (length (nonsep (s_rows y))))) as [|hc bcs]; [reflexivity|].
  cbn [map]. fold nf. cbn [app].
  rewrite norm_ws_item by reflexivity. cbn [tok_of keep_after].
  change (content_elem (ename_b Etable)) with false.
  rewrite map_app, !opt_attr_subst. f_equal.
  rewrite nf_app, <- app_assoc, norm_caption. f_equal.
  rewrite norm_ws_item by reflexivity. cbn [tok_of keep_after map].
  change (content_elem (ename_b Ethead)) with false. f_equal.
  rewrite nf_app, <- app_assoc, norm_row by reflexivity. f_equal.
  rewrite norm_ws_item by reflexivity. cbn [tok_of keep_after map]. f_equal.
  rewrite norm_ws_item by reflexivity. cbn [tok_of keep_after map].
  change (content_elem (ename_b Etbody)) with false. f_equal.
  rewrite nf_app, <- app_assoc, norm_body, combine_map. f_equal.
Qed.

(* ================================================================== *)
(* Part F: the theorems                                                *)
(* ================================================================== *)

Definition html_nul_free (x : html_in) : Prop := spec_nul_free (spec_of x).

Lemma map_nul_subst_free l : Forall nul_free l -> map nul_subst l = l.
Proof.
  induction 1 as [|s l Hs _ IH]; [reflexivity|]. cbn [map]. rewrite nul_subst_free, IH by exact Hs. reflexivity.
Qed.

Lemma rows_nul_subst_free rows :
  Forall nul_free (concat (nonsep rows)) -> map (option_map (map nul_subst)) rows = rows.
Proof.
  induction rows as [|[r|] rows IH]; cbn [map option_map nonsep flat_map app concat]; intros H.
  - reflexivity.
  - apply Forall_app in H as [Hr H]. fold (nonsep rows) in H. rewrite map_nul_subst_free, IH by assumption. reflexivity.
  - fold (nonsep rows) in H. rewrite IH by assumption. reflexivity.
Qed.

Lemma spec_nul_subst_free y : spec_nul_free y -> spec_nul_subst y = y.
Proof.
  destruct y as [id cls cap have rcs hd rows]. unfold spec_nul_free, spec_strings, spec_nul_subst.
  cbn [s_id s_class s_caption s_have_rc s_rcs s_header s_rows]. intros H.
  inversion H as [|? ? Hid H1]; subst. inversion H1 as [|? ? Hcls H2]; subst.
  inversion H2 as [|? ? Hcap H3]; subst.
  apply Forall_app in H3 as [Hrcs H4]. apply Forall_app in H4 as [Hhd Hrows].
  rewrite !nul_subst_free, !map_nul_subst_free, rows_nul_subst_free by assumption. reflexivity.
Qed.

(* every render of the model tokenizes to the skeleton; a NUL in a supplied
   string is read back as U+FFFD *)
Theorem html_tokens_general x : rc_fit x ->
  exists out, html_render x = Ok out
              /\ tokenize out = Some (skeleton (spec_nul_subst (spec_of x))).
Proof.
  intros Hfit. unfold html_render. rewrite html_exec_eq by exact Hfit. cbn [bind fst].
  eexists; split; [reflexivity|].
  rewrite tokenize_document, norm_document. reflexivity.
Qed.

Theorem html_tokens x : rc_fit x -> html_nul_free x ->
  exists out, html_render x = Ok out /\ tokenize out = Some (skeleton (spec_of x)).
Proof.
  intros Hfit Hnul. destruct (html_tokens_general x Hfit) as (out & Ho & Ht).
  exists out. split; [exact Ho|]. rewrite Ht, spec_nul_subst_free by exact Hnul. reflexivity.
Qed.

Theorem html_calls x : rc_fit x -> html_rc_calls x = Ok (expected_calls (spec_of x)).
Proof.
  intros Hfit. unfold html_rc_calls. rewrite html_exec_eq by exact Hfit. reflexivity.
Qed.

Theorem html_calls_unset x : h_have_rc x = false -> html_rc_calls x = Ok [].
Proof.
  intros H. rewrite html_calls.
  - unfold expected_calls, spec_of. cbn [s_have_rc]. rewrite H. reflexivity.
  - unfold rc_fit. rewrite H. discriminate.
Qed.

Theorem html_no_panic x : rc_fit x -> exists r, html_exec x = Ok r.
Proof. intros Hfit. rewrite html_exec_eq by exact Hfit. eexists. reflexivity. Qed.

(* the expected call list, read as positions: 0, then i+1 for every index i
   of AllRows() that holds a non-separator *)
Lemma positions_from_spec i rows n :
  In n (positions_from i rows) <-> exists k cells, nth_error rows k = Some (Some cells) /\ n = i + k.
Proof.
  revert i. induction rows as [|[r|] rows IH]; intros i; cbn [positions_from].
  - split; [intros [] | intros (k & c & H & _); destruct k; discriminate].
  - cbn [In]. rewrite IH. split.
    + intros [<-|(k & c & H & ->)]; [exists 0, r; split; [reflexivity | lia] | exists (S k), c; split; [exact H | lia]].
    + intros (k & c & H & ->). destruct k as [|k]; [left; lia | right; exists k, c; split; [exact H | lia]].
  - rewrite IH. split.
    + intros (k & c & H & ->). exists (S k), c; split; [exact H | lia].
    + intros (k & c & H & ->). destruct k as [|k]; [discriminate | exists k, c; split; [exact H | lia]].
Qed.

Lemma positions_from_sorted i rows : Sorted.StronglySorted lt (positions_from i rows)
  /\ Forall (fun n => i <= n) (positions_from i rows).
Proof.
  revert i. induction rows as [|[r|] rows IH]; intros i; cbn [positions_from].
  - split; constructor.
  - destruct (IH (S i)) as [Hs Hf]. split.
    + constructor; [exact Hs|]. eapply Forall_impl; [|exact Hf]. cbn. intros; lia.
    + constructor; [lia|]. eapply Forall_impl; [|exact Hf]. cbn. intros; lia.
  - destruct (IH (S i)) as [Hs Hf]. split; [exact Hs|]. eapply Forall_impl; [|exact Hf]. cbn. intros; lia.
Qed.

(* ================================================================== *)
(* Part G: the spec's own parser is faithful                           *)
(* ================================================================== *)

(* Whatever the lexer accepts is, byte for byte, the printed form of the
   tokens it returns: nothing is skipped, reordered or invented.  (So an
   accepted output contains a < or > only as a tag delimiter and a double
   quote only around an attribute value.) *)

Definition open_prefix (n : bytes) (a : list (bytes * bytes)) : bytes :=
  ([60] ++ n ++ flat_map ser_attr a)%N.

Definition pend (m : lmode) : bytes :=
  match m with
  | LText => []
  | LLt => [60]
  | LOpenName n => [60] ++ n
  | LSpace n a => open_prefix n a ++ [32]
  | LAttrName n a an => open_prefix n a ++ [32] ++ an
  | LEq n a an => open_prefix n a ++ [32] ++ an ++ [61]
  | LVal n a an v => open_prefix n a ++ [32] ++ an ++ [61; 34] ++ v
  | LAfterVal n a => open_prefix n a
  | LCloseName n => [60; 47] ++ n
  | LFail => []
  end%N.

Definition st_bytes (s : lst) : bytes := ser (l_toks s) ++ l_text s ++ pend (l_mode s).

Ltac norm_bytes :=
  unfold st_bytes; cbn [l_toks l_text l_mode pend]; unfold open_prefix;
  rewrite ?ser_app; unfold ser; cbn [flat_map ser_tok]; unfold ser_attr;
  rewrite ?flat_map_app; cbn [flat_map fst snd];
  repeat rewrite <- app_assoc; cbn [app]; rewrite ?app_nil_r;
  repeat rewrite <- app_assoc; cbn [app]; try reflexivity.

Lemma lex_step_bytes s b :
  l_mode (lex_step s b) <> LFail -> st_bytes (lex_step s b) = st_bytes s ++ [b].
Proof.
  destruct s as [toks txt m]. unfold lex_step. cbn [l_mode l_toks l_text].
  destruct m as [| |n|n a|n a an|n a an|n a an v|n a|n|].
  - destruct (N.eqb_spec b 60) as [->|_]; [intros _; norm_bytes|].
    destruct (raw_ok b); [intros _; norm_bytes | intros H; contradiction H; reflexivity].
  - destruct (N.eqb_spec b 47) as [->|_]; [intros _; norm_bytes|].
    destruct (is_name_char b); [intros _; norm_bytes | intros H; contradiction H; reflexivity].
  - destruct (is_name_char b); [intros _; norm_bytes|].
    destruct (N.eqb_spec b 32) as [->|_]; [intros _; norm_bytes|].
    destruct (N.eqb_spec b 62) as [->|_]; [intros _; norm_bytes | intros H; contradiction H; reflexivity].
  - destruct (is_name_char b); [intros _; norm_bytes | intros H; contradiction H; reflexivity].
  - destruct (is_name_char b); [intros _; norm_bytes|].
    destruct (N.eqb_spec b 61) as [->|_]; [intros _; norm_bytes | intros H; contradiction H; reflexivity].
  - destruct (N.eqb_spec b 34) as [->|_]; [intros _; norm_bytes | intros H; contradiction H; reflexivity].
  - destruct (N.eqb_spec b 34) as [->|_]; [intros _; norm_bytes|].
    destruct (raw_ok b); [intros _; norm_bytes | intros H; contradiction H; reflexivity].
  - destruct (N.eqb_spec b 32) as [->|_]; [intros _; norm_bytes|].
    destruct (N.eqb_spec b 62) as [->|_]; [intros _; norm_bytes | intros H; contradiction H; reflexivity].
  - destruct (is_name_char b); [intros _; norm_bytes|].
    destruct (N.eqb_spec b 62) as [->|_]; [|intros H; contradiction H; reflexivity].
    destruct n; [intros H; contradiction H; reflexivity | intros _; norm_bytes].
  - intros H; contradiction H; reflexivity.
Qed.

Lemma lex_run_fail l : forall s, l_mode s = LFail -> l_mode (lex_run s l) = LFail.
Proof.
  induction l as [|b l IH]; intros s H; [exact H|].
  rewrite lex_run_cons. apply IH. unfold lex_step. rewrite H. exact H.
Qed.

Lemma lex_run_bytes l : forall s,
  l_mode (lex_run s l) <> LFail -> st_bytes (lex_run s l) = st_bytes s ++ l.
Proof.
  induction l as [|b l IH]; intros s H.
  - rewrite lex_run_nil, app_nil_r. reflexivity.
  - rewrite lex_run_cons in *. rewrite IH by exact H.
    rewrite lex_step_bytes.
    + rewrite <- app_assoc. reflexivity.
    + intros E. apply H. apply lex_run_fail. exact E.
Qed.

Theorem lex_sound out ts : lex out = Some ts -> ser ts = out.
Proof.
  unfold lex. destruct (l_mode (lex_run lex_init out)) eqn:E; try discriminate.
  intros H. inversion H; subst. clear H.
  pose proof (lex_run_bytes out lex_init) as B. rewrite E in B. specialize (B ltac:(discriminate)).
  unfold st_bytes in B. rewrite E in B. cbn [pend l_toks l_text lex_init ser flat_map app] in B.
  rewrite app_nil_r in B. rewrite ser_app. unfold ser at 2. cbn [flat_map ser_tok]. rewrite app_nil_r. exact B.
Qed.

(* Whatever the decoder accepts is a sequence of bytes other than & standing
   for themselves and of the six entities, and the result is what those stand
   for, in order. *)

Definition dec_inv (st : dstate) (w : bytes) : Prop :=
  match st with
  | None => True
  | Some (out, None) => encodes w out
  | Some (out, Some p) => exists w', w = w' ++ 38%N :: p /\ encodes w' out
  end.

Lemma ent_lookup_complete q c : ent_lookup q = EComplete c -> In (q, c) entities.
Proof.
  unfold ent_lookup. destruct (find _ entities) as [[e c']|] eqn:F.
  - intros H. inversion H; subst. apply find_some in F as [Hin Heq].
    cbn [fst snd] in *. apply bytes_eqb_eq in Heq. subst. exact Hin.
  - destruct (existsb _ entities); discriminate.
Qed.

Lemma dec_step_inv st w b : dec_inv st w -> dec_inv (dec_step st b) (w ++ [b]).
Proof.
  destruct st as [[out [p|]]|]; cbn [dec_step dec_inv]; [| |trivial].
  - intros (w' & -> & Hw). destruct (ent_lookup (p ++ [b])) as [c| |] eqn:E; cbn [dec_inv]; [| |trivial].
    + rewrite <- app_assoc. cbn [app]. change (38%N :: p ++ [b]) with (38%N :: (p ++ [b])).
      apply encodes_snoc; [exact Hw|]. apply enc_entity, ent_lookup_complete, E.
    + exists w'. split; [|exact Hw]. rewrite <- app_assoc. reflexivity.
  - intros Hw. destruct (N.eqb_spec b 38) as [->|Hb]; cbn [dec_inv].
    + exists w. split; [reflexivity | exact Hw].
    + apply encodes_snoc; [exact Hw | apply enc_plain, Hb].
Qed.

Lemma dec_run_inv l : forall st w, dec_inv st w -> dec_inv (dec_run st l) (w ++ l).
Proof.
  induction l as [|b l IH]; intros st w H.
  - rewrite app_nil_r. exact H.
  - cbn [dec_run fold_left]. fold (dec_run (dec_step st b) l).
    replace (w ++ b :: l) with ((w ++ [b]) ++ l) by (rewrite <- app_assoc; reflexivity).
    apply IH, dec_step_inv, H.
Qed.

Theorem decode_sound raw d : decode raw = Some d -> encodes raw d.
Proof.
  unfold decode. intros H.
  pose proof (dec_run_inv raw (Some ([], None)) [] encodes_nil) as I. cbn [app] in I.
  destruct (dec_run (Some ([], None)) raw) as [[out [p|]]|]; try discriminate.
  inversion H; subst. exact I.
Qed.

(* the decoder's entity table is exactly what the escaper emits: (e, c) is in
   it iff the escaper writes & e for the byte c *)
Lemma entities_exact e c : In (e, c) entities <-> esc_byte c = 38%N :: e.
Proof.
  split.
  - cbn [entities In]. intros [H|[H|[H|[H|[H|[H|[]]]]]]]; inversion H; subst; reflexivity.
  - intros H.
    destruct (esc_byte_cases c) as [->|[->|[->|[->|[->|[->|[->|(E & _ & _ & H38 & _)]]]]]]];
      try (vm_compute in H; inversion H; subst; cbn [entities In]; auto 10; fail).
    rewrite E in H. inversion H. contradiction.
Qed.

(* ---------- the decidable oracle and its reading ---------- *)

(* what the run-time check evaluates on the implementation's own output *)
Definition html_ok_b (y : html_spec_in) (out : bytes) (calls : list nat) : bool :=
  option_eqb toks_eqb (tokenize out) (Some (skeleton (spec_nul_subst y)))
  && list_eqb Nat.eqb calls (expected_calls y).

Lemma html_ok_b_spec y out calls :
  html_ok_b y out calls = true
  <-> tokenize out = Some (skeleton (spec_nul_subst y)) /\ calls = expected_calls y.
Proof.
  unfold html_ok_b. rewrite andb_true_iff.
  rewrite (option_eqb_eq toks_eqb (list_eqb_eq tok_eqb tok_eqb_eq)).
  rewrite (list_eqb_eq Nat.eqb Nat.eqb_eq). reflexivity.
Qed.

(* the oracle accepts everything the model produces *)
Theorem html_ok_model x out calls : rc_fit x ->
  html_exec x = Ok (out, calls) -> html_ok_b (spec_of x) out calls = true.
Proof.
  intros Hfit H. apply html_ok_b_spec.
  destruct (html_tokens_general x Hfit) as (out' & Ho & Ht).
  pose proof (html_calls x Hfit) as Hc.
  unfold html_render in Ho. unfold html_rc_calls in Hc. rewrite H in Ho, Hc. cbn [bind fst snd] in Ho, Hc.
  inversion Ho; subst. inversion Hc; subst. split; [exact Ht | reflexivity].
Qed.

(* a small document around one cell, for the strictness examples of Props/C06.v *)
Local Open Scope N_scope.
Definition doc (cell : list N) : list N :=
  [60; 116; 97; 98; 108; 101; 62] ++ [60; 116; 114; 62] ++ cell ++ [60; 47; 116; 114; 62]
  ++ [60; 47; 116; 97; 98; 108; 101; 62].
