(* Render passes whose callbacks change cells (Model/TextLive.v) show, at every
   render of a history, exactly the table of Spec/TextPassSpec.v. *)
From Tab Require Import Model.Text Model.TextLive Spec.TextLayout Spec.TextPassSpec
     Proofs.TextTop Proofs.TextGeom Proofs.TextProps Proofs.TextZero.

Local Open Scope nat_scope.

(* ------------------------------------------------------------ one cell *)

Lemma advance_n_add a b lc : advance_n (a + b) lc = advance_n b (advance_n a lc).
Proof. revert lc. induction a as [|a IH]; intros lc; [reflexivity|]. simpl. apply IH. Qed.

Lemma run_cell_spec evs lc s :
  run_cell evs (lc, s)
  = (advance_n (advances evs) lc,
     match before_last_measure evs with
     | Some n => Some (lc_cur (advance_n n lc))
     | None => s
     end).
Proof.
  unfold run_cell. revert lc s. induction evs as [|a evs IH]; intros lc s; [reflexivity|].
  destruct a; cbn [fold_left step_cell fst snd advances before_last_measure].
  - rewrite IH. destruct (before_last_measure evs); reflexivity.
  - rewrite IH. destruct (before_last_measure evs); reflexivity.
Qed.

(* j passes, one after the other *)
Fixpoint iter_l {A} (j : nat) (f : A -> A) (x : A) : A :=
  match j with 0 => x | S k => iter_l k f (f x) end.

Lemma iter_l_comm {A} j (f : A -> A) x : iter_l j f (f x) = f (iter_l j f x).
Proof. revert x. induction j as [|j IH]; intros x; [reflexivity|]. simpl. apply IH. Qed.

Lemma iter_cell evs j lc s :
  iter_l j (run_cell evs) (lc, s)
  = (advance_n (j * advances evs) lc,
     match j, before_last_measure evs with
     | S k, Some n => Some (lc_cur (advance_n (k * advances evs + n) lc))
     | _, _ => s
     end).
Proof.
  induction j as [|j IH]; [reflexivity|].
  cbn [iter_l]. rewrite iter_l_comm, IH, run_cell_spec. f_equal.
  - rewrite <- advance_n_add. f_equal. simpl. lia.
  - destruct (before_last_measure evs) as [n|].
    + rewrite <- advance_n_add. reflexivity.
    + destruct j; reflexivity.
Qed.

(* the cell as render j shows it *)
Lemma shown_after evs j pc :
  shown (run_cell evs (iter_l j (run_cell evs) pc)) = spec_shown evs j pc.
Proof.
  destruct pc as [lc s]. rewrite iter_cell, run_cell_spec. unfold spec_shown, shown. cbn [fst snd].
  destruct (before_last_measure evs) as [n|].
  - rewrite <- advance_n_add. reflexivity.
  - destruct j; reflexivity.
Qed.

(* ------------------------------------------------------------ the table *)

Lemma imap_cells_comp {A B C} (f : nat -> B -> C) (g : nat -> A -> B) c cs :
  imap_cells f c (imap_cells g c cs) = imap_cells (fun i x => f i (g i x)) c cs.
Proof. revert c. induction cs as [|x cs IH]; intros c; [reflexivity|]. simpl. rewrite IH. reflexivity. Qed.

Lemma imap_rows_comp {A B C} (f : nat -> nat -> B -> C) (g : nat -> nat -> A -> B) k rows :
  imap_rows f k (imap_rows g k rows) = imap_rows (fun r i x => f r i (g r i x)) k rows.
Proof.
  revert k. induction rows as [|[cs|] rows IH]; intros k; [reflexivity| |]; simpl; rewrite IH; [|reflexivity].
  rewrite imap_cells_comp. reflexivity.
Qed.

Lemma imap_cells_ext {A B} (f g : nat -> A -> B) c cs :
  (forall i x, f i x = g i x) -> imap_cells f c cs = imap_cells g c cs.
Proof. intros H. revert c. induction cs as [|x cs IH]; intros c; [reflexivity|]. simpl. rewrite H, IH. reflexivity. Qed.

Lemma imap_rows_ext {A B} (f g : nat -> nat -> A -> B) k rows :
  (forall r i x, f r i x = g r i x) -> imap_rows f k rows = imap_rows g k rows.
Proof.
  intros H. revert k. induction rows as [|[cs|] rows IH]; intros k; [reflexivity| |]; simpl; rewrite IH; [|reflexivity].
  rewrite (imap_cells_ext (f (S k)) (g (S k))) by (intros; apply H). reflexivity.
Qed.

Lemma imap_cells_id {A} c (cs : list A) : imap_cells (fun _ x => x) c cs = cs.
Proof. revert c. induction cs as [|x cs IH]; intros c; [reflexivity|]. simpl. rewrite IH. reflexivity. Qed.

Lemma imap_rows_id {A} k (rows : list (option (list A))) : imap_rows (fun _ _ x => x) k rows = rows.
Proof.
  revert k. induction rows as [|[cs|] rows IH]; intros k; [reflexivity| |]; simpl; rewrite IH; [|reflexivity].
  rewrite imap_cells_id. reflexivity.
Qed.

Lemma option_map_comp {A B C} (f : B -> C) (g : A -> B) o :
  option_map f (option_map g o) = option_map (fun x => f (g x)) o.
Proof. destruct o; reflexivity. Qed.

Lemma imap_table_comp f g t :
  imap_table f (imap_table g t) = imap_table (fun r i x => f r i (g r i x)) t.
Proof.
  unfold imap_table. cbn [pt_ncols pt_header pt_rows pt_align pt_skip].
  rewrite imap_rows_comp, option_map_comp. f_equal.
  destruct (pt_header t); [|reflexivity]. simpl. rewrite imap_cells_comp. reflexivity.
Qed.

Lemma view_with_imap g f t :
  view_with g (imap_table f t) = view_with (fun r i x => g r i (f r i x)) t.
Proof.
  unfold view_with, imap_table. cbn [pt_ncols pt_header pt_rows pt_align pt_skip].
  rewrite imap_rows_comp, option_map_comp. f_equal.
  destruct (pt_header t); [|reflexivity]. simpl. rewrite imap_cells_comp. reflexivity.
Qed.

Lemma imap_table_ext f g t : (forall r i x, f r i x = g r i x) -> imap_table f t = imap_table g t.
Proof.
  intros H. unfold imap_table. rewrite (imap_rows_ext f g) by exact H. f_equal.
  destruct (pt_header t); [|reflexivity]. simpl. rewrite (imap_cells_ext (f 0) (g 0)) by (intros; apply H). reflexivity.
Qed.

Lemma view_with_ext f g t : (forall r i x, f r i x = g r i x) -> view_with f t = view_with g t.
Proof.
  intros H. unfold view_with. rewrite (imap_rows_ext f g) by exact H. f_equal.
  destruct (pt_header t); [|reflexivity]. simpl. rewrite (imap_cells_ext (f 0) (g 0)) by (intros; apply H). reflexivity.
Qed.

Lemma imap_table_id t : imap_table (fun _ _ x => x) t = t.
Proof.
  unfold imap_table. rewrite imap_rows_id. destruct t as [n h rows al sk]. cbn [pt_ncols pt_header pt_rows pt_align pt_skip].
  f_equal. destruct h; [|reflexivity]. simpl. rewrite imap_cells_id. reflexivity.
Qed.

(* j passes over the table are j passes over each cell *)
Lemma iter_invoke regs t j :
  iter_l j (invoke_render_callbacks regs) t
  = imap_table (fun r c => iter_l j (run_cell (cell_events regs (pt_ncols t) r c))) t.
Proof.
  revert t. induction j as [|j IH]; intros t.
  - simpl. symmetry. apply imap_table_id.
  - cbn [iter_l]. rewrite IH.
    change (pt_ncols (invoke_render_callbacks regs t)) with (pt_ncols t).
    unfold invoke_render_callbacks. rewrite imap_table_comp. reflexivity.
Qed.

(* the table render j lays out *)
Lemma shown_view_after regs t j :
  shown_view (invoke_render_callbacks regs (iter_l j (invoke_render_callbacks regs) t)) = spec_view regs t j.
Proof.
  rewrite iter_invoke. unfold invoke_render_callbacks at 1, shown_view, spec_view.
  rewrite imap_table_comp, view_with_imap. cbn [pt_ncols imap_table].
  apply view_with_ext. intros r c x. apply shown_after.
Qed.

Lemma render_seq_nth W d regs n : forall t j, j < n ->
  nth_error (render_seq W d regs t n) j
  = Some (text_render W d (shown_view (invoke_render_callbacks regs (iter_l j (invoke_render_callbacks regs) t)))).
Proof.
  induction n as [|n IH]; intros t j Hj; [lia|].
  cbn [render_seq render_pass]. destruct j as [|j]; [reflexivity|].
  cbn [nth_error iter_l]. apply IH. lia.
Qed.

(* every render of the history is the text renderer run on the table of the
   cells as their last measuring callback found them *)
Lemma pass_shows_measured W d regs t n j :
  j < n ->
  nth_error (render_seq W d regs t n) j = Some (text_render W d (spec_view regs t j)).
Proof. intros Hj. rewrite (render_seq_nth W d regs n t j Hj), shown_view_after. reflexivity. Qed.

Lemma render_seq_length W d regs n : forall t, length (render_seq W d regs t n) = n.
Proof. induction n as [|n IH]; intros t; [reflexivity|]. cbn [render_seq render_pass length]. rewrite IH. reflexivity. Qed.

(* ... hence the flattened layout of that table *)
Lemma pass_refines W d regs t n j :
  j < n ->
  1 <= pt_ncols t -> length (pt_align t) = S (pt_ncols t) -> dec_ok d -> cells_ok W (spec_view regs t j) ->
  nth_error (render_seq W d regs t n) j
  = Some (Ok (concat (map flatten (layout W d (spec_view regs t j))))).
Proof.
  intros Hj Hn Hal Hd Hc. rewrite (pass_shows_measured W d regs t n j Hj). f_equal.
  apply text_refines_any_rows; assumption.
Qed.

(* ... a rectangle with aligned dividers *)
Lemma pass_rectangle W d regs t j :
  1 <= pt_ncols t -> dec_ok d -> cells_cover W (spec_view regs t j) ->
  forall l1 l2, In l1 (layout W d (spec_view regs t j)) -> In l2 (layout W d (spec_view regs t j)) ->
  dwidth l1 = dwidth l2 /\ divider_offsets l1 = divider_offsets l2.
Proof.
  intros Hn Hd Hc l1 l2 H1 H2. split.
  - apply (rectangle_proof W d (spec_view regs t j)); assumption.
  - apply (dividers_proof W d (spec_view regs t j)); assumption.
Qed.

(* ------------------------------------------------------------ no cell is left unmeasured *)

Lemma measure_in evs : In AMeasure evs -> before_last_measure evs <> None.
Proof.
  induction evs as [|a evs IH]; intros H; [destruct H|].
  destruct a; cbn [before_last_measure].
  - destruct (before_last_measure evs); discriminate.
  - destruct H as [H|H]; [discriminate|]. specialize (IH H).
    destruct (before_last_measure evs); [discriminate|congruence].
Qed.

Lemma table_measures_every_cell regs ncols r c :
  table_measures regs -> before_last_measure (cell_events regs ncols r c) <> None.
Proof.
  intros H. apply measure_in. unfold cell_events.
  apply in_or_app; right. apply in_or_app; right. apply in_or_app; right. apply in_or_app; left. exact H.
Qed.

(* with the wrapper's callback registered, what a cell shows never depends on
   measurements left over from before the history *)
Lemma shown_fresh regs ncols r c j lc s s' :
  table_measures regs ->
  spec_shown (cell_events regs ncols r c) j (lc, s) = spec_shown (cell_events regs ncols r c) j (lc, s').
Proof.
  intros H. unfold spec_shown. pose proof (table_measures_every_cell regs ncols r c H) as Hm.
  destruct (before_last_measure (cell_events regs ncols r c)); [reflexivity|congruence].
Qed.

(* non-vacuity: the cell's own render-time callback runs after the wrapper's
   measuring callback, so render 0 shows the old content in full and render 1
   the new one - while a callback registered on the table BEFORE the wrapper was
   made shows at once *)
Example pass_example :
  let c s := mkVCell s false None (Z.of_nat (length s)) 1%Z false in
  let wide := c [119; 105; 100; 101]%N in
  let nar := c [110]%N in
  let t := mkPT 1 None [Some [(mkLC wide [nar], None)]] [None; None] [None; None] in
  let after := [mkReg OwTable TRender AMeasure; mkReg (OwCell 1 0) TRender AAdvance] in
  let before := [mkReg OwTable TRender AAdvance; mkReg OwTable TRender AMeasure] in
  body_rows (spec_view after t 0) = [[wide]] /\ body_rows (spec_view after t 1) = [[nar]]
  /\ body_rows (spec_view before t 0) = [[nar]].
Proof. vm_compute. repeat split. Qed.
