(* C13 proofs, part 5: exactly once per matching target per render pass - the
   count of (registration, target) over the WHOLE trace of one pass.  Needs two
   facts beyond part 4: a pass visits every row of the table once (an
   invariant of build histories), and the eight callback groups invoked for a
   cell are pairwise different. *)
From Tab Require Export Proofs.CallbacksCount.

Local Opaque event_eq_dec.

(* ---- a pass visits each row once: NoDup (header :: order), over histories *)
Definition shape_nd (sh : shape) : Prop := NoDup (rows_in_table sh).

Lemma shape_nd0 : shape_nd shape0.
Proof. constructor. Qed.

Lemma rows_in_table_exist sh r :
  shape_ok sh -> In r (rows_in_table sh) ->
  exists sr, nth_error (sh_rows sh) r = Some sr /\ sr_attached sr = true.
Proof.
  intros [_ [Hb Hc]] H. unfold rows_in_table in H. apply in_app_or in H as [H|H].
  - destruct (sh_header sh) as [h|] eqn:E; [|contradiction].
    destruct H as [<-|[]]. apply Hc. reflexivity.
  - apply Hb. exact H.
Qed.

Lemma fresh_not_in_table sh : shape_ok sh -> ~ In (length (sh_rows sh)) (rows_in_table sh).
Proof.
  intros SO H. destruct (rows_in_table_exist sh _ SO H) as [sr [Hr _]].
  apply nth_error_lt in Hr. lia.
Qed.

Lemma NoDup_snoc {A} (l : list A) x : NoDup l -> ~ In x l -> NoDup (l ++ [x]).
Proof.
  intros ND Hx. induction l as [|a l IH]; simpl.
  - constructor; [intros [] | constructor].
  - inversion ND as [|? ? Hn Hd]; subst. constructor.
    + intros Hin. apply in_app_or in Hin as [Hin|[->|[]]]; [contradiction|]. apply Hx. left. reflexivity.
    + apply IH; [exact Hd|]. intros Hin. apply Hx. right. exact Hin.
Qed.

Lemma NoDup_app_r {A} (l l' : list A) : NoDup (l ++ l') -> NoDup l'.
Proof. induction l as [|a l IH]; intros H; [exact H|]. inversion H; subst. apply IH. assumption. Qed.

Lemma shape_nd_step sh o : shape_ok sh -> shape_nd sh -> op_wf sh o = true -> shape_nd (shape_step sh o).
Proof.
  intros SO ND W. unfold shape_nd in *.
  pose proof (fresh_not_in_table sh SO) as Hfresh.
  assert (Hpush : NoDup (match sh_header sh with Some h => [h] | None => [] end ++ sh_order sh ++ [length (sh_rows sh)])).
  { rewrite app_assoc. apply NoDup_snoc; assumption. }
  destruct o as [|r|r| |n| |n|ow tm g cb|r']; cbn [shape_step]; try exact ND; try exact Hpush.
  - destruct (nth_error (sh_rows sh) r) as [[[n|] att]|]; exact ND.
  - cbn [op_wf] in W. destruct (nth_error (sh_rows sh) r) as [[[n|] [|]]|] eqn:E; try discriminate.
    unfold rows_in_table. cbn [sh_header sh_order]. rewrite app_assoc. apply NoDup_snoc; [exact ND|].
    intros Hin. destruct (rows_in_table_exist sh r SO Hin) as [sr [Hr Hat]].
    rewrite E in Hr. inversion Hr; subst. discriminate.
  - (* AddHeaders: the old header row leaves the table *)
    unfold rows_in_table in *. cbn [sh_header sh_order app].
    constructor.
    + intros Hin. apply Hfresh. unfold rows_in_table. apply in_or_app. right. exact Hin.
    + eapply NoDup_app_r. exact ND.
Qed.

Lemma final_shape_inv h : forall sh,
  shape_ok sh -> shape_nd sh -> wf_from sh h = true ->
  shape_ok (final_shape sh h) /\ shape_nd (final_shape sh h).
Proof.
  induction h as [|o h IH]; intros sh SO ND W; [split; assumption|].
  cbn [wf_from] in W. apply andb_true_iff in W as [W1 W2].
  apply (IH (shape_step sh o)); [apply shape_ok_step; exact SO | apply shape_nd_step; assumption | exact W2].
Qed.

(* ---- sums of indicator terms *)
Lemma b2n_excl a b : a && b = false -> b2n a + b2n b = b2n (a || b).
Proof. destruct a, b; simpl; intros H; try discriminate; reflexivity. Qed.

Lemma sum_seq_hit_P c0 (P : nat -> bool) n a :
  list_sum (map (fun c => b2n ((c0 =? c) && P c)) (seq a n)) = b2n ((a <=? c0) && (c0 <? a + n) && P c0).
Proof.
  rewrite (list_sum_map_b2n_if (P c0) _ (fun c => b2n (c0 =? c))).
  - rewrite sum_seq_hit. destruct (P c0); [rewrite andb_true_r | rewrite andb_false_r]; reflexivity.
  - intros c. destruct (Nat.eqb_spec c0 c) as [<-|_]; cbn [andb b2n]; destruct (P c0); reflexivity.
Qed.

Lemma sum_nodup_hit r0 (K : bool) l :
  NoDup l -> list_sum (map (fun r => b2n ((r0 =? r) && K)) l) = b2n (existsb (Nat.eqb r0) l && K).
Proof.
  induction 1 as [|a l Hn Hd IH]; [reflexivity|].
  cbn [map list_sum fold_right existsb]. fold (list_sum (map (fun r => b2n ((r0 =? r) && K)) l)). rewrite IH.
  destruct (Nat.eqb_spec r0 a) as [->|Hne]; cbn [andb orb b2n].
  - assert (E : existsb (Nat.eqb a) l = false).
    { destruct (existsb (Nat.eqb a) l) eqn:E; [|reflexivity]. exfalso.
      apply existsb_exists in E as [y [Hy Ey]]. apply Nat.eqb_eq in Ey. subst. contradiction. }
    rewrite E. destruct K; reflexivity.
  - reflexivity.
Qed.

(* ---- the eight groups of a cell are pairwise different: owner or time differ *)
Lemma cell_groups_sum rg r c :
  b2n (is_for OTable GCell TPre rg) + (b2n (is_for (OColumn c) GCell TPre rg) + (b2n (is_for (ORow r) GCell TPre rg)
  + (b2n (is_for OTable GCell TRender rg) + (b2n (is_for (OCell r c) GItself TRender rg)
  + (b2n (is_for (ORow r) GCell TPost rg) + (b2n (is_for (OColumn c) GCell TPost rg) + b2n (is_for OTable GCell TPost rg)))))))
  = b2n (cell_groups rg r c).
Proof.
  destruct rg as [ow tm g cb]. unfold cell_groups.
  destruct ow, tm, g;
    cbv [is_for kind norm owner_eqb ctime_eqb target_eqb r_owner r_time r_target];
    repeat match goal with |- context [?a =? ?b] => destruct (a =? b) end;
    reflexivity.
Qed.

Lemma is_for_time_excl o g tm o' g' tm' rg : tm <> tm' -> is_for o g tm rg && is_for o' g' tm' rg = false.
Proof.
  intros Hne. destruct (is_for o g tm rg) eqn:E1; [|reflexivity]. destruct (is_for o' g' tm' rg) eqn:E2; [|reflexivity].
  exfalso. unfold is_for in *. apply andb_true_iff in E1 as [_ E1]. apply andb_true_iff in E2 as [_ E2].
  apply ctime_eqb_eq in E1, E2. congruence.
Qed.

Section Once.
  Variable regs : list reg.
  Variable rg : reg.
  Hypothesis ND : NoDup (map r_cb regs).
  Hypothesis Hin : In rg regs.

  Notation e x := (r_cb rg, x).

  Lemma cnt_spec_cell r c x :
    cnt (spec_cell regs r c) (e x) = b2n (tgt_eqb x (XCell r c) && cell_groups rg r c).
  Proof.
    unfold spec_cell. rewrite !cnt_app, !(cnt_fire regs rg ND Hin).
    destruct (tgt_eqb x (XCell r c)); cbn [andb b2n Nat.add]; [apply cell_groups_sum | reflexivity].
  Qed.

  (* the contribution of one visited row *)
  Definition row_match (sh : shape) (x : tgt) (r : nat) : bool :=
    match x with
    | XRow r0 => (r0 =? r) && ((r0 <? length (sh_rows sh))
                               && (is_for (ORow r0) GItself TPre rg || is_for (ORow r0) GItself TPost rg))
    | XCell r0 c0 => (r0 =? r) && (has_cell sh r0 c0 && cell_groups rg r0 c0)
    | _ => false
    end.

  Lemma cnt_spec_row sh x r : cnt (spec_row regs sh r) (e x) = b2n (row_match sh x r).
  Proof.
    unfold spec_row. destruct (nth_error (sh_rows sh) r) as [sr|] eqn:E.
    - rewrite !cnt_app, !(cnt_fire regs rg ND Hin), cnt_flat_map.
      rewrite (list_sum_map_ext _ (fun c => b2n (tgt_eqb x (XCell r c) && cell_groups rg r c)))
        by (intros c; apply cnt_spec_cell).
      assert (Hlen : (r <? length (sh_rows sh)) = true) by (apply Nat.ltb_lt; eapply nth_error_lt; eauto).
      destruct x as [|n|r0|r0 c0|]; cbn [tgt_eqb andb b2n row_match Nat.add];
        try (rewrite list_sum_map_zero by reflexivity; reflexivity).
      + (* the row itself *)
        rewrite list_sum_map_zero by reflexivity. rewrite Nat.add_0_l.
        destruct (Nat.eqb_spec r0 r) as [->|_]; cbn [andb b2n]; [|reflexivity].
        rewrite Hlen. cbn [andb]. apply b2n_excl. apply is_for_time_excl. discriminate.
      + (* one of its cells *)
        destruct (Nat.eqb_spec r0 r) as [->|_]; cbn [andb b2n].
        * rewrite (sum_seq_hit_P c0 (fun c => cell_groups rg r c)). rewrite Nat.add_0_r.
          unfold has_cell. rewrite E. destruct sr as [[n|] att]; unfold cells_n; cbn [sr_cells].
          -- destruct (Nat.leb_spec 1 c0), (Nat.ltb_spec c0 (1 + n)), (Nat.leb_spec c0 n); cbn [andb]; try reflexivity; lia.
          -- cbn [Nat.add]. destruct (Nat.leb_spec 1 c0), (Nat.ltb_spec c0 1); cbn [andb b2n]; try reflexivity; lia.
        * rewrite list_sum_map_zero by reflexivity. reflexivity.
    - simpl. destruct x as [|n|r0|r0 c0|]; cbn [row_match]; try reflexivity.
      + destruct (Nat.eqb_spec r0 r) as [->|_]; cbn [andb b2n]; [|reflexivity].
        assert (Hlen : (r <? length (sh_rows sh)) = false) by (apply Nat.ltb_ge; apply nth_error_None; exact E).
        rewrite Hlen. reflexivity.
      + destruct (Nat.eqb_spec r0 r) as [->|_]; cbn [andb b2n]; [|reflexivity].
        unfold has_cell. rewrite E. reflexivity.
  Qed.

  Lemma cnt_spec_cols sh tm x :
    cnt (spec_cols regs sh tm) (e x)
    = match x with XCol n0 => b2n ((n0 <=? sh_ncols sh) && is_for (OColumn n0) GItself tm rg) | _ => 0 end.
  Proof.
    unfold spec_cols. rewrite cnt_flat_map.
    rewrite (list_sum_map_ext _ (fun n => b2n (tgt_eqb x (XCol n) && is_for (OColumn n) GItself tm rg)))
      by (intros n; apply (cnt_fire regs rg ND Hin)).
    destruct x as [|n0|r0|r0 c0|]; cbn [tgt_eqb andb b2n]; try (apply list_sum_map_zero; reflexivity).
    rewrite (sum_seq_hit_P n0 (fun n => is_for (OColumn n) GItself tm rg)).
    destruct (Nat.leb_spec 0 n0), (Nat.ltb_spec n0 (0 + S (sh_ncols sh))), (Nat.leb_spec n0 (sh_ncols sh));
      cbn [andb]; try reflexivity; lia.
  Qed.

  Lemma rows_part sh :
    match sh_header sh with Some h => spec_row regs sh h | None => [] end ++ flat_map (spec_row regs sh) (sh_order sh)
    = flat_map (spec_row regs sh) (rows_in_table sh).
  Proof.
    unfold rows_in_table. rewrite flat_map_app'. destruct (sh_header sh); simpl; rewrite ?app_nil_r; reflexivity.
  Qed.

  Lemma cnt_rows sh x :
    shape_nd sh ->
    cnt (flat_map (spec_row regs sh) (rows_in_table sh)) (e x)
    = match x with
      | XRow r0 => b2n (existsb (Nat.eqb r0) (rows_in_table sh)
                        && ((r0 <? length (sh_rows sh))
                            && (is_for (ORow r0) GItself TPre rg || is_for (ORow r0) GItself TPost rg)))
      | XCell r0 c0 => b2n (existsb (Nat.eqb r0) (rows_in_table sh) && (has_cell sh r0 c0 && cell_groups rg r0 c0))
      | _ => 0
      end.
  Proof.
    intros NDr. rewrite cnt_flat_map.
    rewrite (list_sum_map_ext _ (fun r => b2n (row_match sh x r))) by (intros r; apply cnt_spec_row).
    destruct x as [|n|r0|r0 c0|]; cbn [row_match]; try (apply list_sum_map_zero; reflexivity).
    - apply sum_nodup_hit. exact NDr.
    - apply sum_nodup_hit. exact NDr.
  Qed.

  Lemma once_shape sh x :
    shape_nd sh ->
    cnt (spec_trace regs sh) (e x) = b2n (matches_render sh rg x).
  Proof.
    intros NDr. unfold spec_trace.
    rewrite cnt_app, cnt_app. rewrite app_assoc, rows_part.
    rewrite !cnt_app, !(cnt_fire regs rg ND Hin), !cnt_spec_cols, (cnt_rows sh x NDr).
    destruct x as [|n0|r0|r0 c0|]; cbn [tgt_eqb andb b2n matches_render Nat.add]; rewrite ?Nat.add_0_r; try reflexivity.
    - apply b2n_excl. apply is_for_time_excl. discriminate.
    - destruct (n0 <=? sh_ncols sh); cbn [andb b2n]; [|reflexivity].
      apply b2n_excl. apply is_for_time_excl. discriminate.
  Qed.
End Once.

Theorem once_render : forall h rg x,
  wf_hist h = true ->
  NoDup (map r_cb (final_regs [] h)) ->
  In rg (final_regs [] h) ->
  cnt (spec_trace (final_regs [] h) (final_shape shape0 h)) (r_cb rg, x)
  = if matches_render (final_shape shape0 h) rg x then 1 else 0.
Proof.
  intros h rg x W ND Hin.
  destruct (final_shape_inv h shape0 shape_ok0 shape_nd0 W) as [_ NDr].
  apply (once_shape _ rg ND Hin _ x NDr).
Qed.
