(* The tie between the TRANSLATED SOURCE of texttable/decoration/emit.go
   (Generated/EmitSrc.v, written by tools/go2coq; with strings.go's
   WithinWidthAligned, which commonRenderedLine calls) and the hand model
   Model/Text.v: common_template_line, common_rendered_line, the line_* wrappers
   and the divider sets.

   The hand model fixes eol = "\n" (the text renderer always sets it); the source
   reads e.eol.  The theorems are therefore stated twice: for EVERY eol against
   the model with its final [LF] replaced by eol (the *_eol definitions below,
   which are the model's text with that one change, and equal the model at
   eol = [LF] by reflexivity), and for eol = [LF] against the model itself.
   No hypothesis on the decoration, the widths, the cells or the alignments:
   where the model panics (a negative Repeat count, a missing cell or alignment,
   fields[-1]) the translated source panics, and nowhere else. *)
From Tab Require Import Base.GoSem Base.GoText Proofs.TextSrcLib.
From Tab Require Import Generated.EmitSrc.
Local Open Scope Z_scope.

Theorem src_WithinWidthAligned_is_model : forall ws available how,
  src_WithinWidthAligned ws available how = Done (within_width_aligned ws available how).
Proof. wwa_tie src_WithinWidthAligned. Qed.

(* ---------------------------------------------------------------- the model, eol a parameter *)
Definition common_template_line_eol (eol : bytes) (d : decoration) (cws : list Z)
           (left horiz cross right : bytes) : res bytes :=
  if d_boxless d then Ok [] else
  bind (template_fields cws horiz cross) (fun fs =>
  let fields := left :: fs in
  bind (if (0 <? length cws)%nat then set_last fields right else Ok (fields ++ [right])) (fun fields =>
  Ok (concat (fields ++ [eol])))).

Definition common_rendered_line_eol (eol : bytes) (ds : bytes * bytes * bytes) (cws : list Z)
           (cells : list wstr) (als : list alignment) : res bytes :=
  let '(dleft, inner, dright) := ds in
  bind (rendered_fields 0 cws cells als inner) (fun fs =>
  let fields := (if nilb dleft then [] else [dleft]) ++ fs in
  bind (if negb (nilb dright) && negb (nilb inner) then set_last fields dright
        else if negb (nilb dright) then Ok (fields ++ [dright])
        else if negb (nilb inner)
             then (if (length fields =? 0)%nat then Ok fields
                   else Ok (firstn (length fields - 1) fields))
             else Ok fields) (fun fields =>
  Ok (join [SP] fields ++ eol))).

Lemma common_template_line_eol_LF : common_template_line_eol [LF] = common_template_line.
Proof. reflexivity. Qed.
Lemma common_rendered_line_eol_LF : common_rendered_line_eol [LF] = common_rendered_line.
Proof. reflexivity. Qed.

(* ---------------------------------------------------------------- commonTemplateLine *)
Lemma template_fold horiz cross cws : forall k fl,
  mfoldi (fun (_ : nat) w fl => bind (repeat_z horiz (2 + w)) (fun h => Ok ((fl ++ [h]) ++ [cross]))) k cws fl
  = bind (template_fields cws horiz cross) (fun fs => Ok (fl ++ fs)).
Proof.
  induction cws as [|w r IH]; intros k fl; cbn [mfoldi template_fields bind].
  - rewrite app_nil_r. reflexivity.
  - destruct (repeat_z horiz (2 + w)) as [h| |]; cbn [bind]; try reflexivity.
    rewrite IH. destruct (template_fields r horiz cross); cbn [bind]; try reflexivity.
    rewrite <- !app_assoc. reflexivity.
Qed.

Theorem src_commonTemplateLine_eol : forall e left horiz cross right,
  src_commonTemplateLine e left horiz cross right
  = Done (common_template_line_eol (e_eol e) (e_decor e) (e_colWidths e) left horiz cross right).
Proof.
  intros [cws d eol] left horiz cross right.
  unfold src_commonTemplateLine, common_template_line_eol, pure_fn, fn_body. cbn [e_colWidths e_decor e_eol].
  destruct (d_boxless d); [reflexivity|].
  rewrite sbind_norm, make_strings_cap_nonneg by (pose proof (Zlen_nonneg cws); lia).
  rewrite mbind_ret_l. cbv zeta. cbn [app].
  destruct cws as [|w0 cws'].
  - cbn. rewrite app_nil_r. reflexivity.
  - set (cws := w0 :: cws').
    assert (Hpos : Zlen cws >? 0 = true) by (apply Z.gtb_lt; unfold Zlen, cws; cbn [length]; lia).
    rewrite Hpos.
    replace (0 <? length cws)%nat with true by (symmetry; apply Nat.ltb_lt; unfold cws; cbn [length]; lia).
    match goal with |- context [range_loop _ ?b _] => set (body := b) end.
    rewrite (range_idx_mfoldi cws body
               (fun (_ : nat) w fl => bind (repeat_z horiz (2 + w)) (fun h => Ok ((fl ++ [h]) ++ [cross])))).
    2:{ intros k x l Hk. unfold body. rewrite (index_nat _ _ _ Hk), mbind_ret_l, mbind_lift_repeat.
        destruct (repeat_z horiz (2 + x)); reflexivity. }
    rewrite template_fold. generalize (template_fields cws horiz cross). intros [fs| |]; cbn [bind lift_norm]; try reflexivity.
    rewrite !sbind_norm. cbn [app]. rewrite store_last, mbind_lift.
    destruct (set_last (left :: fs) right) as [fields| |]; cbn [bind]; try reflexivity.
    rewrite !sbind_norm. cbv zeta. rewrite mbind_ret_l. cbn [snd ret]. rewrite lib_strings_Join_nil. reflexivity.
Qed.

Theorem src_commonTemplateLine_is_model : forall d cws left horiz cross right,
  src_commonTemplateLine (mkEmitter cws d [LF]) left horiz cross right
  = Done (common_template_line d cws left horiz cross right).
Proof. intros. rewrite src_commonTemplateLine_eol. reflexivity. Qed.

(* the seven one-line wrappers (the hand model has the five the renderer uses) *)
Ltac wrapper f :=
  intros; unfold f, pure_fn, fn_body, line_header_top, line_header_body_sep, line_body_top, line_bottom, line_separator;
  rewrite src_commonTemplateLine_is_model, lift_pure_done, mbind_lift; cbn [e_decor]; try change [32%N] with [SP];
  match goal with |- context [match ?r with _ => _ end] => destruct r end; reflexivity.

Theorem src_LineHeaderTop_is_model : forall d cws, src_LineHeaderTop (mkEmitter cws d [LF]) = Done (line_header_top d cws).
Proof. wrapper src_LineHeaderTop. Qed.
Theorem src_LineHeaderBodySep_is_model : forall d cws, src_LineHeaderBodySep (mkEmitter cws d [LF]) = Done (line_header_body_sep d cws).
Proof. wrapper src_LineHeaderBodySep. Qed.
Theorem src_LineBodyTop_is_model : forall d cws, src_LineBodyTop (mkEmitter cws d [LF]) = Done (line_body_top d cws).
Proof. wrapper src_LineBodyTop. Qed.
Theorem src_LineBottom_is_model : forall d cws, src_LineBottom (mkEmitter cws d [LF]) = Done (line_bottom d cws).
Proof. wrapper src_LineBottom. Qed.
Theorem src_LineSeparator_is_model : forall d cws, src_LineSeparator (mkEmitter cws d [LF]) = Done (line_separator d cws).
Proof. wrapper src_LineSeparator. Qed.
Theorem src_LineHeaderBlanks_is_model : forall d cws,
  src_LineHeaderBlanks (mkEmitter cws d [LF]) = Done (common_template_line d cws (d_VHeader d) [SP] (d_VHeader d) (d_VHeader d)).
Proof. wrapper src_LineHeaderBlanks. Qed.
Theorem src_LineBodyBlanks_is_model : forall d cws,
  src_LineBodyBlanks (mkEmitter cws d [LF]) = Done (common_template_line d cws (d_VBodyBorder d) [SP] (d_VBodyInner d) (d_VBodyBorder d)).
Proof. wrapper src_LineBodyBlanks. Qed.

Theorem src_HeaderDividers_is_model : forall e, src_HeaderDividers e = Done (Ok (header_dividers (e_decor e))).
Proof. reflexivity. Qed.
Theorem src_BodyDividers_is_model : forall e, src_BodyDividers e = Done (Ok (body_dividers (e_decor e))).
Proof. reflexivity. Qed.

(* ---------------------------------------------------------------- commonRenderedLine *)
Definition rendered_step (cells : list wstr) (als : list alignment) (inner : bytes)
           (k : nat) (w : Z) (fl : list bytes) : res (list bytes) :=
  bind (idx cells k) (fun ws =>
  bind (idx als k) (fun a =>
  bind (within_width_aligned ws w a) (fun f =>
  Ok ((fl ++ [f]) ++ (if nilb inner then [] else [inner]))))).

Lemma rendered_fold cells als inner cws : forall k fl,
  mfoldi (rendered_step cells als inner) k cws fl
  = bind (rendered_fields k cws cells als inner) (fun fs => Ok (fl ++ fs)).
Proof.
  induction cws as [|w r IH]; intros k fl; cbn [mfoldi rendered_fields bind].
  - rewrite app_nil_r. reflexivity.
  - unfold rendered_step at 1.
    destruct (idx cells k) as [ws| |]; cbn [bind]; try reflexivity.
    destruct (idx als k) as [a| |]; cbn [bind]; try reflexivity.
    destruct (within_width_aligned ws w a) as [f| |]; cbn [bind]; try reflexivity.
    rewrite IH. destruct (rendered_fields (S k) r cells als inner); cbn [bind]; try reflexivity.
    rewrite <- !app_assoc. reflexivity.
Qed.

Theorem src_commonRenderedLine_eol : forall e ds cells als,
  src_commonRenderedLine e ds cells als
  = Done (common_rendered_line_eol (e_eol e) ds (e_colWidths e) cells als).
Proof.
  intros [cws d eol] [[dleft inner] dright] cells als.
  unfold src_commonRenderedLine, common_rendered_line_eol, pure_fn, fn_body.
  cbn [e_colWidths e_decor e_eol ds_Left ds_Inner ds_Right fst snd].
  rewrite make_strings_cap_nonneg by (pose proof (Zlen_nonneg cws); lia).
  rewrite mbind_ret_l. cbv beta zeta. rewrite ?bytes_eqb_nil.
  set (f0 := if nilb dleft then [] else [dleft]).
  assert (E0 : (if negb (nilb dleft) then ret (Norm ([] ++ [dleft])) else ret (Norm [])
                : M (ctl (list bytes) Empty_set bytes)) = ret (Norm f0)).
  { unfold f0. destruct (nilb dleft); reflexivity. }
  cbv zeta. rewrite E0, sbind_norm. clear E0.
  match goal with |- context [range_loop _ ?b _] => set (body := b) end.
  rewrite (range_idx_mfoldi cws body (rendered_step cells als inner)).
  2:{ intros k w l Hk. unfold body, rendered_step.
      rewrite index_of_nat, mbind_lift. destruct (idx cells k) as [ws| |]; cbn [bind]; try reflexivity.
      rewrite (index_nat _ _ _ Hk), mbind_ret_l.
      rewrite index_of_nat, mbind_lift. destruct (idx als k) as [a| |]; cbn [bind]; try reflexivity.
      rewrite src_WithinWidthAligned_is_model, lift_pure_done, mbind_lift.
      destruct (within_width_aligned ws w a) as [s| |]; cbn [bind]; try reflexivity.
      cbv beta iota zeta. rewrite ?bytes_eqb_nil.
      destruct (nilb inner); cbn [negb]; rewrite !sbind_norm; cbn [lift_norm]; rewrite ?app_nil_r; reflexivity. }
  rewrite rendered_fold. generalize (rendered_fields 0 cws cells als inner).
  intros [fs| |]; cbn [bind lift_norm]; try reflexivity.
  rewrite sbind_norm, ?bytes_eqb_nil. set (fields := f0 ++ fs).
  destruct (nilb dright) eqn:Er; destruct (nilb inner) eqn:Ei; cbn [negb andb].
  - rewrite !sbind_norm, mbind_ret_l. cbn [snd ret bind]. rewrite lib_strings_Join_join. reflexivity.
  - destruct fields as [|x fields'] eqn:Ef.
    + cbn. reflexivity.
    + rewrite <- Ef. assert (Hne : fields <> []) by (rewrite Ef; discriminate).
      replace (Zlen fields >? 0) with true by (symmetry; apply Z.gtb_lt; rewrite Ef; unfold Zlen; cbn [length]; lia).
      replace (length fields =? 0)%nat with false by (symmetry; apply Nat.eqb_neq; rewrite Ef; cbn [length]; lia).
      rewrite (slice_last _ Hne), mbind_ret_l, !sbind_norm, mbind_ret_l.
      cbn [snd ret bind]. rewrite lib_strings_Join_join. reflexivity.
  - rewrite !sbind_norm. cbv zeta. rewrite ?sbind_norm, mbind_ret_l. cbn [snd ret bind]. rewrite lib_strings_Join_join. reflexivity.
  - rewrite store_last, mbind_lift. destruct (set_last fields dright) as [fl| |]; cbn [bind]; try reflexivity.
    rewrite !sbind_norm, mbind_ret_l. cbn [snd ret]. rewrite lib_strings_Join_join. reflexivity.
Qed.

Theorem src_commonRenderedLine_is_model : forall d cws ds cells als,
  src_commonRenderedLine (mkEmitter cws d [LF]) ds cells als = Done (common_rendered_line ds cws cells als).
Proof. intros. rewrite src_commonRenderedLine_eol. reflexivity. Qed.

Theorem src_HeaderLineRendered_is_model : forall d cws cells als,
  src_HeaderLineRendered (mkEmitter cws d [LF]) cells als = Done (common_rendered_line (header_dividers d) cws cells als).
Proof.
  intros. unfold src_HeaderLineRendered, pure_fn, fn_body.
  rewrite src_HeaderDividers_is_model, lift_pure_done, mbind_lift, src_commonRenderedLine_is_model, lift_pure_done, mbind_lift.
  cbn [e_decor]. match goal with |- context [match ?r with _ => _ end] => destruct r end; reflexivity.
Qed.

Theorem src_BodyLineRendered_is_model : forall d cws cells als,
  src_BodyLineRendered (mkEmitter cws d [LF]) cells als = Done (common_rendered_line (body_dividers d) cws cells als).
Proof.
  intros. unfold src_BodyLineRendered, pure_fn, fn_body.
  rewrite src_BodyDividers_is_model, lift_pure_done, mbind_lift, src_commonRenderedLine_is_model, lift_pure_done, mbind_lift.
  cbn [e_decor]. match goal with |- context [match ?r with _ => _ end] => destruct r end; reflexivity.
Qed.

(* ---------------------------------------------------------------- what Props/C03.v states *)
Theorem emit_source_is_model :
  (forall d cws left horiz cross right,
     src_commonTemplateLine (mkEmitter cws d [LF]) left horiz cross right
     = Done (common_template_line d cws left horiz cross right))
  /\ (forall d cws ds cells als,
     src_commonRenderedLine (mkEmitter cws d [LF]) ds cells als = Done (common_rendered_line ds cws cells als))
  /\ (forall d cws,
     src_LineHeaderTop (mkEmitter cws d [LF]) = Done (line_header_top d cws)
     /\ src_LineHeaderBodySep (mkEmitter cws d [LF]) = Done (line_header_body_sep d cws)
     /\ src_LineBodyTop (mkEmitter cws d [LF]) = Done (line_body_top d cws)
     /\ src_LineBottom (mkEmitter cws d [LF]) = Done (line_bottom d cws)
     /\ src_LineSeparator (mkEmitter cws d [LF]) = Done (line_separator d cws))
  /\ (forall e, src_HeaderDividers e = Done (Ok (header_dividers (e_decor e)))
                /\ src_BodyDividers e = Done (Ok (body_dividers (e_decor e))))
  /\ (forall d cws cells als,
     src_HeaderLineRendered (mkEmitter cws d [LF]) cells als = Done (common_rendered_line (header_dividers d) cws cells als)
     /\ src_BodyLineRendered (mkEmitter cws d [LF]) cells als = Done (common_rendered_line (body_dividers d) cws cells als))
  /\ (forall ws available how,
     src_WithinWidthAligned ws available how = Done (within_width_aligned ws available how)).
Proof.
  split; [exact src_commonTemplateLine_is_model|].
  split; [exact src_commonRenderedLine_is_model|].
  split; [intros; repeat split;
          [apply src_LineHeaderTop_is_model | apply src_LineHeaderBodySep_is_model | apply src_LineBodyTop_is_model
           | apply src_LineBottom_is_model | apply src_LineSeparator_is_model]|].
  split; [intros; split; reflexivity|].
  split; [intros; split; [apply src_HeaderLineRendered_is_model | apply src_BodyLineRendered_is_model]|].
  exact src_WithinWidthAligned_is_model.
Qed.

(* for any eol: the model's text with its final [LF] replaced by e.eol *)
Theorem emit_source_any_eol :
  (forall e left horiz cross right,
     src_commonTemplateLine e left horiz cross right
     = Done (if d_boxless (e_decor e) then Ok [] else
             bind (template_fields (e_colWidths e) horiz cross) (fun fs =>
             bind (if (0 <? length (e_colWidths e))%nat then set_last (left :: fs) right else Ok ((left :: fs) ++ [right])) (fun fields =>
             Ok (concat (fields ++ [e_eol e]))))))
  /\ (forall e ds cells als,
     src_commonRenderedLine e ds cells als = Done (common_rendered_line_eol (e_eol e) ds (e_colWidths e) cells als))
  /\ common_rendered_line_eol [LF] = common_rendered_line.
Proof.
  split; [exact src_commonTemplateLine_eol|]. split; [exact src_commonRenderedLine_eol | reflexivity].
Qed.

(* property level: with the column widths the layout computes, every rule line
   the translated source emits IS the layout's rule line, flattened (nothing
   when boxless): template_line_ok for the source text *)
From Tab Require Import Spec.TextLayout Proofs.TextRefine.

Theorem src_rule_line_is_layout : forall W d v, (1 <= v_ncols v)%nat ->
  forall l h c r,
  src_commonTemplateLine (mkEmitter (cwsZ W v) d [LF]) l h c r = Done (Ok (wr d (rule W v l h c r))).
Proof. intros. rewrite src_commonTemplateLine_is_model, template_line_ok by assumption. reflexivity. Qed.
