(* C12, stage 1 - the value model of the property chain is a finite map:
   get-after-set, duplicate-free keys, bounded length, totality, and the
   refinement to an abstract map over arbitrary set sequences. *)
From Tab Require Import Model.Props Spec.PropMap.
From Coq Require Import Permutation.

Definition keys (m : chain) : list key := map fst m.

(* the chain with its first link for k removed *)
Fixpoint remove_first (m : chain) (k : key) : chain :=
  match m with
  | [] => []
  | (k', v) :: r => if key_eqb k' k then r else (k', v) :: remove_first r k
  end.

Lemma get_property_value m k : get_property m k = value m k.
Proof. destruct m; reflexivity. Qed.

(* ---- the strip functions compute (value, remove_first) and never panic *)

Lemma copy_chain_without_ok pre x rest :
  copy_chain_without (pre ++ x :: rest) (length pre) = Ok (pre ++ rest).
Proof.
  induction pre as [|[k v] pre IH]; cbn [app length copy_chain_without].
  - destruct x. reflexivity.
  - rewrite IH. reflexivity.
Qed.

Lemma strip_chain_ok this : forall pre k,
  strip_chain_return_value (pre ++ this) (length pre) this k
  = Ok (value this k, pre ++ remove_first this k).
Proof.
  induction this as [|[k' v] rest IH]; intros pre k.
  - cbn. reflexivity.
  - cbn [strip_chain_return_value value remove_first].
    destruct (key_eqb k' k) eqn:E.
    + rewrite copy_chain_without_ok. reflexivity.
    + destruct rest as [|y rest'].
      * cbn. reflexivity.
      * specialize (IH (pre ++ [(k', v)]) k).
        rewrite <- app_assoc in IH. cbn [app] in IH.
        rewrite app_length in IH. cbn [length] in IH. rewrite Nat.add_1_r in IH.
        rewrite IH. rewrite <- app_assoc. reflexivity.
Qed.

Lemma strip_return_value_ok m k :
  strip_return_value m k = Ok (value m k, remove_first m k).
Proof.
  destruct m as [|[k' v] rest]; cbn [strip_return_value value remove_first].
  - reflexivity.
  - destruct (key_eqb k' k) eqn:E.
    + reflexivity.
    + destruct rest as [|y rest'].
      * reflexivity.
      * pose proof (strip_chain_ok (y :: rest') [(k', v)] k) as H.
        cbn [app length] in H. rewrite H. reflexivity.
Qed.

Definition set_result (m : chain) (k : key) (v : option val) : chain :=
  match v with
  | None => remove_first m k
  | Some x => (k, x) :: remove_first m k
  end.

Lemma set_property_ok m k v : set_property m k v = Ok (set_result m k v).
Proof.
  unfold set_property. rewrite strip_return_value_ok. cbn [bind snd].
  destruct v; reflexivity.
Qed.

(* ---- remove_first *)

Lemma value_remove_other m k k' : k <> k' -> value (remove_first m k) k' = value m k'.
Proof.
  intros N. induction m as [|[a v] r IH]; cbn [remove_first value].
  - reflexivity.
  - destruct (key_eqb a k) eqn:E.
    + apply key_eqb_eq in E. subst a.
      destruct (key_eqb k k') eqn:E2; [apply key_eqb_eq in E2; contradiction|reflexivity].
    + cbn [value]. rewrite IH. reflexivity.
Qed.

Lemma value_none_notin m k : value m k = None <-> ~ In k (keys m).
Proof.
  induction m as [|[a v] r IH]; cbn [value keys map fst In].
  - tauto.
  - destruct (key_eqb a k) eqn:E.
    + apply key_eqb_eq in E. subst. split; [discriminate|]. intros H. exfalso. apply H. auto.
    + apply key_eqb_neq in E. fold (keys r). rewrite IH. tauto.
Qed.

Lemma keys_remove_incl m k : incl (keys (remove_first m k)) (keys m).
Proof.
  induction m as [|[a v] r IH]; cbn [remove_first keys map fst].
  - apply incl_refl.
  - destruct (key_eqb a k).
    + apply incl_tl, incl_refl.
    + cbn [map fst]. intros x [H|H]; [left; exact H|right; apply IH; exact H].
Qed.

Lemma nodup_remove m k : NoDup (keys m) -> NoDup (keys (remove_first m k)).
Proof.
  induction m as [|[a v] r IH]; cbn [remove_first keys map fst]; intros H.
  - constructor.
  - inversion H as [|? ? Hn Hr]; subst.
    destruct (key_eqb a k).
    + exact Hr.
    + cbn [map fst]. constructor.
      * intros Hin. apply Hn. apply (keys_remove_incl r k). exact Hin.
      * apply IH. exact Hr.
Qed.

Lemma notin_remove m k : NoDup (keys m) -> ~ In k (keys (remove_first m k)).
Proof.
  induction m as [|[a v] r IH]; cbn [remove_first keys map fst]; intros H.
  - intros [].
  - inversion H as [|? ? Hn Hr]; subst.
    destruct (key_eqb a k) eqn:E.
    + apply key_eqb_eq in E. subst. exact Hn.
    + apply key_eqb_neq in E. cbn [map fst]. intros [Hin|Hin]; [contradiction|].
      apply (IH Hr). exact Hin.
Qed.

Lemma value_remove_same m k : NoDup (keys m) -> value (remove_first m k) k = None.
Proof. intros H. apply value_none_notin. apply notin_remove. exact H. Qed.

Lemma remove_absent m k : value m k = None -> remove_first m k = m.
Proof.
  induction m as [|[a v] r IH]; cbn [remove_first value]; intros H.
  - reflexivity.
  - destruct (key_eqb a k); [discriminate|]. rewrite IH; auto.
Qed.

Lemma length_remove_present m k x : value m k = Some x -> S (length (remove_first m k)) = length m.
Proof.
  induction m as [|[a v] r IH]; cbn [remove_first value length]; intros H.
  - discriminate.
  - destruct (key_eqb a k); [reflexivity|]. cbn [length]. rewrite IH; auto.
Qed.

Lemma length_remove_le m k : length (remove_first m k) <= length m.
Proof.
  destruct (value m k) eqn:E.
  - apply length_remove_present in E. lia.
  - rewrite remove_absent; auto.
Qed.

(* ---- the four statements of C12 about one owner *)

(* get after set: v = None is "nil was set" *)
Lemma get_set m k v m' k' :
  NoDup (keys m) -> set_property m k v = Ok m' ->
  get_property m' k' = if key_eqb k k' then v else get_property m k'.
Proof.
  intros ND H. rewrite set_property_ok in H. inversion H; subst m'; clear H.
  rewrite !get_property_value.
  destruct (key_eqb k k') eqn:E.
  - apply key_eqb_eq in E. subst k'. destruct v; cbn [set_result value].
    + rewrite key_eqb_refl. reflexivity.
    + apply value_remove_same. exact ND.
  - pose proof E as E'. apply key_eqb_neq in E'.
    destruct v; cbn [set_result value].
    + rewrite E. apply value_remove_other. exact E'.
    + apply value_remove_other. exact E'.
Qed.

Lemma set_nodup m k v m' :
  NoDup (keys m) -> set_property m k v = Ok m' -> NoDup (keys m').
Proof.
  intros ND H. rewrite set_property_ok in H. inversion H; subst m'; clear H.
  destruct v; cbn [set_result keys map fst].
  - constructor; [apply notin_remove; exact ND|apply nodup_remove; exact ND].
  - apply nodup_remove. exact ND.
Qed.

Lemma set_total m k v : exists m', set_property m k v = Ok m'.
Proof. eexists. apply set_property_ok. Qed.

Lemma set_bounded m k v m' :
  set_property m k v = Ok m' ->
  length m' <= S (length m)
  /\ (forall x y, get_property m k = Some x -> v = Some y -> length m' = length m)
  /\ (v = None -> length m' <= length m)
  /\ (get_property m k = None -> v = None -> m' = m).
Proof.
  intros H. rewrite set_property_ok in H. inversion H; subst m'; clear H.
  pose proof (length_remove_le m k) as L.
  repeat split.
  - destruct v; cbn [set_result length]; lia.
  - intros x y G ->. rewrite get_property_value in G. cbn [set_result length].
    apply length_remove_present in G. exact G.
  - intros ->. exact L.
  - intros G ->. rewrite get_property_value in G. cbn [set_result]. apply remove_absent. exact G.
Qed.

(* stored state = one link per live key *)
Lemma live_keys m :
  length m = length (keys m)
  /\ forall k, In k (keys m) <-> get_property m k <> None.
Proof.
  split.
  - unfold keys. rewrite map_length. reflexivity.
  - intros k. rewrite get_property_value. pose proof (value_none_notin m k) as H.
    destruct (value m k).
    + split; [discriminate|]. intros _. destruct (in_dec key_eq_dec k (keys m)) as [I|I]; auto.
      apply H in I. discriminate.
    + split; [|congruence]. intros I. exfalso. apply (proj1 H eq_refl). exact I.
Qed.

(* ... counted over any duplicate-free universe that contains the keys *)
Lemma nodupb_NoDup U : nodupb U = true -> NoDup U.
Proof.
  induction U as [|k r IH]; cbn [nodupb]; intros H.
  - constructor.
  - apply andb_true_iff in H as [H1 H2]. constructor.
    + intros I. apply negb_true_iff in H1.
      assert (existsb (key_eqb k) r = true) as X.
      { apply existsb_exists. exists k. split; [exact I|apply key_eqb_refl]. }
      congruence.
    + apply IH. exact H2.
Qed.

Lemma live_count_length m U :
  NoDup (keys m) -> NoDup U -> incl (keys m) U ->
  live_count U (fun k => get_property m k) = length m.
Proof.
  intros ND NU I. unfold live_count.
  rewrite (proj1 (live_keys m)).
  apply Permutation_length. apply NoDup_Permutation.
  - apply NoDup_filter. exact NU.
  - exact ND.
  - intros k. rewrite filter_In. rewrite (proj2 (live_keys m) k). split.
    + intros [_ H]. destruct (get_property m k); [discriminate|discriminate].
    + intros H. split.
      * apply I. apply (proj2 (live_keys m) k). exact H.
      * destruct (get_property m k); [reflexivity|contradiction].
Qed.

Lemma set_keys_incl m k v m' U :
  set_property m k v = Ok m' -> incl (keys m) U -> In k U -> incl (keys m') U.
Proof.
  intros H I Hk. rewrite set_property_ok in H. inversion H; subst m'; clear H.
  destruct v; cbn [set_result keys map fst].
  - intros x [<-|Hx]; [exact Hk|]. apply I. apply (keys_remove_incl m k). exact Hx.
  - intros x Hx. apply I. apply (keys_remove_incl m k). exact Hx.
Qed.

(* ---- refinement over arbitrary set sequences on one owner *)

Definition abs (m : chain) : amap := fun k => get_property m k.

Fixpoint run_sets (m : chain) (l : list (key * option val)) : res chain :=
  match l with
  | [] => Ok m
  | (k, v) :: r => bind (set_property m k v) (fun m' => run_sets m' r)
  end.

Fixpoint a_run (a : amap) (l : list (key * option val)) : amap :=
  match l with
  | [] => a
  | (k, v) :: r => a_run (a_set a k v) r
  end.

Lemma a_run_ext l : forall a b, (forall k, a k = b k) -> forall k, a_run a l k = a_run b l k.
Proof.
  induction l as [|[k v] r IH]; intros a b H x; cbn [a_run].
  - apply H.
  - apply IH. intros y. unfold a_set. destruct (key_eqb k y); auto.
Qed.

Lemma refines l : forall m,
  NoDup (keys m) ->
  exists m', run_sets m l = Ok m' /\ NoDup (keys m')
             /\ (forall k, abs m' k = a_run (abs m) l k)
             /\ length m' = length (keys m')
             /\ length m' <= length m + length l.
Proof.
  induction l as [|[k v] r IH]; intros m ND; cbn [run_sets a_run].
  - exists m. repeat split; auto. apply (proj1 (live_keys m)). cbn. lia.
  - destruct (set_total m k v) as [m1 H1]. rewrite H1. cbn [bind].
    pose proof (set_nodup _ _ _ _ ND H1) as ND1.
    destruct (IH m1 ND1) as (m' & R & ND' & A & L & B).
    exists m'. repeat split; auto.
    + intros x. rewrite A. apply a_run_ext. intros y. unfold abs, a_set.
      apply (get_set m k v m1 y ND H1).
    + pose proof (proj1 (set_bounded m k v m1 H1)). cbn [length]. lia.
Qed.
