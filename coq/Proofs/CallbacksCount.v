(* C13 proofs, part 4: "exactly once per matching target" as counting facts
   about the specification's traces (which the model's logs equal, part 3). *)
From Tab Require Export Proofs.CallbacksProofs.

Local Opaque event_eq_dec.
Notation cnt := (count_occ event_eq_dec).
Definition b2n (b : bool) : nat := if b then 1 else 0.

Lemma cnt_app l1 l2 e : cnt (l1 ++ l2) e = cnt l1 e + cnt l2 e.
Proof. apply count_occ_app. Qed.

Lemma cnt_flat_map {A} (f : A -> list event) l e :
  cnt (flat_map f l) e = list_sum (map (fun a => cnt (f a) e) l).
Proof. induction l as [|a l IH]; simpl; [reflexivity | rewrite cnt_app, IH; reflexivity]. Qed.

Lemma list_sum_map_zero {A} (f : A -> nat) l : (forall a, In a l -> f a = 0) -> list_sum (map f l) = 0.
Proof.
  induction l as [|a l IH]; intros H; simpl; [reflexivity|].
  rewrite (H a) by (left; reflexivity). rewrite IH; [reflexivity|]. intros b Hb. apply H. right. exact Hb.
Qed.

Lemma list_sum_map_ext {A} (f g : A -> nat) l : (forall a, f a = g a) -> list_sum (map f l) = list_sum (map g l).
Proof. intros H. induction l; simpl; congruence. Qed.

Lemma tgt_eqb_refl x : tgt_eqb x x = true.
Proof. apply tgt_eqb_eq. reflexivity. Qed.

(* ---- one group of callbacks, one registration with a unique id *)
Lemma cnt_mf_absent (P : reg -> bool) regs x' cb x :
  ~ In cb (map r_cb regs) -> cnt (map (fun rg => (r_cb rg, x')) (filter P regs)) (cb, x) = 0.
Proof.
  induction regs as [|r0 regs IH]; intros H; [reflexivity|]. simpl in *.
  assert (H' : ~ In cb (map r_cb regs)) by (intros Hin; apply H; right; exact Hin).
  destruct (P r0); simpl; [|apply IH; exact H'].
  destruct (event_eq_dec (r_cb r0, x') (cb, x)) as [E|E]; [|apply IH; exact H'].
  exfalso. inversion E. apply H. left. assumption.
Qed.

Lemma cnt_mf (P : reg -> bool) regs x' rg x :
  NoDup (map r_cb regs) -> In rg regs ->
  cnt (map (fun r => (r_cb r, x')) (filter P regs)) (r_cb rg, x) = b2n (tgt_eqb x x' && P rg).
Proof.
  induction regs as [|r0 regs IH]; intros ND Hin; [contradiction|].
  simpl in ND. inversion ND as [|? ? Hnotin ND']; subst.
  destruct Hin as [->|Hin].
  - simpl. destruct (P rg) eqn:E; simpl.
    + destruct (event_eq_dec (r_cb rg, x') (r_cb rg, x)) as [Eq|Ne].
      * inversion Eq; subst. rewrite (cnt_mf_absent P regs x (r_cb rg) x Hnotin), tgt_eqb_refl. reflexivity.
      * rewrite (cnt_mf_absent P regs x' (r_cb rg) x Hnotin).
        destruct (tgt_eqb x x') eqn:T; [apply tgt_eqb_eq in T; subst; congruence | reflexivity].
    + rewrite andb_false_r. apply cnt_mf_absent. exact Hnotin.
  - assert (Hne : r_cb r0 <> r_cb rg).
    { intros Heq. apply Hnotin. rewrite Heq. apply in_map. exact Hin. }
    simpl. destruct (P r0); simpl.
    + destruct (event_eq_dec (r_cb r0, x') (r_cb rg, x)) as [Eq|_]; [inversion Eq; congruence|].
      apply IH; assumption.
    + apply IH; assumption.
Qed.

Section OneReg.
  Variable regs : list reg.
  Variable rg : reg.
  Hypothesis ND : NoDup (map r_cb regs).
  Hypothesis Hin : In rg regs.

  Lemma cnt_fire o g tm x' x : cnt (fire regs o g tm x') (r_cb rg, x) = b2n (tgt_eqb x x' && is_for o g tm rg).
  Proof. unfold fire. apply cnt_mf; assumption. Qed.
End OneReg.

Lemma cnt_fire_absent regs o g tm x' cb x : ~ In cb (map r_cb regs) -> cnt (fire regs o g tm x') (cb, x) = 0.
Proof. unfold fire. apply cnt_mf_absent. Qed.

(* ---- queries on a row of the shape *)
Definition rowq (q : srow -> bool) (sh : shape) (r : nat) : bool :=
  match nth_error (sh_rows sh) r with Some sr => q sr | None => false end.
Definition cellb (c : nat) (sr : srow) : bool :=
  match sr with mkSrow (Some n) _ => (1 <=? c) && (c <=? n) | _ => false end.
Definition tabb (sr : srow) : bool :=
  match sr with mkSrow (Some _) true => true | _ => false end.

Lemma has_cell_rowq sh r c : has_cell sh r c = rowq (cellb c) sh r.
Proof. reflexivity. Qed.
Lemma in_table_rowq sh r : in_table sh r = rowq tabb sh r.
Proof. reflexivity. Qed.

Lemma rowq_push q sh sh' new r0 :
  sh_rows sh' = sh_rows sh ++ [new] ->
  rowq q sh' r0 = if r0 =? length (sh_rows sh) then q new else rowq q sh r0.
Proof.
  intros H. unfold rowq. rewrite H. destruct (Nat.eqb_spec r0 (length (sh_rows sh))) as [->|Hne].
  - rewrite nth_error_app_last. reflexivity.
  - destruct (Nat.lt_ge_cases r0 (length (sh_rows sh))) as [Hl|Hl].
    + rewrite nth_error_app1 by exact Hl. reflexivity.
    + assert (E1 : nth_error (sh_rows sh ++ [new]) r0 = None) by (apply nth_error_None; rewrite app_length; simpl; lia).
      assert (E2 : nth_error (sh_rows sh) r0 = None) by (apply nth_error_None; lia).
      rewrite E1, E2. reflexivity.
Qed.

Lemma rowq_set q sh sh' r old new r0 :
  nth_error (sh_rows sh) r = Some old -> sh_rows sh' = set_nth (sh_rows sh) r new ->
  rowq q sh' r0 = if r0 =? r then q new else rowq q sh r0.
Proof.
  intros Ho H. unfold rowq. rewrite H. destruct (Nat.eqb_spec r0 r) as [->|Hne].
  - rewrite nth_error_set_nth_eq by (eapply nth_error_lt; eauto). reflexivity.
  - rewrite nth_error_set_nth_neq by congruence. reflexivity.
Qed.

Lemma rowq_at q sh r sr : nth_error (sh_rows sh) r = Some sr -> rowq q sh r = q sr.
Proof. intros H. unfold rowq. rewrite H. reflexivity. Qed.

Lemma rowq_none q sh r : nth_error (sh_rows sh) r = None -> rowq q sh r = false.
Proof. intros H. unfold rowq. rewrite H. reflexivity. Qed.

Lemma sum_seq_hit c0 n : forall a,
  list_sum (map (fun c => b2n (c0 =? c)) (seq a n)) = b2n ((a <=? c0) && (c0 <? a + n)).
Proof.
  induction n as [|n IH]; intros a; cbn [seq map list_sum fold_right].
  - rewrite Nat.add_0_r. destruct (Nat.leb_spec a c0), (Nat.ltb_spec c0 a); cbn [andb b2n]; try reflexivity; lia.
  - fold (list_sum (map (fun c => b2n (c0 =? c)) (seq (S a) n))). rewrite IH.
    destruct (Nat.eqb_spec c0 a), (Nat.leb_spec (S a) c0), (Nat.ltb_spec c0 (S a + n)),
      (Nat.leb_spec a c0), (Nat.ltb_spec c0 (a + S n)); cbn [andb b2n]; try reflexivity; lia.
Qed.

Lemma sum_pairs_hit r0 c0 id n :
  list_sum (map (fun rc : nat * nat => b2n ((r0 =? fst rc) && (c0 =? snd rc))) (map (pair id) (seq 1 n)))
  = b2n ((r0 =? id) && ((1 <=? c0) && (c0 <=? n))).
Proof.
  rewrite map_map. cbn [fst snd]. destruct (r0 =? id); cbn [andb].
  - rewrite sum_seq_hit. destruct (Nat.leb_spec 1 c0), (Nat.ltb_spec c0 (1 + n)), (Nat.leb_spec c0 n); cbn [andb b2n]; try reflexivity; lia.
  - apply list_sum_map_zero. reflexivity.
Qed.

Ltac bool_lia :=
  repeat match goal with
         | |- context [?a =? ?b] => destruct (Nat.eqb_spec a b)
         | |- context [?a <=? ?b] => destruct (Nat.leb_spec a b)
         | |- context [?a <? ?b] => destruct (Nat.ltb_spec a b)
         end; cbn [andb orb negb b2n Nat.add]; try reflexivity; try lia.

Ltac norm := cbn [cellb tabb map list_sum fold_right fst snd andb b2n Nat.add].
Ltac rw_push sh new :=
  repeat match goal with
         | |- context [rowq ?q ?s ?r] =>
             tryif constr_eq s sh then fail else rewrite (rowq_push q sh s new r) by reflexivity
         end.
Ltac rw_set sh r E new :=
  repeat match goal with
         | |- context [rowq ?q ?s ?r1] =>
             tryif constr_eq s sh then fail else rewrite (rowq_set q sh s r _ new r1 E) by reflexivity
         end.

(* ---- an add event happens exactly when "already there" flips *)
Lemma added_tele sh o r0 c0 :
  op_wf sh o = true ->
  list_sum (map (fun rc : nat * nat => b2n ((r0 =? fst rc) && (c0 =? snd rc))) (cells_added sh o))
  + b2n (has_cell sh r0 c0) = b2n (has_cell (shape_step sh o) r0 c0).
Proof.
  intros W. rewrite !has_cell_rowq.
  destruct o as [|r|r| |n| |n|ow tm g cb|r']; cbn [cells_added shape_step].
  - rw_push sh (mkSrow (Some 0) false). norm.
    destruct (Nat.eqb_spec r0 (length (sh_rows sh))) as [->|_]; [|reflexivity].
    rewrite rowq_none by (apply nth_error_None; lia). bool_lia.
  - destruct (nth_error (sh_rows sh) r) as [[[n|] att]|] eqn:E; try reflexivity.
    rw_set sh r E (mkSrow (Some (S n)) att). norm.
    destruct (Nat.eqb_spec r0 r) as [->|_]; norm; [|reflexivity].
    rewrite (rowq_at _ sh r _ E). norm. bool_lia.
  - cbn [op_wf] in W. destruct (nth_error (sh_rows sh) r) as [[[n|] [|]]|] eqn:E; try discriminate.
    rw_set sh r E (mkSrow (Some n) true). norm.
    destruct (Nat.eqb_spec r0 r) as [->|_]; norm; [|reflexivity].
    rewrite (rowq_at _ sh r _ E). reflexivity.
  - rw_push sh (mkSrow (Some 0) true). norm.
    destruct (Nat.eqb_spec r0 (length (sh_rows sh))) as [->|_]; [|reflexivity].
    rewrite rowq_none by (apply nth_error_None; lia). bool_lia.
  - rewrite sum_pairs_hit. rw_push sh (mkSrow (Some n) true). norm.
    destruct (Nat.eqb_spec r0 (length (sh_rows sh))) as [->|_]; norm; [|reflexivity].
    rewrite rowq_none by (apply nth_error_None; lia). bool_lia.
  - rw_push sh (mkSrow None true). norm.
    destruct (Nat.eqb_spec r0 (length (sh_rows sh))) as [->|_]; [|reflexivity].
    rewrite rowq_none by (apply nth_error_None; lia). reflexivity.
  - rewrite sum_pairs_hit. rw_push sh (mkSrow (Some n) true). norm.
    destruct (Nat.eqb_spec r0 (length (sh_rows sh))) as [->|_]; norm; [|reflexivity].
    rewrite rowq_none by (apply nth_error_None; lia). bool_lia.
  - reflexivity.
  - reflexivity.
Qed.

Lemma joined_tele sh o r0 :
  op_wf sh o = true ->
  list_sum (map (fun r => b2n (r0 =? r)) (rows_joined sh o)) + b2n (in_table sh r0)
  = b2n (in_table (shape_step sh o) r0).
Proof.
  intros W. change (in_table sh r0) with (rowq tabb sh r0); change (in_table (shape_step sh o) r0) with (rowq tabb (shape_step sh o) r0).
  destruct o as [|r|r| |n| |n|ow tm g cb|r']; cbn [rows_joined shape_step].
  - rw_push sh (mkSrow (Some 0) false). norm.
    destruct (Nat.eqb_spec r0 (length (sh_rows sh))) as [->|_]; [|reflexivity].
    rewrite rowq_none by (apply nth_error_None; lia). reflexivity.
  - destruct (nth_error (sh_rows sh) r) as [[[n|] att]|] eqn:E; try reflexivity.
    rw_set sh r E (mkSrow (Some (S n)) att). norm.
    destruct (Nat.eqb_spec r0 r) as [->|_]; norm; [|reflexivity].
    rewrite (rowq_at _ sh r _ E). reflexivity.
  - cbn [op_wf] in W. destruct (nth_error (sh_rows sh) r) as [[[n|] [|]]|] eqn:E; try discriminate.
    assert (Hlt : (r <? length (sh_rows sh)) = true) by (apply Nat.ltb_lt; eapply nth_error_lt; eauto).
    rewrite Hlt. rw_set sh r E (mkSrow (Some n) true). norm.
    destruct (Nat.eqb_spec r0 r) as [->|_]; norm; [|reflexivity].
    rewrite (rowq_at _ sh r _ E). reflexivity.
  - rw_push sh (mkSrow (Some 0) true). norm.
    destruct (Nat.eqb_spec r0 (length (sh_rows sh))) as [->|_]; [|reflexivity].
    rewrite rowq_none by (apply nth_error_None; lia). reflexivity.
  - rw_push sh (mkSrow (Some n) true). norm.
    destruct (Nat.eqb_spec r0 (length (sh_rows sh))) as [->|_]; [|reflexivity].
    rewrite rowq_none by (apply nth_error_None; lia). reflexivity.
  - rw_push sh (mkSrow None true). norm.
    destruct (Nat.eqb_spec r0 (length (sh_rows sh))) as [->|_]; [|reflexivity].
    rewrite rowq_none by (apply nth_error_None; lia). reflexivity.
  - rw_push sh (mkSrow (Some n) true). norm.
    destruct (Nat.eqb_spec r0 (length (sh_rows sh))) as [->|_]; [|reflexivity].
    rewrite rowq_none by (apply nth_error_None; lia). reflexivity.
  - reflexivity.
  - reflexivity.
Qed.

Lemma cjoined_tele sh o r0 c0 :
  op_wf sh o = true ->
  list_sum (map (fun rc : nat * nat => b2n ((r0 =? fst rc) && (c0 =? snd rc))) (cells_joined sh o))
  + b2n (has_cell sh r0 c0 && in_table sh r0)
  = b2n (has_cell (shape_step sh o) r0 c0 && in_table (shape_step sh o) r0).
Proof.
  intros W. rewrite !has_cell_rowq. change (in_table sh r0) with (rowq tabb sh r0); change (in_table (shape_step sh o) r0) with (rowq tabb (shape_step sh o) r0).
  destruct o as [|r|r| |n| |n|ow tm g cb|r']; cbn [cells_joined shape_step].
  - rw_push sh (mkSrow (Some 0) false). norm.
    destruct (Nat.eqb_spec r0 (length (sh_rows sh))) as [->|_]; [|reflexivity].
    rewrite !rowq_none by (apply nth_error_None; lia). bool_lia.
  - destruct (nth_error (sh_rows sh) r) as [[[n|] att]|] eqn:E; try reflexivity.
    rw_set sh r E (mkSrow (Some (S n)) att).
    destruct (Nat.eqb_spec r0 r) as [->|Hne].
    + rewrite !(rowq_at _ sh r _ E). destruct att; norm; rewrite ?Nat.eqb_refl; bool_lia.
    + destruct att; norm; [|reflexivity].
      destruct (Nat.eqb_spec r0 r); [contradiction|]. reflexivity.
  - cbn [op_wf] in W. destruct (nth_error (sh_rows sh) r) as [[[n|] [|]]|] eqn:E; try discriminate.
    rw_set sh r E (mkSrow (Some n) true).
    unfold cells_n. cbn [sr_cells]. rewrite sum_pairs_hit.
    destruct (Nat.eqb_spec r0 r) as [->|_]; norm; [|reflexivity].
    rewrite !(rowq_at _ sh r _ E). norm. bool_lia.
  - rw_push sh (mkSrow (Some 0) true). norm.
    destruct (Nat.eqb_spec r0 (length (sh_rows sh))) as [->|_]; [|reflexivity].
    rewrite !rowq_none by (apply nth_error_None; lia). bool_lia.
  - rewrite sum_pairs_hit. rw_push sh (mkSrow (Some n) true). norm.
    destruct (Nat.eqb_spec r0 (length (sh_rows sh))) as [->|_]; norm; [|reflexivity].
    rewrite !rowq_none by (apply nth_error_None; lia). bool_lia.
  - rw_push sh (mkSrow None true). norm.
    destruct (Nat.eqb_spec r0 (length (sh_rows sh))) as [->|_]; [|reflexivity].
    rewrite !rowq_none by (apply nth_error_None; lia). reflexivity.
  - rewrite sum_pairs_hit. rw_push sh (mkSrow (Some n) true). norm.
    destruct (Nat.eqb_spec r0 (length (sh_rows sh))) as [->|_]; norm; [|reflexivity].
    rewrite !rowq_none by (apply nth_error_None; lia). bool_lia.
  - reflexivity.
  - reflexivity.
Qed.

(* ---- one operation: the count of (rg, x) among its add events *)
Lemma is_for_owner o g tm rg : is_for o g tm rg = true -> r_owner rg = o.
Proof.
  unfold is_for. intros H. apply andb_true_iff in H as [H _]. apply andb_true_iff in H as [H _].
  apply owner_eqb_eq. exact H.
Qed.

Lemma is_for_excl o g tm o' g' tm' rg : o <> o' -> is_for o g tm rg = true -> is_for o' g' tm' rg = false.
Proof.
  intros Hne H. destruct (is_for o' g' tm' rg) eqn:E; [|reflexivity].
  apply is_for_owner in H, E. congruence.
Qed.

Lemma list_sum_map_b2n_if {A} (b : bool) (f g : A -> nat) l :
  (forall a, f a = if b then g a else 0) -> list_sum (map f l) = if b then list_sum (map g l) else 0.
Proof.
  intros H. destruct b.
  - apply list_sum_map_ext. exact H.
  - apply list_sum_map_zero. intros a _. apply H.
Qed.

Section AddStep.
  Variable regs : list reg.
  Variable rg : reg.
  Hypothesis ND : NoDup (map r_cb regs).
  Hypothesis Hin : In rg regs.

  Lemma cnt_fires {A} (o : A -> owner) g tm (t : A -> tgt) l x :
    cnt (flat_map (fun a => fire regs (o a) g tm (t a)) l) (r_cb rg, x)
    = list_sum (map (fun a => b2n (tgt_eqb x (t a) && is_for (o a) g tm rg)) l).
  Proof. rewrite cnt_flat_map. apply list_sum_map_ext. intros a. apply cnt_fire; assumption. Qed.

  Lemma cnt_fires2 {A} (o1 o2 : A -> owner) g1 g2 tm (t : A -> tgt) l x :
    cnt (flat_map (fun a => fire regs (o1 a) g1 tm (t a) ++ fire regs (o2 a) g2 tm (t a)) l) (r_cb rg, x)
    = list_sum (map (fun a => b2n (tgt_eqb x (t a) && is_for (o1 a) g1 tm rg) + b2n (tgt_eqb x (t a) && is_for (o2 a) g2 tm rg)) l).
  Proof.
    rewrite cnt_flat_map. apply list_sum_map_ext. intros a. rewrite cnt_app, !cnt_fire by assumption. reflexivity.
  Qed.

  Lemma add_step_tele sh o x :
    op_wf sh o = true ->
    cnt (add_step sh regs o) (r_cb rg, x) + b2n (applies rg x && present sh rg x)
    = b2n (applies rg x && present (shape_step sh o) rg x).
  Proof.
    intros W. unfold add_step. rewrite !cnt_app.
    rewrite (cnt_fires (fun rc => ORow (fst rc)) GCell TAdd (fun rc => XCell (fst rc) (snd rc))).
    rewrite (cnt_fires2 (fun r => ORow r) (fun _ => OTable) GItself GRow TAdd (fun r => XRow r)).
    rewrite (cnt_fires2 (fun rc => OColumn (snd rc)) (fun _ => OTable) GCell GCell TAdd (fun rc => XCell (fst rc) (snd rc))).
    destruct x as [|n|r0|r0 c0|]; cbn [tgt_eqb andb b2n applies present Nat.add];
      try (rewrite !list_sum_map_zero by reflexivity; reflexivity).
    - (* a row *)
      rewrite (list_sum_map_zero _ (cells_added sh o)) by reflexivity.
      rewrite (list_sum_map_zero _ (cells_joined sh o)) by reflexivity.
      rewrite (list_sum_map_b2n_if (is_for (ORow r0) GItself TAdd rg || is_for OTable GRow TAdd rg) _ (fun r => b2n (r0 =? r))).
      + pose proof (joined_tele sh o r0 W) as T.
        destruct (is_for (ORow r0) GItself TAdd rg || is_for OTable GRow TAdd rg); cbn [andb b2n]; lia.
      + intros r. destruct (Nat.eqb_spec r0 r) as [<-|Hne]; cbn [andb b2n].
        * destruct (is_for (ORow r0) GItself TAdd rg) eqn:E1.
          -- rewrite (is_for_excl (ORow r0) GItself TAdd OTable GRow TAdd rg) by (try discriminate; assumption). reflexivity.
          -- destruct (is_for OTable GRow TAdd rg); reflexivity.
        * destruct (_ || _); reflexivity.
    - (* a cell *)
      rewrite (list_sum_map_zero _ (rows_joined sh o)) by reflexivity.
      set (A := is_for (ORow r0) GCell TAdd rg).
      set (B := is_for (OColumn c0) GCell TAdd rg).
      set (C := is_for OTable GCell TAdd rg).
      rewrite (list_sum_map_b2n_if A _ (fun rc => b2n ((r0 =? fst rc) && (c0 =? snd rc))) (cells_added sh o)).
      2:{ intros [r c]. cbn [fst snd]. destruct (Nat.eqb_spec r0 r) as [<-|_]; cbn [andb b2n]; [|destruct A; reflexivity].
          fold A. destruct (c0 =? c), A; reflexivity. }
      rewrite (list_sum_map_b2n_if (B || C) _ (fun rc => b2n ((r0 =? fst rc) && (c0 =? snd rc))) (cells_joined sh o)).
      2:{ intros [r c]. cbn [fst snd]. destruct (Nat.eqb_spec r0 r) as [<-|_]; cbn [andb b2n]; [|destruct (B || C); reflexivity].
          destruct (Nat.eqb_spec c0 c) as [<-|_]; cbn [andb b2n]; [|destruct (B || C); reflexivity].
          fold B C. destruct B eqn:EB.
          - unfold C. rewrite (is_for_excl (OColumn c0) GCell TAdd OTable GCell TAdd rg) by (try discriminate; exact EB). reflexivity.
          - destruct C; reflexivity. }
      pose proof (added_tele sh o r0 c0 W) as T1. pose proof (cjoined_tele sh o r0 c0 W) as T2.
      destruct A eqn:EA.
      + assert (EB : B = false) by (apply (is_for_excl (ORow r0) GCell TAdd); [discriminate | exact EA]).
        assert (EC : C = false) by (apply (is_for_excl (ORow r0) GCell TAdd); [discriminate | exact EA]).
        rewrite EB, EC. cbn [orb andb b2n]. lia.
      + cbn [orb]. destruct (B || C); cbn [andb b2n]; lia.
  Qed.
End AddStep.

(* ---- whole histories *)
Lemma regs_step_incl regs o rg : In rg regs -> In rg (regs_step regs o).
Proof. intros H. destruct o; try exact H. cbn [regs_step]. destruct (accepts _ _); [apply in_or_app; left|]; exact H. Qed.

Lemma final_regs_prefix h : forall regs, exists ext, final_regs regs h = regs ++ ext.
Proof.
  induction h as [|o h IH]; intros regs.
  - exists []. simpl. rewrite app_nil_r. reflexivity.
  - cbn [final_regs fold_left]. destruct (IH (regs_step regs o)) as [ext E]. unfold final_regs in E. rewrite E.
    destruct o; try (exists ext; reflexivity).
    cbn [regs_step]. destruct (accepts _ _); [|exists ext; reflexivity].
    eexists. rewrite <- app_assoc. reflexivity.
Qed.

Lemma NoDup_app_l {A} (l l' : list A) : NoDup (l ++ l') -> NoDup l.
Proof.
  induction l as [|a l IH]; intros H; [constructor|].
  simpl in H. inversion H as [|? ? Hn Hd]; subst. constructor.
  - intros Hin. apply Hn. apply in_or_app. left. exact Hin.
  - apply IH. exact Hd.
Qed.

Lemma NoDup_ids_prefix regs ext : NoDup (map r_cb (regs ++ ext)) -> NoDup (map r_cb regs).
Proof. rewrite map_app. apply NoDup_app_l. Qed.

Lemma add_step_absent sh regs o cb x : ~ In cb (map r_cb regs) -> cnt (add_step sh regs o) (cb, x) = 0.
Proof.
  intros H. unfold add_step. rewrite !cnt_app, !cnt_flat_map.
  rewrite !list_sum_map_zero; [reflexivity | | |]; intros a _; rewrite ?cnt_app, ?cnt_fire_absent by exact H; reflexivity.
Qed.

Lemma spec_add_absent h : forall sh regs cb x,
  ~ In cb (map r_cb (final_regs regs h)) -> cnt (spec_add_from sh regs h) (cb, x) = 0.
Proof.
  induction h as [|o h IH]; intros sh regs cb x H; [reflexivity|].
  cbn [spec_add_from]. rewrite cnt_app. cbn [final_regs fold_left] in H.
  rewrite (IH _ _ _ _ H), Nat.add_0_r. apply add_step_absent.
  destruct (final_regs_prefix h (regs_step regs o)) as [ext E]. unfold final_regs in E. rewrite E in H.
  intros Hin. apply H. rewrite map_app. apply in_or_app. left.
  apply in_map_iff in Hin as [rg [Hcb Hrg]]. apply in_map_iff. exists rg. split; [exact Hcb | apply regs_step_incl; exact Hrg].
Qed.

Lemma add_tele rg x h : forall sh regs,
  wf_from sh h = true -> In rg regs -> NoDup (map r_cb (final_regs regs h)) ->
  cnt (spec_add_from sh regs h) (r_cb rg, x) + b2n (applies rg x && present sh rg x)
  = b2n (applies rg x && present (final_shape sh h) rg x).
Proof.
  induction h as [|o h IH]; intros sh regs W Hin ND; [reflexivity|].
  cbn [wf_from] in W. apply andb_true_iff in W as [W1 W2].
  cbn [spec_add_from final_shape fold_left]. rewrite cnt_app.
  cbn [final_regs fold_left] in ND.
  assert (ND0 : NoDup (map r_cb regs)).
  { destruct (final_regs_prefix h (regs_step regs o)) as [ext E]. unfold final_regs in E. rewrite E in ND.
    apply NoDup_ids_prefix in ND. destruct o; try exact ND. cbn [regs_step] in ND.
    destruct (accepts _ _); [apply NoDup_ids_prefix in ND|]; exact ND. }
  pose proof (add_step_tele regs rg ND0 Hin sh o x W1) as T1.
  pose proof (IH (shape_step sh o) (regs_step regs o) W2 (regs_step_incl _ o _ Hin) ND) as T2.
  unfold final_shape in *. lia.
Qed.

Lemma spec_add_from_app a : forall sh regs b,
  spec_add_from sh regs (a ++ b) = spec_add_from sh regs a ++ spec_add_from (final_shape sh a) (final_regs regs a) b.
Proof.
  induction a as [|o a IH]; intros sh regs b; [reflexivity|].
  cbn [app spec_add_from final_shape final_regs fold_left]. rewrite IH, app_assoc. reflexivity.
Qed.

Lemma wf_from_app a : forall sh b, wf_from sh (a ++ b) = wf_from sh a && wf_from (final_shape sh a) b.
Proof.
  induction a as [|o a IH]; intros sh b; [reflexivity|].
  cbn [app wf_from final_shape fold_left]. rewrite IH, andb_assoc. reflexivity.
Qed.

Theorem add_counts : forall h1 h2 ow tm g cb x,
  let h := h1 ++ ORegister ow tm g cb :: h2 in
  let rg := mkReg ow tm g cb in
  wf_hist h = true ->
  accepts (kind ow) g = true ->
  NoDup (map r_cb (final_regs [] h)) ->
  cnt (spec_add h) (cb, x) = if matches_add h1 h2 rg x then 1 else 0.
Proof.
  intros h1 h2 ow tm g cb x h rg W Ha ND.
  unfold spec_add, h. rewrite spec_add_from_app. cbn [spec_add_from]. rewrite !cnt_app.
  set (sh1 := final_shape shape0 h1). set (F1 := final_regs [] h1).
  assert (EF : final_regs [] h = final_regs (F1 ++ [rg]) h2).
  { unfold h, final_regs. rewrite fold_left_app. cbn [fold_left regs_step]. rewrite Ha. reflexivity. }
  rewrite EF in ND.
  destruct (final_regs_prefix h2 (F1 ++ [rg])) as [ext E].
  assert (Habs : ~ In cb (map r_cb F1)).
  { rewrite E in ND. apply NoDup_ids_prefix in ND. rewrite map_app in ND. cbn [map r_cb rg] in ND.
    apply NoDup_remove_2 in ND. rewrite app_nil_r in ND. exact ND. }
  rewrite (spec_add_absent h1 shape0 [] cb x Habs).
  assert (E0 : add_step sh1 F1 (ORegister ow tm g cb) = []) by reflexivity.
  rewrite E0. cbn [count_occ Nat.add shape_step regs_step]. rewrite Ha.
  unfold wf_hist, h in W. rewrite wf_from_app in W. apply andb_true_iff in W as [_ W].
  cbn [wf_from] in W. apply andb_true_iff in W as [_ W]. cbn [shape_step] in W. fold sh1 in W.
  assert (Hin : In rg (F1 ++ [rg])) by (apply in_or_app; right; left; reflexivity).
  pose proof (add_tele rg x h2 sh1 (F1 ++ [rg]) W Hin ND) as T.
  change (r_cb rg) with cb in T.
  unfold matches_add. unfold final_shape at 1. rewrite fold_left_app. fold (final_shape shape0 h1). fold sh1.
  fold (final_shape sh1 h2).
  subst rg.
  destruct (applies _ x), (present sh1 _ x), (present (final_shape sh1 h2) _ x); cbn [andb negb b2n] in *; lia.
Qed.
