(* C16 - schedule independence of confined programs: proofs. *)
From Tab Require Import Model.Sched.

Section SchedProofs.
  Variables L R K D : Type.
  Variable lookup : R -> K -> D.
  Variable names : R -> list K.
  Variable write : R -> K -> D -> R.

  Notation action := (action L K D).
  Notation gstate := (gstate L R K D).
  Notation pvec := (pvec L K D).
  Notation step := (step lookup names write).
  Notation run_sched := (run_sched lookup names write).
  Notation run_alone := (run_alone lookup names write).
  Notation step_alone := (step_alone lookup names).
  Notation fold_alone := (fold_alone lookup names).

  Lemma upd_same {A} (f : nat -> A) t x : upd f t x t = x.
  Proof. unfold upd. rewrite Nat.eqb_refl. reflexivity. Qed.

  Lemma upd_other {A} (f : nat -> A) t u x : u <> t -> upd f t x u = f u.
  Proof. intros H. unfold upd. apply Nat.eqb_neq in H. rewrite H. reflexivity. Qed.

  (* --- the three facts about one step --- *)

  (* a step that only reads leaves the registry alone *)
  Lemma step_reg s (a : action) (G : gstate) : read_only a -> g_reg (step s a G) = g_reg G.
  Proof. destruct a; cbn; intros H; try reflexivity. destruct H. Qed.

  (* frame: a confined, read-only step of goroutine s is invisible to u <> s *)
  Lemma step_other s (a : action) (G : gstate) u :
    confined_action s a -> read_only a -> u <> s -> proj u (step s a G) = proj u G.
  Proof.
    intros Hc Hr Hu. unfold proj. destruct a; cbn in *.
    - destruct Hc as [H1 _]. rewrite (H1 _ _ Hu). reflexivity.
    - rewrite !upd_other by exact Hu. reflexivity.
    - rewrite !upd_other by exact Hu. reflexivity.
    - destruct Hr.
  Qed.

  (* own: what s sees of its own step is what it computes from its own pair *)
  Lemma step_own s (a : action) (G : gstate) :
    confined_action s a -> read_only a ->
    proj s (step s a G) = step_alone s a (g_reg G) (proj s G).
  Proof.
    intros Hc Hr. unfold proj. destruct a; cbn in *.
    - destruct Hc as [_ H2]. rewrite (H2 (g_loc G) (fun _ => g_loc G s)) by reflexivity. reflexivity.
    - rewrite !upd_same. reflexivity.
    - rewrite !upd_same. reflexivity.
    - destruct Hr.
  Qed.

  (* commutation: steps of two different goroutines can be swapped *)
  Lemma step_commute s t (a b : action) (G : gstate) :
    s <> t -> confined_action s a -> read_only a -> confined_action t b -> read_only b ->
    g_reg (step s a (step t b G)) = g_reg (step t b (step s a G)) /\
    forall u, proj u (step s a (step t b G)) = proj u (step t b (step s a G)).
  Proof.
    intros Hst Ca Ra Cb Rb. split.
    - rewrite !step_reg by assumption. reflexivity.
    - intros u. destruct (Nat.eq_dec u s) as [->|Hus].
      + rewrite step_own by assumption.
        rewrite (step_other t b (step s a G) s) by (assumption || exact Hst).
        rewrite step_own by assumption.
        rewrite step_reg by assumption.
        rewrite (step_other t b G s) by (assumption || exact Hst). reflexivity.
      + destruct (Nat.eq_dec u t) as [->|Hut].
        * rewrite (step_other s a (step t b G) t) by (assumption || (intro E; apply Hst; symmetry; exact E)).
          rewrite !step_own by assumption.
          rewrite step_reg by assumption.
          rewrite (step_other s a G t) by (assumption || (intro E; apply Hst; symmetry; exact E)). reflexivity.
        * rewrite !step_other by assumption. reflexivity.
  Qed.

  (* --- program vectors --- *)

  Lemma confined_upd (progs : pvec) s a rest :
    progs s = a :: rest -> confined progs -> confined (upd progs s rest).
  Proof.
    intros E H t. unfold upd. destruct (Nat.eqb_spec t s) as [->|Hn].
    - specialize (H s). rewrite E in H. inversion H; assumption.
    - apply H.
  Qed.

  Lemma ro_upd (progs : pvec) s a rest :
    progs s = a :: rest -> reads_registry_only progs -> reads_registry_only (upd progs s rest).
  Proof.
    intros E H t. unfold upd. destruct (Nat.eqb_spec t s) as [->|Hn].
    - specialize (H s). rewrite E in H. inversion H; assumption.
    - apply H.
  Qed.

  Lemma complete_upd (progs : pvec) s a rest sched :
    progs s = a :: rest -> complete (s :: sched) progs -> complete sched (upd progs s rest).
  Proof.
    intros E H t. specialize (H t). unfold upd. cbn [count_occ] in H.
    destruct (Nat.eqb_spec t s) as [->|Hn].
    - rewrite E in H. destruct (Nat.eq_dec s s) as [_|C]; [|destruct C; reflexivity].
      cbn [length] in H. injection H as H. exact H.
    - destruct (Nat.eq_dec s t) as [C|_]; [destruct Hn; symmetry; exact C|]. exact H.
  Qed.

  (* main invariant, by induction on the schedule *)
  Lemma run_sched_fold : forall sched (progs : pvec) (G : gstate),
    confined progs -> reads_registry_only progs -> complete sched progs ->
    g_reg (run_sched sched progs G) = g_reg G /\
    forall t, proj t (run_sched sched progs G) = fold_alone t (progs t) (g_reg G) (proj t G).
  Proof.
    induction sched as [|s sched IH]; intros progs G Hc Hr Hm.
    - cbn [run_sched]. split; [reflexivity|]. intros t.
      specialize (Hm t). cbn in Hm. destruct (progs t); [reflexivity|discriminate].
    - cbn [run_sched]. destruct (progs s) as [|a rest] eqn:E.
      + exfalso. specialize (Hm s). rewrite E in Hm. cbn in Hm.
        destruct (Nat.eq_dec s s) as [_|C]; [discriminate|apply C; reflexivity].
      + assert (Ca : confined_action s a) by (specialize (Hc s); rewrite E in Hc; inversion Hc; assumption).
        assert (Ra : read_only a) by (specialize (Hr s); rewrite E in Hr; inversion Hr; assumption).
        destruct (IH (upd progs s rest) (step s a G)
                     (confined_upd _ _ _ _ E Hc) (ro_upd _ _ _ _ E Hr) (complete_upd _ _ _ _ _ E Hm))
          as [IHr IHp].
        split.
        * rewrite IHr. apply step_reg; exact Ra.
        * intros t. rewrite IHp. rewrite step_reg by exact Ra.
          destruct (Nat.eq_dec t s) as [->|Hts].
          -- rewrite upd_same, E. cbn [fold_alone]. rewrite step_own by assumption. reflexivity.
          -- rewrite upd_other by exact Hts. rewrite step_other by assumption. reflexivity.
  Qed.

  (* the solo run is itself a complete schedule of a confined vector *)
  Lemma only_same t (p : list action) : only t p t = p.
  Proof. unfold only. apply upd_same. Qed.

  Lemma only_other t u (p : list action) : u <> t -> only t p u = [].
  Proof. intros H. unfold only. rewrite upd_other by exact H. reflexivity. Qed.

  Lemma complete_only t (p : list action) : complete (repeat t (length p)) (only t p).
  Proof.
    intros u. destruct (Nat.eq_dec u t) as [->|Hn].
    - rewrite only_same. apply count_occ_repeat_eq. reflexivity.
    - rewrite only_other by exact Hn. apply count_occ_repeat_neq. exact Hn.
  Qed.

  Lemma run_alone_fold t (p : list action) (G : gstate) :
    Forall (confined_action t) p -> Forall read_only p ->
    g_reg (run_alone t p G) = g_reg G /\
    proj t (run_alone t p G) = fold_alone t p (g_reg G) (proj t G).
  Proof.
    intros Hc Hr. unfold run_alone.
    destruct (run_sched_fold (repeat t (length p)) (only t p) G) as [A B].
    - intros u. destruct (Nat.eq_dec u t) as [->|Hn].
      + rewrite only_same. exact Hc.
      + rewrite only_other by exact Hn. constructor.
    - intros u. destruct (Nat.eq_dec u t) as [->|Hn].
      + rewrite only_same. exact Hr.
      + rewrite only_other by exact Hn. constructor.
    - apply complete_only.
    - split; [exact A|]. rewrite B, only_same. reflexivity.
  Qed.

  (* C16: every complete schedule of confined, registry-reading programs gives
     each goroutine the local state and the observations of its solo run, and
     leaves the registry as it was *)
  Theorem schedule_independent : forall (progs : pvec) sched (G : gstate),
    confined progs -> reads_registry_only progs -> complete sched progs ->
    g_reg (run_sched sched progs G) = g_reg G /\
    forall t,
      g_loc (run_sched sched progs G) t = g_loc (run_alone t (progs t) G) t /\
      g_obs (run_sched sched progs G) t = g_obs (run_alone t (progs t) G) t.
  Proof.
    intros progs sched G Hc Hr Hm.
    destruct (run_sched_fold sched progs G Hc Hr Hm) as [A B].
    split; [exact A|]. intros t.
    destruct (run_alone_fold t (progs t) G (Hc t) (Hr t)) as [_ B'].
    specialize (B t). rewrite <- B' in B. unfold proj in B.
    injection B as B1 B2. split; assumption.
  Qed.

  (* two complete schedules of the same vector agree on everything a goroutine
     can see *)
  Corollary any_two_schedules : forall (progs : pvec) s1 s2 (G : gstate),
    confined progs -> reads_registry_only progs -> complete s1 progs -> complete s2 progs ->
    forall t, proj t (run_sched s1 progs G) = proj t (run_sched s2 progs G).
  Proof.
    intros progs s1 s2 G Hc Hr H1 H2 t.
    destruct (run_sched_fold s1 progs G Hc Hr H1) as [_ B1].
    destruct (run_sched_fold s2 progs G Hc Hr H2) as [_ B2].
    rewrite B1, B2. reflexivity.
  Qed.

  (* the same for program vectors given as lists *)
  Lemma confined_pvec_of (ps : list (list action)) :
    (forall t p, nth_error ps t = Some p -> Forall (confined_action t) p) -> confined (pvec_of ps).
  Proof.
    intros H t. unfold pvec_of. destruct (nth_error ps t) eqn:E; [eapply H; exact E|constructor].
  Qed.

  Lemma ro_pvec_of (ps : list (list action)) :
    Forall (Forall read_only) ps -> reads_registry_only (pvec_of ps).
  Proof.
    intros H t. unfold pvec_of. destruct (nth_error ps t) eqn:E; [|constructor].
    rewrite Forall_forall in H. apply H. eapply nth_error_In; exact E.
  Qed.

  Theorem schedule_independent_list : forall (ps : list (list action)) sched (G : gstate),
    (forall t p, nth_error ps t = Some p -> Forall (confined_action t) p) ->
    Forall (Forall read_only) ps ->
    complete sched (pvec_of ps) ->
    g_reg (run_sched sched (pvec_of ps) G) = g_reg G /\
    forall t,
      g_loc (run_sched sched (pvec_of ps) G) t = g_loc (run_alone t (pvec_of ps t) G) t /\
      g_obs (run_sched sched (pvec_of ps) G) t = g_obs (run_alone t (pvec_of ps t) G) t.
  Proof.
    intros ps sched G Hc Hr Hm.
    apply schedule_independent; [apply confined_pvec_of; exact Hc|apply ro_pvec_of; exact Hr|exact Hm].
  Qed.
End SchedProofs.


(* ------------------------------------------------------------------ *)
(* The hypotheses do real work: concrete machines over L = D = K = nat with an
   association-list registry. *)

Definition ex_lookup (r : list (nat * nat)) (n : nat) : nat :=
  match find (fun kv => Nat.eqb (fst kv) n) r with Some kv => snd kv | None => 0 end.
Definition ex_names (r : list (nat * nat)) : list nat := map fst r.
Definition ex_write (r : list (nat * nat)) (n d : nat) : list (nat * nat) := (n, d) :: r.

Definition ex_G0 : gstate nat (list (nat * nat)) nat nat := mkG [(7, 1)] (fun _ => 0) (fun _ => []).

(* goroutine 0 looks name 7 up and keeps what it got; goroutine 1 re-registers
   name 7 *)
Definition ex_writer : pvec nat nat nat :=
  fun t => match t with
           | 0 => [RegRead 7 (fun d _ => d)]
           | 1 => [RegWrite 7 2]
           | _ => []
           end.

Lemma needs_read_only :
  confined ex_writer /\ complete [1; 0] ex_writer /\
  g_loc (run_sched ex_lookup ex_names ex_write [1; 0] ex_writer ex_G0) 0
  <> g_loc (run_alone ex_lookup ex_names ex_write 0 (ex_writer 0) ex_G0) 0.
Proof.
  split; [|split].
  - intros [|[|t]]; cbn; repeat constructor.
  - intros [|[|t]]; reflexivity.
  - vm_compute. discriminate.
Qed.

(* goroutine 1's "local" action scribbles on goroutine 0's state (a shared
   scratch buffer): registry untouched, not confined *)
Definition ex_scribbler : pvec nat nat nat :=
  fun t => match t with
           | 0 => [Local (fun ls => upd ls 0 (ls 0 + 1))]
           | 1 => [Local (fun ls => upd ls 0 40)]
           | _ => []
           end.

Lemma needs_confinement :
  reads_registry_only ex_scribbler /\ complete [1; 0] ex_scribbler /\
  g_loc (run_sched ex_lookup ex_names ex_write [1; 0] ex_scribbler ex_G0) 0
  <> g_loc (run_alone ex_lookup ex_names ex_write 0 (ex_scribbler 0) ex_G0) 0.
Proof.
  split; [|split].
  - intros [|[|t]]; cbn; repeat constructor.
  - intros [|[|t]]; reflexivity.
  - vm_compute. discriminate.
Qed.

(* non-vacuity: three confined goroutines (build, look a decoration up,
   render = add what was read; list the names), two different merges, both
   equal to the solo runs *)
Definition ex_ok : pvec nat nat nat :=
  fun t => match t with
           | 0 => [Local (fun ls => upd ls 0 (ls 0 + 5)); RegRead 7 (fun d l => l + d); Local (fun ls => upd ls 0 (2 * ls 0))]
           | 1 => [RegNames (fun l _ => length l); Local (fun ls => upd ls 1 (ls 1 + 1))]
           | 2 => [RegRead 9 (fun d _ => d)]
           | _ => []
           end.

Lemma ex_ok_confined : confined ex_ok.
Proof.
  intros [|[|[|t]]]; cbn; repeat constructor; cbn.
  all: try (intros ls u Hu; apply upd_other; exact Hu).
  all: intros ls ls' E; unfold upd; cbn; rewrite E; reflexivity.
Qed.

Lemma ex_ok_ro : reads_registry_only ex_ok.
Proof. intros [|[|[|t]]]; cbn; repeat constructor. Qed.

Lemma ex_ok_runs :
  complete [0; 1; 2; 0; 1; 0] ex_ok /\ complete [2; 1; 1; 0; 0; 0] ex_ok /\
  let G1 := run_sched ex_lookup ex_names ex_write [0; 1; 2; 0; 1; 0] ex_ok ex_G0 in
  let G2 := run_sched ex_lookup ex_names ex_write [2; 1; 1; 0; 0; 0] ex_ok ex_G0 in
  map (g_loc G1) [0; 1; 2] = [12; 2; 0] /\ map (g_loc G2) [0; 1; 2] = [12; 2; 0] /\
  g_obs G1 0 = [ORead 7 1] /\ g_obs G2 1 = [ONames [7]] /\
  g_loc (run_alone ex_lookup ex_names ex_write 0 (ex_ok 0) ex_G0) 0 = 12.
Proof.
  split; [|split].
  - intros [|[|[|t]]]; reflexivity.
  - intros [|[|[|t]]]; reflexivity.
  - vm_compute. repeat split; reflexivity.
Qed.


(* ------------------------------------------------------------------ *)
(* What shared_ok = true says, fact by fact. *)

Lemma shared_ok_sound : forall fs,
  shared_ok fs = true ->
  forall pkg var path meth k fn line sy locked,
    In (FAcc pkg var path meth k fn line sy locked) fs ->
    (k = ARead -> locked = true) /\
    (k = AAddr -> sy = true) /\
    (mutating k = true -> sy = true \/ (is_guarded_field pkg var path = true /\ locked = true /\ k <> AAddr)).
Proof.
  intros fs H pkg var path meth k fn line sy locked Hin.
  unfold shared_ok in H. rewrite forallb_forall in H. specialize (H _ Hin). cbn in H.
  destruct k; cbn; repeat split; try discriminate; intros _; try exact H.
  all: try (apply orb_true_iff in H; destruct H as [H|H]; [left; exact H|right;
       apply andb_true_iff in H; destruct H as [H1 H2]; repeat split; [exact H1|exact H2|discriminate]]).
  left; exact H.
Qed.

(* an unguarded package-level cache is rejected, the pinned registry accepted *)
Lemma shared_ok_example :
  shared_ok [FVar s_decoration s_registry [] false;
             FAcc s_decoration s_registry [] [76%N] APtrCall [] 33 true false;
             FAcc s_decoration s_registry s_table [] AFieldAssign [] 34 false true;
             FAcc s_decoration s_registry s_table [] ARead [] 44 false true] = true
  /\ shared_ok [FVar [99%N] [115%N] [] false; FAcc [99%N] [115%N] [] [] AAssign [] 10 false false] = false
  /\ shared_ok [FAcc s_decoration s_registry s_table [] ARead [] 58 false false] = false.
Proof. vm_compute. repeat split; reflexivity. Qed.
