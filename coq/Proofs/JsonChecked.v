(* C07, part 5: the round trip with the oracle assumption in checkable form,
   and the key-equality clause. *)
From Tab Require Import Model.Json Spec.JsonParse Spec.JsonExpect
     Proofs.JsonModelProofs Proofs.JsonProofs Proofs.JsonErrProofs Proofs.JsonFrame.

Theorem json_valid_and_mirrors_checked strenc v :
  wf_view v -> encodings_validb strenc v = true ->
  match json_render strenc v with
  | Ok out =>
      ~ json_error_condition v
      /\ parse_json out
         = Some (json_expected (fun s => dec_str (strenc s))
                               (cell_denotation (fun s => dec_str (strenc s)) dec_val) v)
  | Err => json_error_condition v
  | Panic => False
  end.
Proof.
  intros Hwf H.
  exact (json_valid_and_mirrors strenc (fun s => dec_str (strenc s)) dec_val v Hwf
           (encodings_validb_ok strenc v H)).
Qed.

Lemma row_members_keys_ext (k1 k2 : bytes -> bytes) cv v : forall hs i cells,
  Forall (fun h => k1 (vc_text h) = k2 (vc_text h)) hs ->
  row_members k1 cv v hs i cells = row_members k2 cv v hs i cells.
Proof.
  induction hs as [|h hs IH]; intros i [|c cells] H; try reflexivity.
  inversion H as [|? ? Hh Hr]; subst. cbn [row_members]. rewrite Hh, (IH (S i) cells Hr). reflexivity.
Qed.

(* where every header text's encoding denotes the text itself (valid UTF-8,
   DESIGN 13.9), the keys of every object are the header texts *)
Theorem json_keys_are_header_texts (strval : bytes -> bytes) cv v :
  Forall (fun h => strval (vc_text h) = vc_text h) (header_cells v) ->
  json_expected strval cv v = json_expected (fun s => s) cv v.
Proof.
  intros H. unfold json_expected, row_object. f_equal. apply map_ext. intros cells. f_equal.
  apply row_members_keys_ext. exact H.
Qed.

(* ---------- the decidable oracle of Run/C07Run.v means what it says ---------- *)

Lemma jvalue_eqb_sound : forall a b, jvalue_eqb a b = true -> a = b.
Proof.
  fix IH 1. intros a b. destruct a as [|x|x|x|xs|ms], b as [|y|y|y|ys|ns];
    cbn [jvalue_eqb]; try discriminate; intros H.
  - reflexivity.
  - apply Bool.eqb_prop in H. subst. reflexivity.
  - apply bytes_eqb_eq in H. subst. reflexivity.
  - apply bytes_eqb_eq in H. subst. reflexivity.
  - f_equal. revert ys H. induction xs as [|x xs IHl]; intros [|y ys] H; try discriminate; [reflexivity|].
    apply andb_true_iff in H as [H1 H2]. f_equal; [apply IH, H1 | apply IHl, H2].
  - f_equal. revert ns H. induction ms as [|[k x] ms IHl]; intros [|[k' y] ns] H; try discriminate; [reflexivity|].
    apply andb_true_iff in H as [H1 H3]. apply andb_true_iff in H1 as [H1 H2].
    apply bytes_eqb_eq in H1. subst k'. f_equal; [f_equal; apply IH, H2 | apply IHl, H3].
Qed.
