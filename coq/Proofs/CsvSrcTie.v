(* The tie between the TRANSLATED SOURCE of csv/csv.go (Generated/CsvSrc.v, written
   by tools/go2coq from the Go text) and the hand-written model Model/Csv.v.

   Loop facts are stated against the loop combinators of Base/GoSem.v
   (iterate_rule / range_rule) with an invariant over the loop-carried locals;
   the generated loop bodies are only ever run symbolically (one trip), so that
   renamings and small rearrangements of the source do not touch the proofs. *)
From Tab Require Import Base.GoSem Model.Csv Model.CsvSession.
From Tab Require Import Generated.CsvSrc.
Local Open Scope Z_scope.

(* symbolic execution of straight-line generated code *)
Lemma mbind_ret_l' {A B} (a : A) (f : A -> M B) : mbind ([], Done (Ok a)) f = f a.
Proof. apply mbind_ret_l. Qed.
Lemma sbind_norm' {S S' L R} (s : S) (k : S -> M (ctl S' L R)) : sbind ([], Done (Ok (Norm s))) k = k s.
Proof. apply sbind_norm. Qed.
Ltac mstep := rewrite ?mbind_ret_l, ?sbind_norm, ?mbind_ret_l', ?sbind_norm'; cbv beta iota zeta.

(* ================================================================ csvEscape *)

Lemma csv_escape_body_le s : (length (csv_escape_body s) <= 2 * length s)%nat.
Proof.
  induction s as [|b s IH]; cbn [csv_escape_body length]; [lia|].
  destruct (N.eqb b DQ); cbn [length]; lia.
Qed.

(* loop-carried locals of the copy loop: the buffer b, the write position j, the
   read position i.  n bytes of the input (rest) are still to be copied; pre is
   what the buffer holds so far, pad the untouched remainder, which must have
   room for 2 bytes per input byte plus the closing quote. *)
Definition esc_inv {L' R} (s : bytes) (n : nat) (l : bytes * Z * Z) (ws : wlist)
           (o : fres (ctl (bytes * Z * Z) L' R)) : Prop :=
  let '(b, j, i) := l in
  ws = [] /\ exists done rest pre pad,
    s = done ++ rest /\ length rest = n /\ i = Zlen done /\ j = Zlen pre /\ b = pre ++ pad
    /\ (2 * n + 1 <= length pad)%nat
    /\ o = Done (Ok (Norm (pre ++ csv_escape_body rest ++ skipn (length (csv_escape_body rest)) pad,
                           Zlen (pre ++ csv_escape_body rest), Zlen s))).

Theorem src_csvEscape_is_model : forall s, src_csvEscape s = Ok (csv_escape s).
Proof.
  intros s. unfold src_csvEscape, pure_fn, fn_body.
  replace (Zlen s * 2 + 2) with (Z.of_nat (length s * 2 + 2)) by (unfold Zlen; lia).
  rewrite make_bytes_nat. mstep.
  replace (length s * 2 + 2)%nat with (S (2 * length s + 1)) by lia. cbn [repeat].
  rewrite (store_at _ 0 _ [] 0%N (repeat 0%N (2 * length s + 1))) by reflexivity. mstep.
  cbn [app]. unfold for_loop.
  set (body := csv_escape_body s).
  erewrite (iterate_rule _ (esc_inv s)) with (n := length s) (ws := [])
    (o := Done (Ok (Norm ([DQ] ++ body ++ skipn (length body) (repeat 0%N (2 * length s + 1)),
                          Zlen ([DQ] ++ body), Zlen s)))).
  - (* after the loop *)
    mstep.
    assert (Hpad : exists y pad', skipn (length body) (repeat 0%N (2 * length s + 1)) = y :: pad').
    { pose proof (csv_escape_body_le s). fold body in H.
      destruct (skipn (length body) (repeat 0%N (2 * length s + 1))) eqn:E.
      - apply (f_equal (@length _)) in E. rewrite skipn_length, repeat_length in E. cbn in E. lia.
      - eauto. }
    destruct Hpad as (y & pad' & Hpad). rewrite Hpad.
    erewrite (store_at _ _ _ ([DQ] ++ body) y pad') by (rewrite <- ?app_assoc; reflexivity). mstep.
    erewrite (slice_to_at _ _ (([DQ] ++ body) ++ [DQ]) pad').
    + mstep. reflexivity.
    + rewrite <- !app_assoc. reflexivity.
    + rewrite !Zlen_app. unfold Zlen. cbn [length]. lia.
  - (* the last evaluation of the condition leaves the loop *)
    intros [[b j] i] ws o [-> (done & rest & pre & pad & Hs & Hn & -> & -> & -> & Hpad & ->)] k.
    destruct rest; [|discriminate]. rewrite app_nil_r in Hs. subst done.
    unfold loop_iter. rewrite Z.ltb_irrefl. mstep. cbn [iter_k csv_escape_body length skipn app].
    rewrite ?app_nil_r. reflexivity.
  - (* one trip *)
    intros n [[b j] i] ws o [-> (done & rest & pre & pad & Hs & Hn & -> & -> & -> & Hpad & ->)].
    destruct rest as [|x rest]; [discriminate|]. cbn [length] in Hn.
    destruct pad as [|p1 [|p2 pad]]; cbn [length] in Hpad; try lia.
    assert (Hlt : (Zlen done <? Zlen s) = true).
    { apply Z.ltb_lt. subst s. rewrite Zlen_app, Zlen_cons. pose proof (Zlen_nonneg rest). lia. }
    unfold loop_iter. rewrite Hlt. mstep.
    rewrite (index_at s _ done x rest Hs eq_refl). mstep.
    rewrite (store_at _ _ x pre p1 (p2 :: pad) eq_refl eq_refl). mstep.
    cbn [csv_escape_body]. change 34%N with DQ. destruct (N.eqb x DQ) eqn:Ex.
    + erewrite (store_at _ _ DQ (pre ++ [x]) p2 pad);
        [| rewrite <- app_assoc; reflexivity | rewrite Zlen_app; unfold Zlen; cbn [length]; lia].
      repeat mstep.
      exists [], ((pre ++ [x]) ++ DQ :: pad, Zlen pre + 1 + 1, Zlen done + 1), [].
      split; [left; reflexivity|]. split; [reflexivity|].
      split; [reflexivity|].
      exists (done ++ [x]), rest, ((pre ++ [x]) ++ [DQ]), pad.
      apply N.eqb_eq in Ex. subst x.
      repeat split.
      * rewrite <- app_assoc. exact Hs.
      * lia.
      * rewrite Zlen_app. unfold Zlen. cbn [length]. lia.
      * rewrite !Zlen_app. unfold Zlen. cbn [length]. lia.
      * rewrite <- !app_assoc. reflexivity.
      * lia.
      * cbn [length skipn]. rewrite <- !app_assoc. cbn [app]. reflexivity.
    + repeat mstep.
      exists [], (pre ++ x :: p2 :: pad, Zlen pre + 1, Zlen done + 1), [].
      split; [left; reflexivity|]. split; [reflexivity|].
      split; [reflexivity|].
      exists (done ++ [x]), rest, (pre ++ [x]), (p2 :: pad).
      repeat split.
      * rewrite <- app_assoc. exact Hs.
      * lia.
      * rewrite Zlen_app. unfold Zlen. cbn [length]. lia.
      * rewrite !Zlen_app. unfold Zlen. cbn [length]. lia.
      * rewrite <- !app_assoc. reflexivity.
      * cbn [length]. lia.
      * cbn [length skipn]. rewrite <- !app_assoc. cbn [app]. reflexivity.
  - (* the invariant holds on entry *)
    split; [reflexivity|].
    exists [], s, [DQ], (repeat 0%N (2 * length s + 1)).
    repeat split. rewrite repeat_length. lia.
  - unfold fuel_upto. unfold Zlen. lia.
Qed.
