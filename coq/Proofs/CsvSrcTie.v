(* The tie between the TRANSLATED SOURCE of csv/csv.go (Generated/CsvSrc.v, written
   by tools/go2coq from the Go text) and the hand-written model Model/Csv.v.

   Loop facts are stated against the loop combinators of Base/GoSem.v
   (iterate_rule / range_rule) with an invariant over the loop-carried locals;
   the generated loop bodies are only ever run symbolically (one trip), so that
   renamings and small rearrangements of the source do not touch the proofs. *)
From Tab Require Import Base.GoSem Model.Csv Model.CsvSession.
From Tab Require Import Generated.CsvSrc.
Local Open Scope Z_scope.

(* symbolic execution of straight-line generated code *)
Lemma mbind_ret_l' {A B} (a : A) (f : A -> M B) : mbind ([], Done (Ok a)) f = f a.
Proof. apply mbind_ret_l. Qed.
Lemma sbind_norm' {S S' L R} (s : S) (k : S -> M (ctl S' L R)) : sbind ([], Done (Ok (Norm s))) k = k s.
Proof. apply sbind_norm. Qed.
Ltac mstep := rewrite ?mbind_ret_l, ?sbind_norm, ?mbind_ret_l', ?sbind_norm'; cbv beta iota zeta.

(* ================================================================ csvEscape *)

Lemma csv_escape_body_le s : (length (csv_escape_body s) <= 2 * length s)%nat.
Proof.
  induction s as [|b s IH]; cbn [csv_escape_body length]; [lia|].
  destruct (N.eqb b DQ); cbn [length]; lia.
Qed.

(* loop-carried locals of the copy loop: the buffer b, the write position j, the
   read position i.  n bytes of the input (rest) are still to be copied; pre is
   what the buffer holds so far, pad the untouched remainder, which must have
   room for 2 bytes per input byte plus the closing quote. *)
Definition esc_inv {L' R} (s : bytes) (n : nat) (l : bytes * Z * Z) (ws : wlist)
           (o : fres (ctl (bytes * Z * Z) L' R)) : Prop :=
  let '(b, j, i) := l in
  ws = [] /\ exists done rest pre pad,
    s = done ++ rest /\ length rest = n /\ i = Zlen done /\ j = Zlen pre /\ b = pre ++ pad
    /\ (2 * n + 1 <= length pad)%nat
    /\ o = Done (Ok (Norm (pre ++ csv_escape_body rest ++ skipn (length (csv_escape_body rest)) pad,
                           Zlen (pre ++ csv_escape_body rest), Zlen s))).

Theorem src_csvEscape_is_model : forall s, src_csvEscape s = Ok (csv_escape s).
Proof.
  intros s. unfold src_csvEscape, pure_fn, fn_body.
  replace (Zlen s * 2 + 2) with (Z.of_nat (length s * 2 + 2)) by (unfold Zlen; lia).
  rewrite make_bytes_nat. mstep.
  replace (length s * 2 + 2)%nat with (S (2 * length s + 1)) by lia. cbn [repeat].
  rewrite (store_at _ 0 _ [] 0%N (repeat 0%N (2 * length s + 1))) by reflexivity. mstep.
  cbn [app]. unfold for_loop.
  set (body := csv_escape_body s).
  erewrite (iterate_rule _ (esc_inv s)) with (n := length s) (ws := [])
    (o := Done (Ok (Norm ([DQ] ++ body ++ skipn (length body) (repeat 0%N (2 * length s + 1)),
                          Zlen ([DQ] ++ body), Zlen s)))).
  - (* after the loop *)
    mstep.
    assert (Hpad : exists y pad', skipn (length body) (repeat 0%N (2 * length s + 1)) = y :: pad').
    { pose proof (csv_escape_body_le s). fold body in H.
      destruct (skipn (length body) (repeat 0%N (2 * length s + 1))) eqn:E.
      - apply (f_equal (@length _)) in E. rewrite skipn_length, repeat_length in E. cbn in E. lia.
      - eauto. }
    destruct Hpad as (y & pad' & Hpad). rewrite Hpad.
    erewrite (store_at _ _ _ ([DQ] ++ body) y pad') by (rewrite <- ?app_assoc; reflexivity). mstep.
    erewrite (slice_to_at _ _ (([DQ] ++ body) ++ [DQ]) pad').
    + mstep. reflexivity.
    + rewrite <- !app_assoc. reflexivity.
    + rewrite !Zlen_app. unfold Zlen. cbn [length]. lia.
  - (* the last evaluation of the condition leaves the loop *)
    intros [[b j] i] ws o [-> (done & rest & pre & pad & Hs & Hn & -> & -> & -> & Hpad & ->)] k.
    destruct rest; [|discriminate]. rewrite app_nil_r in Hs. subst done.
    unfold loop_iter. rewrite Z.ltb_irrefl. mstep. cbn [iter_k csv_escape_body length skipn app].
    rewrite ?app_nil_r. reflexivity.
  - (* one trip *)
    intros n [[b j] i] ws o [-> (done & rest & pre & pad & Hs & Hn & -> & -> & -> & Hpad & ->)].
    destruct rest as [|x rest]; [discriminate|]. cbn [length] in Hn.
    destruct pad as [|p1 [|p2 pad]]; cbn [length] in Hpad; try lia.
    assert (Hlt : (Zlen done <? Zlen s) = true).
    { apply Z.ltb_lt. subst s. rewrite Zlen_app, Zlen_cons. pose proof (Zlen_nonneg rest). lia. }
    unfold loop_iter. rewrite Hlt. mstep.
    rewrite (index_at s _ done x rest Hs eq_refl). mstep.
    rewrite (store_at _ _ x pre p1 (p2 :: pad) eq_refl eq_refl). mstep.
    cbn [csv_escape_body]. change 34%N with DQ. destruct (N.eqb x DQ) eqn:Ex.
    + erewrite (store_at _ _ DQ (pre ++ [x]) p2 pad);
        [| rewrite <- app_assoc; reflexivity | rewrite Zlen_app; unfold Zlen; cbn [length]; lia].
      repeat mstep.
      exists [], ((pre ++ [x]) ++ DQ :: pad, Zlen pre + 1 + 1, Zlen done + 1), [].
      split; [left; reflexivity|]. split; [reflexivity|].
      split; [reflexivity|].
      exists (done ++ [x]), rest, ((pre ++ [x]) ++ [DQ]), pad.
      apply N.eqb_eq in Ex. subst x.
      repeat split.
      * rewrite <- app_assoc. exact Hs.
      * lia.
      * rewrite Zlen_app. unfold Zlen. cbn [length]. lia.
      * rewrite !Zlen_app. unfold Zlen. cbn [length]. lia.
      * rewrite <- !app_assoc. reflexivity.
      * lia.
      * cbn [length skipn]. rewrite <- !app_assoc. cbn [app]. reflexivity.
    + repeat mstep.
      exists [], (pre ++ x :: p2 :: pad, Zlen pre + 1, Zlen done + 1), [].
      split; [left; reflexivity|]. split; [reflexivity|].
      split; [reflexivity|].
      exists (done ++ [x]), rest, (pre ++ [x]), (p2 :: pad).
      repeat split.
      * rewrite <- app_assoc. exact Hs.
      * lia.
      * rewrite Zlen_app. unfold Zlen. cbn [length]. lia.
      * rewrite !Zlen_app. unfold Zlen. cbn [length]. lia.
      * rewrite <- !app_assoc. reflexivity.
      * cbn [length]. lia.
      * cbn [length skipn]. rewrite <- !app_assoc. cbn [app]. reflexivity.
  - (* the invariant holds on entry *)
    split; [reflexivity|].
    exists [], s, [DQ], (repeat 0%N (2 * length s + 1)).
    repeat split. rewrite repeat_length. lia.
  - unfold fuel_upto. unfold Zlen. lia.
Qed.

(* ================================================================ emitRow *)

Ltac wstep1 := rewrite ?mbind_ret_l, ?sbind_norm, ?mbind_ret_l', ?sbind_norm', ?mbind_write',
                ?sbind_ok, ?mbind_ok', ?mbind_pre_w, ?sbind_pre_w, ?lift_pure_ok; cbv beta iota zeta.
Ltac wstep := repeat progress wstep1.

Definition sep_field (c : bytes) : bytes := csv_escape c ++ [COMMA].

(* first loop: i counts the fields written with a trailing separator; k more to go *)
Definition row_inv1 {L' R} (cells : list vcell) (k : nat) (i : Z) (ws : wlist) (o : fres (ctl Z L' R)) : Prop :=
  exists j : nat, i = Z.of_nat j /\ (j + k = length cells - 1)%nat
    /\ ws = checked (map sep_field (firstn k (skipn j (row_texts cells))))
    /\ o = Done (Ok (Norm (Z.of_nat (length cells - 1)))).

(* padding loop: k empty fields to go *)
Definition row_inv2 {L' R} (n : nat) (k : nat) (i : Z) (ws : wlist) (o : fres (ctl Z L' R)) : Prop :=
  i = Z.of_nat n - Z.of_nat k /\ ws = repeat ([COMMA; DQ; DQ], true) k /\ o = Done (Ok (Norm (Z.of_nat n))).

Lemma nth_error_row_texts cells j c : nth_error cells j = Some c -> nth_error (row_texts cells) j = Some (vc_text c).
Proof. intros H. unfold row_texts. rewrite nth_error_map, H. reflexivity. Qed.

Definition of_model (r : res (list bytes)) : M unit :=
  match r with
  | Ok ws => (checked ws, Done (Ok tt))
  | Err => ([], Done Err)
  | Panic => ([], Done Panic)
  end.

Theorem src_emitRow_is_model : forall n cells,
  src_emitRow (Z.of_nat n) cells = of_model (csv_emit_row n (row_texts cells)).
Proof.
  intros n cells. unfold src_emitRow, csv_emit_row. cbv zeta.
  assert (Hlen : length (row_texts cells) = length cells) by apply map_length.
  rewrite Hlen. set (m := length cells) in *.
  assert (HZ : Zlen cells = Z.of_nat m) by reflexivity. rewrite HZ.
  destruct (n <? m)%nat eqn:E.
  { apply Nat.ltb_lt in E. assert (H : (Z.of_nat n <? Z.of_nat m) = true) by (apply Z.ltb_lt; lia).
    rewrite H. reflexivity. }
  apply Nat.ltb_ge in E. assert (H : (Z.of_nat n <? Z.of_nat m) = false) by (apply Z.ltb_ge; lia).
  rewrite H. clear H. wstep. unfold for_loop.
  erewrite (iterate_rule _ (row_inv1 cells)) with (n := (m - 1)%nat)
    (ws := checked (map sep_field (firstn (m - 1) (row_texts cells))))
    (o := Done (Ok (Norm (Z.of_nat (m - 1))))).
  2:{ (* leaving the first loop *)
    intros i ws o (j & -> & Hj & -> & ->) k. unfold loop_iter.
    assert (H : (Z.of_nat j <? Z.of_nat m - 1) = false) by (apply Z.ltb_ge; lia).
    rewrite H. wstep. rewrite Nat.add_0_r in Hj. rewrite Hj. reflexivity. }
  2:{ (* one trip of the first loop *)
    intros k i ws o (j & -> & Hj & -> & ->). unfold loop_iter.
    assert (H : (Z.of_nat j <? Z.of_nat m - 1) = true) by (apply Z.ltb_lt; lia).
    rewrite H. wstep.
    destruct (idx_lt cells j ltac:(lia)) as (c & _ & Hc).
    rewrite (index_nat cells j c Hc). wstep. rewrite src_csvEscape_is_model. wstep.
    exists [(sep_field (vc_text c), true)], (Z.of_nat (S j)), (checked (map sep_field (firstn k (skipn (S j) (row_texts cells))))).
    split; [left; replace (Z.of_nat (S j)) with (Z.of_nat j + 1) by lia; reflexivity|].
    split.
    - rewrite (skipn_nth _ _ _ (nth_error_row_texts _ _ _ Hc)). reflexivity.
    - exists (S j). repeat split; lia. }
  2:{ exists 0%nat. repeat split; try lia. }
  2:{ unfold fuel_upto. lia. }
  wstep.
  (* the last field (or the first padding field of a row without cells) *)
  match goal with |- context [sbind (if Z.of_nat m >? 0 then ?A else ?B) ?K] =>
    assert (Hmid : exists w2 i2,
      (if (0 <? m)%nat
       then bind (idx (row_texts cells) (m - 1)) (fun c => Ok ([csv_escape c], m))
       else if (0 <? n)%nat then Ok ([[DQ; DQ]], 1%nat) else Ok ([], 0%nat)) = Ok (w2, i2)
      /\ (i2 <= n)%nat
      /\ sbind (if Z.of_nat m >? 0 then A else B) K = pre_w (checked w2) (K (Z.of_nat i2)))
  end.
  { destruct (0 <? m)%nat eqn:E0.
    - apply Nat.ltb_lt in E0. assert (H : (Z.of_nat m >? 0) = true) by (apply Z.gtb_lt; lia).
      destruct (idx_lt cells (m - 1)%nat ltac:(fold m; lia)) as (c & _ & Hc).
      exists [csv_escape (vc_text c)], m. split; [|split; [lia|]].
      + unfold idx. rewrite (nth_error_row_texts _ _ _ Hc). reflexivity.
      + rewrite H, (index_nat cells _ c Hc). wstep. rewrite src_csvEscape_is_model. wstep.
        replace (Z.of_nat (m - 1) + 1) with (Z.of_nat m) by lia. reflexivity.
    - apply Nat.ltb_ge in E0. assert (Hm : m = 0%nat) by lia. rewrite Hm. cbn [Z.of_nat Nat.sub].
      change (0 >? 0) with false. cbv iota.
      destruct (0 <? n)%nat eqn:E1.
      + apply Nat.ltb_lt in E1. assert (H : (Z.of_nat n >? 0) = true) by (apply Z.gtb_lt; lia).
        exists [[DQ; DQ]], 1%nat. split; [reflexivity|]. split; [lia|]. rewrite H. wstep. reflexivity.
      + apply Nat.ltb_ge in E1. assert (H : (Z.of_nat n >? 0) = false) by (rewrite Z.gtb_ltb; apply Z.ltb_ge; lia).
        exists [], 0%nat. split; [reflexivity|]. split; [lia|]. rewrite H. wstep. rewrite pre_w_nil. reflexivity. }
  destruct Hmid as (w2 & i2 & Hmodel & Hi2 & Hsrc). rewrite Hmodel. cbn [bind]. cbv beta iota.
  rewrite Hsrc. unfold for_loop.
  erewrite (iterate_rule _ (row_inv2 n)) with (n := (n - i2)%nat)
    (ws := repeat ([COMMA; DQ; DQ], true) (n - i2)) (o := Done (Ok (Norm (Z.of_nat n)))).
  2:{ intros i ws o (-> & -> & ->) k. unfold loop_iter. rewrite Z.sub_0_r, Z.ltb_irrefl. wstep. reflexivity. }
  2:{ intros k i ws o (-> & -> & ->). unfold loop_iter.
      assert (H : (Z.of_nat n - Z.of_nat (S k) <? Z.of_nat n) = true) by (apply Z.ltb_lt; lia).
      rewrite H. wstep.
      exists [([COMMA; DQ; DQ], true)], (Z.of_nat n - Z.of_nat k), (repeat ([COMMA; DQ; DQ], true) k).
      split; [left; replace (Z.of_nat n - Z.of_nat k) with (Z.of_nat n - Z.of_nat (S k) + 1) by lia; reflexivity|].
      split; [reflexivity|]. repeat split. }
  2:{ repeat split. lia. }
  2:{ unfold fuel_upto. lia. }
  wstep. unfold fn_body. wstep.
  unfold of_model, pre_w, ret. cbn [fst snd].
  rewrite !checked_app, checked_repeat, !app_nil_r. reflexivity.
Qed.

(* ================================================================ RenderTo *)
From Tab Require Import Spec.CsvParse Proofs.CsvProofs Proofs.CsvSessionProofs.

(* how a loop over the rows ends, given how the model's running form ends *)
Definition tr_out {S L R} (e : res unit) (s : S) : fres (ctl S L R) :=
  match e with Ok _ => Done (Ok (Norm s)) | Err => Done Err | Panic => Done Panic end.

Definition rows_records (rs : list vrow) : list (list bytes) :=
  map row_texts (flat_map (fun r => match r with Some cs => [cs] | None => [] end) rs).

Definition rows_inv {L' R} (n : nat) (rs : list vrow) (l : unit) (ws : wlist) (o : fres (ctl unit L' R)) : Prop :=
  ws = checked (fst (csv_emit_rows_tr n (rows_records rs)))
  /\ o = tr_out (snd (csv_emit_rows_tr n (rows_records rs))) tt.

Lemma of_model_cases n cells :
  (exists w, csv_emit_row n (row_texts cells) = Ok w /\ src_emitRow (Z.of_nat n) cells = (checked w, Done (Ok tt)))
  \/ (csv_emit_row n (row_texts cells) = Err /\ src_emitRow (Z.of_nat n) cells = ([], Done Err))
  \/ (csv_emit_row n (row_texts cells) = Panic /\ src_emitRow (Z.of_nat n) cells = ([], Done Panic)).
Proof.
  rewrite src_emitRow_is_model. destruct (csv_emit_row n (row_texts cells)) as [w| |]; cbn [of_model]; eauto.
Qed.

(* RenderTo as it runs: the writes issued (all checked, also when it stops with
   an error part-way) and how it ends are those of the model's running form *)
Theorem src_RenderTo_trace : forall v,
  src_RenderTo v = (checked (fst (csv_render_to_tr v)), Done (snd (csv_render_to_tr v))).
Proof.
  intros v. unfold src_RenderTo, csv_render_to_tr, tbl_InvokeRenderCallbacks, tbl_NColumns, tbl_Headers, tbl_AllRows.
  wstep. set (n := v_ncols v).
  destruct (n <? 1)%nat eqn:E.
  { apply Nat.ltb_lt in E. assert (H : (Z.of_nat n <? 1) = true) by (apply Z.ltb_lt; lia). rewrite H. reflexivity. }
  apply Nat.ltb_ge in E. assert (H : (Z.of_nat n <? 1) = false) by (apply Z.ltb_ge; lia). rewrite H. clear H. wstep.
  (* the loop over the rows, for any list of rows *)
  match goal with |- context [range_loop _ ?body tt] =>
    assert (Hloop : forall rs : list vrow,
      range_loop (L':=Empty_set) (R:=unit) rs body tt
      = (checked (fst (csv_emit_rows_tr n (rows_records rs))), tr_out (snd (csv_emit_rows_tr n (rows_records rs))) tt))
  end.
  { intros rs. apply (range_rule _ (rows_inv n)); [| |split; reflexivity].
    - intros [] ws o [-> ->]. split; reflexivity.
    - intros r rs' [] ws o [-> ->]. destruct r as [cs|].
      + cbn [row_IsSeparator row_Cells slice_of]. wstep.
        unfold rows_records. cbn [flat_map app map csv_emit_rows_tr]. fold (rows_records rs').
        destruct (of_model_cases n cs) as [(w & -> & ->) | [[-> ->] | [-> ->]]].
        * left. exists (checked w), tt, (checked (fst (csv_emit_rows_tr n (rows_records rs')))).
          split; [left; wstep; unfold pre_w, ret; cbn [fst snd]; rewrite app_nil_r; reflexivity|].
          unfold rows_inv. destruct (csv_emit_rows_tr n (rows_records rs')) as [ws e]. cbn [fst snd].
          split; [apply checked_app|]. split; reflexivity.
        * right. intros k. reflexivity.
        * right. intros k. reflexivity.
      + left. cbn [row_IsSeparator]. wstep. exists [], tt, (checked (fst (csv_emit_rows_tr n (rows_records (None :: rs'))))).
        split; [right; reflexivity|]. split; [reflexivity|]. split; reflexivity. }
  unfold csv_records, body_rows. fold (rows_records (v_rows v)).
  destruct (v_header v) as [h|]; cbn [not_nil slice_of app csv_emit_rows_tr].
  - destruct (of_model_cases n h) as [(w & -> & ->) | [[-> ->] | [-> ->]]]; try reflexivity.
    wstep. rewrite Hloop.
    destruct (csv_emit_rows_tr n (rows_records (v_rows v))) as [ws [[]| |]]; cbn [fst snd tr_out];
      unfold fn_body; wstep; unfold pre_w, ret, sbind, mbind; cbn [fst snd]; rewrite ?app_nil_r, ?checked_app; reflexivity.
  - wstep. rewrite Hloop.
    destruct (csv_emit_rows_tr n (rows_records (v_rows v))) as [ws [[]| |]]; cbn [fst snd tr_out];
      unfold fn_body; wstep; unfold pre_w, ret, sbind, mbind; cbn [fst snd]; rewrite ?app_nil_r, ?checked_app; reflexivity.
Qed.

Lemma csv_render_writes_tr v : csv_render_writes v = tr_result (csv_render_to_tr v).
Proof.
  unfold csv_render_writes, csv_render_to_tr. destruct (v_ncols v <? 1)%nat; [reflexivity|].
  apply csv_emit_rows_tr_agrees.
Qed.

Lemma payloads_checked l : payloads (checked l) = concat l.
Proof. unfold payloads, checked. rewrite map_map. cbn [fst]. rewrite map_id. reflexivity. Qed.

(* the outcome of the model's write list, as an outcome of RenderTo *)
Definition outcome_of (r : res (list bytes)) : res unit :=
  match r with Ok _ => Ok tt | Err => Err | Panic => Panic end.

(* For EVERY view (no hypothesis): RenderTo of the translated source ends as
   Model/Csv.v's csv_render_writes says (ok / error; never a panic, never out of
   fuel); when that is Ok ws the writes are exactly ws, in order; and every
   write it ever issues - also before an error part-way - is checked. *)
Theorem src_RenderTo_is_model : forall v,
  snd (src_RenderTo v) = Done (outcome_of (csv_render_writes v))
  /\ (forall ws, csv_render_writes v = Ok ws -> src_RenderTo v = (checked ws, Done (Ok tt)))
  /\ all_checked (fst (src_RenderTo v)).
Proof.
  intros v. rewrite src_RenderTo_trace, csv_render_writes_tr. unfold tr_result.
  destruct (csv_render_to_tr v) as [ws [[]| |]]; cbn [fst snd outcome_of].
  all: split; [reflexivity|]; split; [|apply all_checked_checked].
  all: intros ws' H; inversion H; reflexivity.
Qed.

Theorem src_RenderTo_no_panic_no_fuel : forall v,
  snd (src_RenderTo v) = Done (Ok tt) \/ snd (src_RenderTo v) = Done Err.
Proof.
  intros v. destruct (src_RenderTo_is_model v) as [H _]. rewrite H.
  pose proof (csv_no_panic v) as Hp. unfold csv_render in Hp.
  destruct (csv_render_writes v); cbn [outcome_of bind] in *; auto. congruence.
Qed.

(* the round trip, for what the TRANSLATED SOURCE writes *)
Theorem src_RenderTo_roundtrip : forall v ws,
  src_RenderTo v = (ws, Done (Ok tt)) ->
  parse_csv (payloads ws) = Some (map (pad_to (v_ncols v)) (csv_records v))
  /\ Forall (fun r => length r = v_ncols v) (map (pad_to (v_ncols v)) (csv_records v))
  /\ all_checked ws.
Proof.
  intros v ws H. destruct (src_RenderTo_is_model v) as (Ho & Hw & Hc).
  rewrite H in Ho, Hc. cbn [fst snd] in Ho, Hc.
  destruct (csv_render_writes v) as [l| |] eqn:E; cbn [outcome_of] in Ho; try discriminate.
  rewrite (Hw l eq_refl) in H. inversion H; subst ws.
  assert (Hr : csv_render v = Ok (concat l)) by (unfold csv_render; rewrite E; reflexivity).
  destruct (csv_roundtrip v _ Hr) as [H1 H2]. rewrite payloads_checked. auto.
Qed.
