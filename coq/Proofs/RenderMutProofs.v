(* Renders over the mutation machine (Model/RenderMut.v): a render never makes
   a cell read its item; formats that read cached texts give the same bytes
   however the items have changed meanwhile. *)
From Tab Require Import Model.RenderMut Proofs.TableMutProofs Model.Csv.
From Tab Require Model.Wrap Proofs.WrapProofs.

Section RenderMutProofs.
  Variable W : bytes -> nat.
  Variable json : item -> option bytes.
  Variable out : Wrap.kind -> view -> res bytes.
  Variable degraded : Wrap.kind -> Wrap.mstate -> view -> res bytes.
  Notation rstate := rstate.
  Notation rstep := (rstep W json).
  Notation rrun := (rrun W json).
  Notation rrender := (rrender out degraded).
  Notation consistent := (consistent W json).
  Notation mview := (mview W json).

  Lemma rrun_app s p q : rrun s (p ++ q) = rrun (rrun s p) q.
  Proof. unfold RenderMut.rrun. apply fold_left_app. Qed.

  (* renders and wraps are invisible to the mutation machine *)
  Lemma rrun_m p : forall s, r_m (rrun s p) = fold_left mstep (prog_of p) (r_m s).
  Proof.
    induction p as [|o p IH]; intros s; [reflexivity|].
    cbn [RenderMut.rrun fold_left]. fold (rrun (rstep s o) p). rewrite IH.
    destruct o; reflexivity.
  Qed.

  Lemma step_consistent s o : consistent s -> consistent (rstep s o).
  Proof.
    unfold RenderMut.consistent. intros H. destruct o as [m|k|k]; cbn.
    - reflexivity.
    - destruct (Wrap.measuring k); exact H.
    - exact H.
  Qed.

  Lemma rrun_consistent p : forall s, consistent s -> consistent (rrun s p).
  Proof.
    induction p as [|o p IH]; intros s H; [exact H|].
    cbn [RenderMut.rrun fold_left]. apply IH, step_consistent, H.
  Qed.

  Lemma rinit_consistent e : consistent (rinit W json e).
  Proof. reflexivity. Qed.

  Lemma step_registered s o k :
    existsb (Wrap.kind_eqb k) (Wrap.st_cbs (r_w s)) = true ->
    existsb (Wrap.kind_eqb k) (Wrap.st_cbs (r_w (rstep s o))) = true.
  Proof. intros H. destruct o; cbn [RenderMut.rstep r_w]; apply WrapProofs.step_cbs_mono, H. Qed.

  Lemma rrun_registered p : forall s k,
    existsb (Wrap.kind_eqb k) (Wrap.st_cbs (r_w s)) = true ->
    existsb (Wrap.kind_eqb k) (Wrap.st_cbs (r_w (rrun s p))) = true.
  Proof.
    induction p as [|o p IH]; intros s k H; [exact H|].
    cbn [RenderMut.rrun fold_left]. apply IH, step_registered, H.
  Qed.

  Lemma rwrapped_registered p : forall s k, Wrap.measuring k = true -> rwrapped k p ->
    existsb (Wrap.kind_eqb k) (Wrap.st_cbs (r_w (rrun s p))) = true.
  Proof.
    induction p as [|o p IH]; intros s k Hm Hw; [destruct Hw|].
    cbn [RenderMut.rrun fold_left]. destruct Hw as [->|Hw].
    - apply rrun_registered. cbn. rewrite Hm. cbn. apply WrapProofs.existsb_app_r, WrapProofs.kind_eqb_refl.
    - apply IH; assumption.
  Qed.

  (* after ANY program - building, mutation, update, wraps, renders in any
     order - in which a k-wrapper was made, a render through it is the
     format's output for what the cells have cached and the items are now *)
  Theorem rrender_is_out p s k : consistent s -> rwrapped k p ->
    rrender (rrun s p) k = out k (mview (r_m (rrun s p))).
  Proof.
    intros Hc Hw. pose proof (rrun_consistent p s Hc) as C. unfold RenderMut.consistent in C.
    unfold RenderMut.rrender, Wrap.render.
    destruct k; cbn [Wrap.invoke Wrap.st_view Wrap.st_md Wrap.st_text]; try (rewrite C; reflexivity).
    - rewrite (rwrapped_registered p s Wrap.KMd eq_refl Hw), C. reflexivity.
    - rewrite (rwrapped_registered p s Wrap.KText eq_refl Hw), C. reflexivity.
  Qed.

  (* wraps and renders, any number in any order: the table is what it was -
     every cell's item and the state it was last read in, counts, order,
     column properties, the objects *)
  Theorem renders_leave_table p s : forallb quiet p = true -> r_m (rrun s p) = r_m s.
  Proof.
    intros H. rewrite rrun_m.
    assert (E : prog_of p = []).
    { induction p as [|o p IH]; [reflexivity|]. cbn [forallb] in H. apply andb_true_iff in H. destruct H as [Ho Hp].
      destruct o; cbn [quiet] in Ho; try discriminate; cbn [prog_of]; apply IH, Hp. }
    rewrite E. reflexivity.
  Qed.

  (* ... hence every format gives the same bytes as before them *)
  Theorem quiet_repeatable p1 p2 s k : consistent s -> rwrapped k p1 -> forallb quiet p2 = true ->
    rrender (rrun (rrun s p1) p2) k = rrender (rrun s p1) k.
  Proof.
    intros Hc Hw Hq. rewrite <- rrun_app.
    rewrite !rrender_is_out by (try assumption; apply in_or_app; left; exact Hw).
    rewrite rrun_app, renders_leave_table by exact Hq. reflexivity.
  Qed.

  (* items changed behind the table's back, renders and wraps in between:
     nothing any cell has cached moves *)
  Lemma no_read_keeps_cache p : forall s, forallb no_read p = true ->
    view_cached (mview (r_m (rrun s p))) = view_cached (mview (r_m s)).
  Proof.
    induction p as [|o p IH]; intros s H; [reflexivity|].
    cbn [forallb] in H. apply andb_true_iff in H. destruct H as [Ho Hp].
    cbn [RenderMut.rrun fold_left]. fold (rrun (rstep s o) p). rewrite (IH _ Hp).
    destruct o as [m|k|k]; cbn [RenderMut.rstep r_m]; try reflexivity.
    destruct m; cbn [no_read] in Ho; try discriminate. apply mutate_not_seen.
  Qed.

  (* ... so a format that reads only what cells cache gives the same bytes as
     the first time although the items now read differently *)
  Theorem stale_repeatable p1 p2 s k : consistent s -> cache_only out k -> rwrapped k p1 ->
    forallb no_read p2 = true ->
    rrender (rrun (rrun s p1) p2) k = rrender (rrun s p1) k.
  Proof.
    intros Hc Hk Hw Hn. rewrite <- rrun_app.
    rewrite !rrender_is_out by (try assumption; apply in_or_app; left; exact Hw).
    apply Hk. rewrite rrun_app. apply no_read_keeps_cache, Hn.
  Qed.
End RenderMutProofs.

(* CSV is such a format *)
Lemma csv_cache_only : forall v v', view_cached v = view_cached v' -> csv_render v = csv_render v'.
Proof.
  intros v v' H. unfold view_cached in H. injection H as Hn Hh Hr _ _.
  assert (T : forall (a b : list vcell), map cached a = map cached b -> row_texts a = row_texts b).
  { induction a as [|x a IH]; intros [|y b] E; try discriminate; [reflexivity|].
    unfold row_texts in *. cbn [map] in *. unfold cached at 1 2 in E. injection E; intros. f_equal; [assumption|apply IH; assumption]. }
  assert (E : csv_records v = csv_records v').
  { unfold csv_records. f_equal.
    - destruct (v_header v), (v_header v'); cbn [option_map] in Hh; try discriminate; [|reflexivity].
      injection Hh as Hh. f_equal. apply T, Hh.
    - unfold body_rows. revert Hr. generalize (v_rows v'). induction (v_rows v) as [|x l IH]; intros [|y l'] E; try discriminate; [reflexivity|].
      cbn [map] in E. injection E as Exy Ell. cbn [flat_map map].
      destruct x, y; cbn [option_map] in Exy; try discriminate; cbn [map app].
      + injection Exy as Exy. f_equal; [apply T, Exy|apply IH, Ell].
      + apply IH, Ell. }
  unfold csv_render, csv_render_writes. rewrite Hn, E. reflexivity.
Qed.
