(* The text renderer is total under EVERY decoration value - built-in,
   populated, or written by hand with any subset of its glyph fields empty and
   never Populate()d (SetDecoration takes any value) - on every view whose
   cells report the sizes Cell computes, tables with no column included.
   (Since the D22 repair; Findings/TextHandDecoration.v has the witness for
   the code as it was.)  The refinement theorems (Proofs/TextTop.v) describe
   WHAT is rendered for complete or boxless decorations; this file only shows
   that nothing panics, and that only the empty decoration is refused. *)
From Tab Require Import Model.Text Model.Decoration Spec.TextLayout
     Proofs.TextBase Proofs.TextMeasure Proofs.TextRefine Proofs.TextTop.

Local Open Scope nat_scope.

Lemma mapM_any {A B} (f : A -> res B) l :
  (forall x, In x l -> exists y, f x = Ok y) -> exists ys, mapM f l = Ok ys.
Proof.
  induction l as [|x l IH]; intros H; [exists []; reflexivity|].
  destruct (H x (or_introl eq_refl)) as (y & Ey).
  destruct IH as (ys & Eys); [intros z Hz; apply H; right; exact Hz|].
  exists (y :: ys). cbn [mapM]. rewrite Ey. cbn [bind]. rewrite Eys. reflexivity.
Qed.

(* a rule line: any glyphs, any number of columns *)
Lemma template_any d (ws : list nat) l h c r :
  exists x, common_template_line d (map Z.of_nat ws) l h c r = Ok x.
Proof.
  unfold common_template_line. destruct (d_boxless d); [eexists; reflexivity|].
  rewrite template_fields_ok. cbn [bind]. rewrite map_length.
  destruct (0 <? length ws).
  - rewrite set_last_ok by discriminate. cbn [bind]. eexists; reflexivity.
  - cbn [bind]. eexists; reflexivity.
Qed.

Section AnyDec.
  Variable W : bytes -> nat.
  Variable v : view.

  (* the divider sets the emitter builds from a decoration have equal left and
     right glyphs; all that matters here: a right glyph comes with a left one *)
  Definition dv_safe (dv : bytes * bytes * bytes) : Prop :=
    let '(l, _, r) := dv in r <> [] -> l <> [].

  Lemma rendered_line_any dv row k :
    dv_safe dv ->
    exists x, common_rendered_line dv (cwsZ W v) (map (fun i => wat W row i k) (seq 0 (v_ncols v)))
                                   (map (al_of v) (seq 0 (v_ncols v))) = Ok x.
  Proof.
    destruct dv as [[l i] r]. intros Hdv. unfold common_rendered_line.
    rewrite (rendered_fields_ok (cwsZ W v) 0 _ _ i (fun j => flat_segs (row_slot W v row k j))).
    2:{ intros j w Hj. unfold cwsZ in Hj. rewrite map_map in Hj.
        apply nth_error_map_seq in Hj as [Hlt ->].
        exists (wat W row j k), (al_of v j). cbn [Nat.add].
        rewrite !nth_error_map_seq_lt by exact Hlt. repeat split.
        unfold wat, row_slot. destruct (cell_line W row j k) as [s w] eqn:E. cbn [fst snd].
        apply wwa_ok. apply al_of_eff. }
    cbn [bind]. cbn [dv_safe] in Hdv.
    destruct r as [|r0 r']; destruct i as [|i0 i']; cbn [nilb negb andb].
    - cbn [bind]. eexists; reflexivity.
    - match goal with |- context [if ?c then _ else _] => destruct c end; cbn [bind]; eexists; reflexivity.
    - cbn [bind]. eexists; reflexivity.
    - destruct l as [|l0 l']; [exfalso; apply Hdv; [discriminate | reflexivity]|].
      cbn [nilb app]. rewrite set_last_ok by discriminate. cbn [bind]. eexists; reflexivity.
  Qed.

  Lemma rendered_block_any dv row :
    dv_safe dv ->
    exists ws, rendered_block dv (cwsZ W v) (map (al_of v) (seq 0 (v_ncols v))) (v_ncols v) (map (mcell_of W) row) = Ok ws.
  Proof.
    intros Hdv. unfold rendered_block. rewrite row_to_lines_ok.
    apply mapM_any. intros ln Hin. apply in_map_iff in Hin as (k & <- & _). apply rendered_line_any. exact Hdv.
  Qed.

  Lemma hdr_safe d : dv_safe (header_dividers d).
  Proof. unfold header_dividers, dv_safe. tauto. Qed.
  Lemma body_safe d : dv_safe (body_dividers d).
  Proof. unfold body_dividers, dv_safe. tauto. Qed.

  Lemma body_writes_any d rows :
    exists ws, body_writes d (cwsZ W v) (map (al_of v) (seq 0 (v_ncols v))) (v_ncols v) (map (mrow_of W) rows) = Ok ws.
  Proof.
    induction rows as [|r rows (ws & E)]; [exists []; reflexivity|].
    destruct r as [cs|]; cbn [map mrow_of option_map body_writes].
    - destruct (rendered_block_any (body_dividers d) cs (body_safe d)) as (w & Ew).
      rewrite Ew. cbn [bind]. rewrite E. cbn [bind]. eexists; reflexivity.
    - unfold line_separator, cwsZ.
      destruct (template_any d (map (colw W v) (seq 0 (v_ncols v))) (d_LeftBodyRule d) (d_HRule d) (d_CrossPiece d) (d_RightBodyRule d)) as (x & Ex).
      rewrite Ex. cbn [bind]. fold (cwsZ W v). rewrite E. cbn [bind]. eexists; reflexivity.
  Qed.

  Theorem text_any_decoration_ok d :
    length (v_align v) = S (v_ncols v) -> cells_ok W v -> is_empty_decoration d = false ->
    exists out, text_render W d v = Ok out.
  Proof.
    intros Hal Hc Hne. unfold text_render, text_render_writes. rewrite Hne.
    assert (Eh : measure_opt W (v_header v) = Ok (mrow_of W (v_header v))).
    { apply measure_opt_ok. destruct (v_header v) as [h|] eqn:E; [|exact I].
      simpl. eapply cells_ok_header; eauto. }
    rewrite Eh. cbn [bind].
    assert (Er : mapM (measure_opt W) (v_rows v) = Ok (map (mrow_of W) (v_rows v))).
    { apply mapM_ok_map. intros r Hr. apply measure_opt_ok.
      pose proof (cells_ok_rows W v Hc) as X. rewrite Forall_forall in X. auto. }
    rewrite Er. cbn [bind].
    set (f := fun i => match v_header v with Some h => cellw_at W h i | None => 0 end).
    assert (Ecw1 : match mrow_of W (v_header v) with
                   | Some hs => header_widths (repeat 0%Z (v_ncols v)) hs
                   | None => repeat 0%Z (v_ncols v)
                   end = map Z.of_nat (map f (seq 0 (v_ncols v)))).
    { unfold f. destruct (v_header v) as [h|] eqn:E; cbn [mrow_of option_map].
      - apply header_widths_ok. eapply cells_ok_header; eauto.
      - rewrite map_map. cbn [Z.of_nat]. rewrite map_const_repeat, seq_length. reflexivity. }
    rewrite Ecw1.
    rewrite (body_widths_ok W (v_ncols v) (v_rows v) f (cells_ok_rows W v Hc)).
    cbn [bind].
    assert (Ecw : map Z.of_nat
                    (map (fun i => fold_left Nat.max
                                     (map (fun r => cellw_at W r i)
                                          (flat_map (fun r => match r with Some cs => [cs] | None => [] end) (v_rows v)))
                                     (f i)) (seq 0 (v_ncols v)))
                  = cwsZ W v).
    { unfold cwsZ. f_equal. apply map_ext. intros i. rewrite fold_left_max, colw_unfold. reflexivity. }
    rewrite Ecw.
    rewrite (column_aligns_ok v Hal). cbn [bind].
    assert (T : forall l h c r, exists x, common_template_line d (cwsZ W v) l h c r = Ok x)
      by (intros; apply template_any).
    destruct (body_writes_any d (v_rows v)) as (w2 & E2).
    destruct (T (d_BottomLeft d) (d_HOuter d) (d_BBottomUp d) (d_BottomRight d)) as (w3 & E3).
    unfold line_bottom. rewrite E3.
    destruct (v_header v) as [h|] eqn:E; cbn [mrow_of option_map].
    - unfold line_header_top, line_header_body_sep.
      destruct (T (d_TopLeft d) (d_HOuter d) (d_HTopDown d) (d_TopRight d)) as (t1 & Et1).
      destruct (T (d_HBLeft d) (d_HOuter d) (d_HBCross d) (d_HBRight d)) as (t2 & Et2).
      destruct (rendered_block_any (header_dividers d) h (hdr_safe d)) as (hl & Ehl).
      rewrite Et1. cbn [bind]. rewrite Ehl. cbn [bind]. rewrite Et2. cbn [bind].
      rewrite E2. cbn [bind]. eexists; reflexivity.
    - unfold line_body_top.
      destruct (T (d_TopLeft d) (d_HOuter d) (d_BTopDown d) (d_TopRight d)) as (t1 & Et1).
      rewrite Et1. cbn [bind]. rewrite E2. cbn [bind]. eexists; reflexivity.
  Qed.
End AnyDec.

(* never a panic: any measure, ANY decoration, any view with one alignment
   slot per column plus column 0 whose cells report the sizes Cell computes *)
Theorem text_no_panic_any_decoration : forall W d v,
  length (v_align v) = S (v_ncols v) -> cells_ok W v -> text_render W d v <> Panic.
Proof.
  intros W d v Hal Hc. destruct (is_empty_decoration d) eqn:E.
  - unfold text_render, text_render_writes. rewrite E. discriminate.
  - destruct (text_any_decoration_ok W v d Hal Hc E) as (out & ->). discriminate.
Qed.

(* only the empty decoration is refused *)
Theorem text_refused_iff_empty_decoration : forall W d v,
  length (v_align v) = S (v_ncols v) -> cells_ok W v ->
  (text_render W d v = Err <-> is_empty_decoration d = true).
Proof.
  intros W d v Hal Hc. split.
  - intros H. destruct (is_empty_decoration d) eqn:E; [reflexivity|].
    destruct (text_any_decoration_ok W v d Hal Hc E) as (out & Eo). congruence.
  - intros E. unfold text_render, text_render_writes. rewrite E. reflexivity.
Qed.
