From Tab Require Import Model.Wrap Model.WrapWorld Proofs.WrapProofs.

Section WrapWorldProofs.
  Variable U : Type.
  Variable out : kind -> view -> res bytes.
  Variable degraded : kind -> mstate -> view -> res bytes.
  Notation tstate := (tstate U).
  Notation op := (op U).
  Notation wop := (wop U).
  Notation world := (list tstate).
  Notation render := (@render U out degraded).
  Notation emit := (@emit U out degraded).
  Notation wstep := (@wstep U out degraded).
  Notation wrun := (@wrun U out degraded).

  (* induction over operations nested in operations *)
  Section Ind.
    Variable P : wop -> Prop.
    Hypothesis HOn : forall i o, P (WOn i o).
    Hypothesis HDur : forall i k inner, Forall P inner -> P (WDuring i k inner).
    Fixpoint wop_ind2 (o : wop) : P o :=
      match o with
      | WOn i p => HOn i p
      | WDuring i k inner =>
          HDur i k inner ((fix go (l : list wop) : Forall P l :=
                             match l with
                             | [] => Forall_nil P
                             | x :: r => Forall_cons x (wop_ind2 x) (go r)
                             end) inner)
      end.
  End Ind.

  Lemma wstep_during w i k inner :
    wstep w (WDuring i k inner) =
    (fst (wrun inner (upd i invoke w)),
     snd (wrun inner (upd i invoke w)) ++
     match nth_error (fst (wrun inner (upd i invoke w))) i with Some s => [(i, k, emit s k)] | None => [] end).
  Proof. reflexivity. Qed.

  Lemma nth_upd_same f : forall (w : world) i s, nth_error w i = Some s -> nth_error (upd i f w) i = Some (f s).
  Proof.
    induction w as [|x w IH]; intros [|i] s H; cbn in *; try discriminate.
    - injection H as ->. reflexivity.
    - apply IH, H.
  Qed.

  Lemma nth_upd_other f : forall (w : world) j i, j <> i -> nth_error (upd j f w) i = nth_error w i.
  Proof.
    induction w as [|x w IH]; intros [|j] [|i] H; cbn; try reflexivity; try congruence.
    apply IH. congruence.
  Qed.

  Lemma render_emit (s : tstate) k : render s k = emit (invoke s) k.
  Proof. destruct k; reflexivity. Qed.

  Lemma invoke_step (s : tstate) : invoke s = step s (ORender KCsv).
  Proof. reflexivity. Qed.

  (* a property of one table's state that no wrap and no render disturbs *)
  Definition stable (P : tstate -> Prop) : Prop :=
    forall s o, is_build o = false -> P s -> P (step s o).

  Lemma wstep_stable P (HP : stable P) i : forall o w s,
    no_build i o = true -> nth_error w i = Some s -> P s ->
    exists s', nth_error (fst (wstep w o)) i = Some s' /\ P s'.
  Proof.
    induction o as [j p|j k inner IH] using wop_ind2; intros w s Hnb Hn Hs.
    - cbn [wstep fst]. cbn [no_build] in Hnb.
      destruct (Nat.eqb_spec j i) as [->|Hne].
      + cbn in Hnb. apply negb_true_iff in Hnb.
        exists (step s p). split; [exact (nth_upd_same (fun s => step s p) w i s Hn)|apply HP; assumption].
      + exists s. split; [rewrite nth_upd_other by exact Hne; exact Hn|exact Hs].
    - rewrite wstep_during. cbn [fst]. cbn [no_build] in Hnb.
      assert (H1 : exists s1, nth_error (upd j invoke w) i = Some s1 /\ P s1).
      { destruct (Nat.eq_dec j i) as [->|Hne].
        - exists (invoke s). split; [apply nth_upd_same, Hn|]. rewrite invoke_step. apply HP; [reflexivity|exact Hs].
        - exists s. split; [rewrite nth_upd_other by exact Hne; exact Hn|exact Hs]. }
      destruct H1 as [s1 [Hn1 Hs1]].
      clear Hn Hs. revert Hnb s1 Hn1 Hs1. generalize (upd j invoke w). clear w.
      induction IH as [|x inner Hx _ IHl]; intros w Hnb s1 Hn1 Hs1.
      + exists s1. split; assumption.
      + cbn [forallb] in Hnb. apply andb_true_iff in Hnb. destruct Hnb as [Hb1 Hb2].
        cbn [wrun fst]. destruct (Hx w s1 Hb1 Hn1 Hs1) as [s2 [Hn2 Hs2]].
        exact (IHl _ Hb2 s2 Hn2 Hs2).
  Qed.

  Lemma wrun_stable P (HP : stable P) i : forall ops w s,
    forallb (no_build i) ops = true -> nth_error w i = Some s -> P s ->
    exists s', nth_error (fst (wrun ops w)) i = Some s' /\ P s'.
  Proof.
    induction ops as [|x ops IH]; intros w s Hnb Hn Hs.
    - exists s. split; assumption.
    - cbn [forallb] in Hnb. apply andb_true_iff in Hnb. destruct Hnb as [Hb1 Hb2].
      cbn [wrun fst]. destruct (wstep_stable P HP i x w s Hb1 Hn Hs) as [s2 [Hn2 Hs2]].
      exact (IH _ s2 Hb2 Hn2 Hs2).
  Qed.

  (* ---- nothing observable of table i changes while no building call reaches it *)
  Lemma stable_observable (c : view * U) : stable (fun s => observable s = c).
  Proof.
    intros s o Hb H. destruct o as [v u|k|k]; [discriminate| |]; cbn in *; [|exact H].
    destruct (measuring k); exact H.
  Qed.

  Theorem world_preserves ops (w : world) i s :
    nth_error w i = Some s -> forallb (no_build i) ops = true ->
    exists s', nth_error (fst (wrun ops w)) i = Some s' /\ observable s' = observable s.
  Proof.
    intros Hn Hnb.
    exact (wrun_stable _ (stable_observable (observable s)) i ops w s Hnb Hn eq_refl).
  Qed.

  (* ---- every render of table i through a kind wrapped beforehand gives the
     format's output for the table's view: whatever was rendered, wrapped or
     built on other tables before or meanwhile, whatever was rendered through
     table i itself meanwhile *)
  Definition fresh_for (k : kind) (s : tstate) : Prop :=
    match k with KText => st_text s = MFresh | KMd => st_md s = MFresh | _ => True end.

  (* view v; kind k registered if it measures *)
  Definition good (v : view) (k : kind) (s : tstate) : Prop :=
    st_view s = v /\ (measuring k = true -> existsb (kind_eqb k) (st_cbs s) = true).

  Lemma stable_good v k : stable (good v k).
  Proof.
    intros s o Hb [Hv Hr]. split.
    - destruct o as [v' u|k'|k']; [discriminate| |]; cbn; [|exact Hv]. destruct (measuring k'); exact Hv.
    - intros Hm. apply step_cbs_mono, Hr, Hm.
  Qed.

  Lemma stable_good_fresh v k : stable (fun s => good v k s /\ fresh_for k s).
  Proof.
    intros s o Hb [Hg Hf]. split; [apply stable_good; assumption|].
    destruct o as [v' u|k'|k']; [discriminate| |].
    - cbn. destruct (measuring k'); exact Hf.
    - destruct k; cbn in *; try exact I.
      + destruct (existsb (kind_eqb KMd) (st_cbs s)); [reflexivity|exact Hf].
      + destruct (existsb (kind_eqb KText) (st_cbs s)); [reflexivity|exact Hf].
  Qed.

  Lemma invoke_fresh v k (s : tstate) : good v k s -> good v k (invoke s) /\ fresh_for k (invoke s).
  Proof.
    intros Hg. split; [rewrite invoke_step; apply stable_good; [reflexivity|exact Hg]|].
    destruct Hg as [_ Hr]. destruct k; cbn; try exact I.
    - rewrite (Hr eq_refl). reflexivity.
    - rewrite (Hr eq_refl). reflexivity.
  Qed.

  Lemma emit_fresh v k (s : tstate) : good v k s -> fresh_for k s -> emit s k = out k v.
  Proof.
    intros [Hv _] Hf. destruct k; cbn in *; try (rewrite Hv; reflexivity).
    - rewrite Hf, Hv. reflexivity.
    - rewrite Hf, Hv. reflexivity.
  Qed.

  Lemma wstep_log v k i : forall o w s,
    no_build i o = true -> nth_error w i = Some s -> good v k s ->
    forall r, In (i, k, r) (snd (wstep w o)) -> r = out k v.
  Proof.
    induction o as [j p|j k' inner IH] using wop_ind2; intros w s Hnb Hn Hg r Hin.
    - cbn [wstep snd] in Hin. destruct p as [v' u|k'|k']; try destruct Hin.
      destruct (nth_error w j) as [sj|] eqn:Ej; [|destruct Hin].
      destruct Hin as [E|[]]. injection E as -> -> <-.
      rewrite Hn in Ej. injection Ej as <-.
      rewrite render_emit. destruct (invoke_fresh v k s Hg) as [Hg' Hf]. apply emit_fresh; assumption.
    - rewrite wstep_during in Hin. cbn [snd] in Hin. cbn [no_build] in Hnb.
      assert (H1 : exists s1, nth_error (upd j invoke w) i = Some s1 /\ good v k s1 /\ (j = i -> fresh_for k s1)).
      { destruct (Nat.eq_dec j i) as [->|Hne].
        - exists (invoke s). split; [apply nth_upd_same, Hn|]. destruct (invoke_fresh v k s Hg). split; [assumption|intros _; assumption].
        - exists s. split; [rewrite nth_upd_other by exact Hne; exact Hn|]. split; [exact Hg|intros E; contradiction]. }
      destruct H1 as [s1 [Hn1 [Hg1 Hf1]]].
      apply in_app_or in Hin. destruct Hin as [Hin|Hin].
      + (* an entry of the inner operations *)
        clear Hf1 Hn Hg. revert Hnb s1 Hn1 Hg1 Hin. generalize (upd j invoke w). clear w.
        induction IH as [|x inner Hx _ IHl]; intros w Hnb s1 Hn1 Hg1 Hin; [destruct Hin|].
        cbn [forallb] in Hnb. apply andb_true_iff in Hnb. destruct Hnb as [Hb1 Hb2].
        cbn [wrun snd] in Hin. apply in_app_or in Hin. destruct Hin as [Hin|Hin].
        * exact (Hx w s1 Hb1 Hn1 Hg1 r Hin).
        * destruct (wstep_stable _ (stable_good v k) i x w s1 Hb1 Hn1 Hg1) as [s2 [Hn2 Hg2]].
          exact (IHl _ Hb2 s2 Hn2 Hg2 Hin).
      + (* the output of the render that was in progress *)
        destruct (nth_error (fst (wrun inner (upd j invoke w))) j) as [s2|] eqn:E2; [|destruct Hin].
        destruct Hin as [E|[]]. injection E as -> -> <-.
        destruct (wrun_stable _ (stable_good_fresh v k) i inner (upd i invoke w) s1 Hnb Hn1 (conj Hg1 (Hf1 eq_refl)))
          as [s3 [Hn3 [Hg3 Hf3]]].
        rewrite Hn3 in E2. injection E2 as <-. apply emit_fresh; assumption.
  Qed.

  Theorem world_render_is_out ops : forall (w : world) i s k r,
    nth_error w i = Some s -> forallb (no_build i) ops = true ->
    (measuring k = true -> existsb (kind_eqb k) (st_cbs s) = true) ->
    In (i, k, r) (snd (wrun ops w)) -> r = out k (st_view s).
  Proof.
    induction ops as [|x ops IH]; intros w i s k r Hn Hnb Hr Hin; [destruct Hin|].
    cbn [forallb] in Hnb. apply andb_true_iff in Hnb. destruct Hnb as [Hb1 Hb2].
    assert (Hg : good (st_view s) k s) by (split; [reflexivity|exact Hr]).
    cbn [wrun snd] in Hin. apply in_app_or in Hin. destruct Hin as [Hin|Hin].
    - exact (wstep_log (st_view s) k i x w s Hb1 Hn Hg r Hin).
    - destruct (wstep_stable _ (stable_good (st_view s) k) i x w s Hb1 Hn Hg) as [s2 [Hn2 [Hv2 Hr2]]].
      rewrite <- Hv2. exact (IH _ i s2 k r Hn2 Hb2 Hr2 Hin).
  Qed.

  (* the same bytes every time *)
  Theorem world_repeatable ops (w : world) i s k r1 r2 :
    nth_error w i = Some s -> forallb (no_build i) ops = true ->
    (measuring k = true -> existsb (kind_eqb k) (st_cbs s) = true) ->
    In (i, k, r1) (snd (wrun ops w)) -> In (i, k, r2) (snd (wrun ops w)) -> r1 = r2.
  Proof.
    intros Hn Hnb Hr H1 H2.
    rewrite (world_render_is_out ops w i s k r1 Hn Hnb Hr H1), (world_render_is_out ops w i s k r2 Hn Hnb Hr H2).
    reflexivity.
  Qed.
End WrapWorldProofs.
