From Tab Require Import Model.Writer.

Lemma prefixb_spec a b : prefixb a b = true <-> prefix a b.
Proof.
  revert b; induction a as [|x a IH]; intros b; simpl.
  - split; [intros _; exists b; reflexivity | reflexivity].
  - destruct b as [|y b].
    + split; [discriminate | intros [r H]; discriminate].
    + rewrite andb_true_iff, N.eqb_eq, IH. split.
      * intros [-> [r ->]]. exists r. reflexivity.
      * intros [r H]. inversion H; subst. split; [reflexivity | exists r; reflexivity].
Qed.

Lemma prefix_refl a : prefix a a.
Proof. exists []. rewrite app_nil_r. reflexivity. Qed.

Lemma prefix_app a b c : prefix b c -> prefix (a ++ b) (a ++ c).
Proof. intros [r ->]. exists r. rewrite app_assoc. reflexivity. Qed.

Lemma prefix_nil a : prefix [] a.
Proof. exists a. reflexivity. Qed.

Lemma prefix_firstn n (p r : bytes) : prefix (firstn n p) (p ++ r).
Proof.
  exists (skipn n p ++ r). rewrite app_assoc, firstn_skipn. reflexivity.
Qed.

Lemma checked_all l : all_checked (checked l).
Proof. unfold all_checked, checked. apply Forall_forall. intros w H. apply in_map_iff in H as (p & <- & _). reflexivity. Qed.

Lemma payloads_checked l : payloads (checked l) = concat l.
Proof. unfold payloads, checked. rewrite map_map. cbn. rewrite map_id. reflexivity. Qed.

(* --- whatever the script does, a renderer whose writes are all checked leaves
       the writer holding acc ++ (a prefix of everything it meant to write) *)
Lemma run_writes_prefix sc ws : all_checked ws -> forall i acc,
  exists m, snd (run_writes sc i ws acc) = acc ++ m /\ prefix m (payloads ws).
Proof.
  induction ws as [|[p c] ws IH]; intros Hc i acc; cbn [run_writes].
  - exists []. rewrite app_nil_r. split; [reflexivity | apply prefix_nil].
  - inversion Hc as [|w ws' Hw Hrest]; subst. cbn in Hw. subst c.
    unfold do_write. unfold payloads. cbn [map fst concat]. fold (payloads ws).
    destruct (sc i p) eqn:E; cbn [andb].
    + destruct (IH Hrest (S i) (acc ++ p)) as (m & Hm & Hp).
      exists (p ++ m). rewrite Hm, <- app_assoc. split; [reflexivity | apply prefix_app, Hp].
    + exists []. rewrite app_nil_r. split; [reflexivity | apply prefix_nil].
    + exists (firstn n p). split; [reflexivity | apply prefix_firstn].
Qed.

(* --- a fault on any call the renderer makes surfaces as an error *)
Lemma run_writes_err sc ws : all_checked ws -> forall i acc,
  fails_within sc i ws = true -> fst (run_writes sc i ws acc) = true.
Proof.
  induction ws as [|[p c] ws IH]; intros Hc i acc; cbn [run_writes fails_within].
  - discriminate.
  - inversion Hc as [|w ws' Hw Hrest]; subst. cbn in Hw. subst c.
    unfold do_write. destruct (sc i p) eqn:E; cbn [faulty orb andb fst]; intros H.
    + apply IH; assumption.
    + reflexivity.
    + reflexivity.
Qed.

(* --- and without a fault the whole output arrives and no error is returned
       (checked or not) *)
Lemma run_writes_clean sc ws : forall i acc,
  fails_within sc i ws = false -> run_writes sc i ws acc = (false, acc ++ payloads ws).
Proof.
  induction ws as [|[p c] ws IH]; intros i acc; cbn [run_writes fails_within].
  - intros _. unfold payloads. cbn. rewrite app_nil_r. reflexivity.
  - unfold do_write. destruct (sc i p) eqn:E; cbn [faulty orb]; intros H; try discriminate.
    cbn [andb]. rewrite IH by exact H. unfold payloads. cbn [map fst concat]. rewrite <- app_assoc. reflexivity.
Qed.

(* --- so "no error" means "everything was written" *)
Lemma run_writes_noerr_complete sc ws : all_checked ws -> forall i acc,
  fst (run_writes sc i ws acc) = false -> snd (run_writes sc i ws acc) = acc ++ payloads ws.
Proof.
  intros Hc i acc H. destruct (fails_within sc i ws) eqn:F.
  - rewrite (run_writes_err sc ws Hc i acc F) in H. discriminate.
  - rewrite run_writes_clean by exact F. reflexivity.
Qed.

Theorem writer_faults sc ws : all_checked ws ->
  let r := run_writes sc 0 ws [] in
  prefix (snd r) (payloads ws)
  /\ (fails_within sc 0 ws = true -> fst r = true)
  /\ (fails_within sc 0 ws = false -> r = (false, payloads ws))
  /\ (fst r = false -> snd r = payloads ws).
Proof.
  intros Hc r. subst r. repeat split.
  - destruct (run_writes_prefix sc ws Hc 0 []) as (m & Hm & Hp). rewrite Hm. exact Hp.
  - apply run_writes_err, Hc.
  - intros F. rewrite run_writes_clean by exact F. reflexivity.
  - intros H. rewrite run_writes_noerr_complete by assumption. reflexivity.
Qed.

(* any renderer given as its (all checked) write list, incl. refusing ones *)
Theorem render_to_faults (ws : res (list bytes)) sc out :
  bind ws (fun l => Ok (concat l)) = Ok out ->
  exists e acc, render_to ws sc = Ok (e, acc) /\ prefix acc out
    /\ (forall l, ws = Ok l -> fails_within sc 0 (checked l) = true -> e = true)
    /\ (e = false -> acc = out).
Proof.
  destruct ws as [l| |]; cbn [bind]; intros H; inversion H; subst.
  pose proof (writer_faults sc (checked l) (checked_all l)) as (H1 & H2 & H3 & H4).
  rewrite payloads_checked in *.
  cbn [render_to]. destruct (run_writes sc 0 (checked l) []) as [e acc] eqn:R. cbn [fst snd] in *.
  exists e, acc. repeat split; auto.
  intros l' Hl. inversion Hl; subst. exact H2.
Qed.

(* html/template: whatever way the output is cut into Write calls *)
Theorem any_chunking_faults sc (chunks : list bytes) out :
  concat chunks = out ->
  let r := run_writes sc 0 (checked chunks) [] in
  prefix (snd r) out /\ (fails_within sc 0 (checked chunks) = true -> fst r = true) /\ (fst r = false -> snd r = out).
Proof.
  intros <- r. pose proof (writer_faults sc (checked chunks) (checked_all chunks)) as (H1 & H2 & _ & H4).
  rewrite payloads_checked in *. repeat split; assumption.
Qed.

(* ---- a linear-time reading of run_writes for all-checked lists: the error
   flag and the NUMBER of accepted bytes; the accepted bytes themselves are
   that many leading bytes of the fault-free output.  Used to evaluate the
   model on long write lists (run_writes appends to its accumulator, which is
   quadratic). *)
Fixpoint run_len (sc : script) (i : nat) (l : list bytes) : bool * nat :=
  match l with
  | [] => (false, 0)
  | p :: r =>
      match sc i p with
      | WAccept => let '(e, n) := run_len sc (S i) r in (e, length p + n)
      | WFail => (true, 0)
      | WPartial m => (true, Nat.min m (length p))
      end
  end.

Lemma firstn_app_exact {A} (p r : list A) n : firstn (length p + n) (p ++ r) = p ++ firstn n r.
Proof. induction p as [|x p IH]; cbn; [reflexivity | rewrite IH; reflexivity]. Qed.

Lemma firstn_min_app {A} (p r : list A) m : firstn (Nat.min m (length p)) (p ++ r) = firstn m p.
Proof.
  revert m; induction p as [|x p IH]; intros m; cbn.
  - rewrite Nat.min_0_r. destruct m; reflexivity.
  - destruct m; cbn; [reflexivity | rewrite IH; reflexivity].
Qed.

Lemma run_writes_len sc l : forall i acc,
  run_writes sc i (checked l) acc
  = (fst (run_len sc i l), acc ++ firstn (snd (run_len sc i l)) (concat l)).
Proof.
  induction l as [|p r IH]; intros i acc; cbn [checked map run_writes run_len concat].
  - cbn. rewrite app_nil_r. reflexivity.
  - unfold do_write. destruct (sc i p) eqn:E; cbn [andb].
    + fold (checked r). rewrite IH. destruct (run_len sc (S i) r) as [e n]. cbn [fst snd].
      rewrite firstn_app_exact, app_assoc. reflexivity.
    + cbn. rewrite app_nil_r. reflexivity.
    + cbn [fst snd]. rewrite firstn_min_app. reflexivity.
Qed.
