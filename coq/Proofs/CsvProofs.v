From Tab Require Import Model.Csv Spec.CsvParse.

(* ---------- the model's emitRow in closed form ---------- *)

Definition csv_line (fields : list bytes) : bytes :=
  join [COMMA] (map csv_escape fields) ++ [LF].

Lemma firstn_pred_last {A} (l : list A) (a : A) :
  nth_error l (length l - 1) = Some a -> l = firstn (length l - 1) l ++ [a].
Proof.
  induction l as [|x l IH]; simpl; intros H.
  - discriminate.
  - destruct l as [|y l'].
    + simpl in *. inversion H. reflexivity.
    + simpl length in *. replace (S (length l') - 0) with (S (length l')) in H by lia.
      simpl in H. replace (S (length l') - 0) with (S (length l')) by lia.
      rewrite firstn_cons. simpl app. f_equal.
      replace (S (length l') - 1) with (length l') in IH by lia.
      apply IH. replace (length l' - 0) with (length l') by lia. exact H.
Qed.

Lemma concat_map_sep_join (fs : list bytes) (a : bytes) :
  concat (map (fun c => csv_escape c ++ [COMMA]) fs) ++ csv_escape a
  = join [COMMA] (map csv_escape (fs ++ [a])).
Proof.
  induction fs as [|f fs IH].
  - reflexivity.
  - cbn [map concat app]. rewrite join_cons_ne by (destruct fs; discriminate).
    rewrite <- IH, <- !app_assoc. reflexivity.
Qed.

Lemma join_app_pad (fs : list bytes) n :
  fs <> [] ->
  join [COMMA] (map csv_escape fs) ++ concat (repeat [COMMA; DQ; DQ] n)
  = join [COMMA] (map csv_escape (fs ++ repeat [] n)).
Proof.
  intros Hne. induction n as [|n IH].
  - simpl. rewrite !app_nil_r. reflexivity.
  - rewrite !repeat_snoc, concat_app, app_assoc, IH, (app_assoc fs).
    rewrite (map_app csv_escape (fs ++ repeat [] n) [[]]).
    cbn [map concat]. rewrite join_snoc.
    + rewrite app_nil_r. reflexivity.
    + destruct fs; [congruence | discriminate].
Qed.

Lemma csv_emit_row_ok ncols cells :
  length cells <= ncols -> 1 <= ncols ->
  exists ws, csv_emit_row ncols cells = Ok ws /\ concat ws = csv_line (pad_to ncols cells).
Proof.
  intros Hle Hn. unfold csv_emit_row.
  destruct (ncols <? length cells) eqn:E; [apply Nat.ltb_lt in E; lia|].
  destruct (0 <? length cells) eqn:E0.
  - apply Nat.ltb_lt in E0.
    destruct (idx_lt cells (length cells - 1) ltac:(lia)) as (a & Ha & Hnth).
    rewrite Ha. cbn [bind]. eexists; split; [reflexivity|].
    rewrite !concat_app. cbn [concat]. rewrite !app_nil_r.
    rewrite !app_assoc, concat_map_sep_join, <- firstn_pred_last by exact Hnth.
    unfold csv_line, pad_to. f_equal. apply join_app_pad.
    destruct cells; [simpl in E0; lia | discriminate].
  - apply Nat.ltb_ge in E0. assert (Hz : length cells = 0) by lia.
    destruct cells; [|discriminate]. cbn [length].
    destruct (0 <? ncols) eqn:E1; [|apply Nat.ltb_ge in E1; lia].
    cbn [bind]. eexists; split; [reflexivity|].
    change (firstn (0 - 1) (@nil (list N))) with (@nil (list N)). cbn [map app].
    unfold csv_line, pad_to. cbn [length app].
    replace (ncols - 0) with (S (ncols - 1)) by lia.
    cbn [concat]. rewrite concat_app. cbn [concat]. rewrite !app_nil_r.
    change [DQ; DQ] with (join [COMMA] (map csv_escape [[]])).
    rewrite !app_assoc. f_equal.
    apply (join_app_pad [[]] (ncols - 1)). discriminate.
Qed.

Lemma csv_emit_row_result ncols cells :
  (csv_emit_row ncols cells = Err /\ ncols < length cells)
  \/ (exists ws, csv_emit_row ncols cells = Ok ws /\ length cells <= ncols).
Proof.
  unfold csv_emit_row. destruct (ncols <? length cells) eqn:E.
  - left. apply Nat.ltb_lt in E. auto.
  - right. apply Nat.ltb_ge in E.
    destruct (0 <? length cells) eqn:E0.
    + apply Nat.ltb_lt in E0.
      destruct (idx_lt cells (length cells - 1) ltac:(lia)) as (a & Ha & _). rewrite Ha.
      cbn [bind]. eauto.
    + destruct (0 <? ncols); cbn [bind]; eauto.
Qed.

Lemma csv_emit_row_no_panic ncols cells : csv_emit_row ncols cells <> Panic.
Proof.
  destruct (csv_emit_row_result ncols cells) as [[H _]|(ws & H & _)]; rewrite H; discriminate.
Qed.

Lemma csv_emit_rows_no_panic ncols rows : csv_emit_rows ncols rows <> Panic.
Proof.
  induction rows as [|r rows IH]; cbn [csv_emit_rows]; [discriminate|].
  pose proof (csv_emit_row_no_panic ncols r).
  destruct (csv_emit_row ncols r); cbn [bind]; try congruence.
  destruct (csv_emit_rows ncols rows); cbn [bind]; congruence.
Qed.

Lemma csv_emit_rows_ok ncols rows ws :
  1 <= ncols -> csv_emit_rows ncols rows = Ok ws ->
  Forall (fun r => length r <= ncols) rows
  /\ concat ws = concat (map (fun r => csv_line (pad_to ncols r)) rows).
Proof.
  intros Hn. revert ws. induction rows as [|r rows IH]; cbn [csv_emit_rows]; intros ws H.
  - inversion H. auto.
  - destruct (csv_emit_row_result ncols r) as [[E _]|(w & E & Hle)]; rewrite E in H; [discriminate|].
    cbn [bind] in H.
    destruct (csv_emit_rows ncols rows) as [ws'| |] eqn:E'; cbn [bind] in H; try discriminate.
    inversion H; subst. destruct (IH ws' eq_refl) as [IH1 IH2].
    split; [constructor; auto|].
    destruct (csv_emit_row_ok ncols r Hle Hn) as (w' & Ew & Hw).
    rewrite E in Ew. inversion Ew; subst. cbn [map concat]. rewrite concat_app, Hw, IH2. reflexivity.
Qed.

Lemma csv_emit_rows_total ncols rows :
  1 <= ncols -> Forall (fun r => length r <= ncols) rows ->
  exists ws, csv_emit_rows ncols rows = Ok ws.
Proof.
  intros Hn. induction 1 as [|r rows Hr _ IH]; cbn [csv_emit_rows]; [eauto|].
  destruct (csv_emit_row_ok ncols r Hr Hn) as (w & E & _). rewrite E. cbn [bind].
  destruct IH as (ws & E'). rewrite E'. cbn [bind]. eauto.
Qed.

(* ---------- the parser on escaped fields ---------- *)

Lemma csv_run_app s a b : csv_run s (a ++ b) = csv_run (csv_run s a) b.
Proof. apply fold_left_app. Qed.

Lemma csv_run_cons s b r : csv_run s (b :: r) = csv_run (csv_step s b) r.
Proof. reflexivity. Qed.

Lemma csv_run_body recs fields cur f :
  csv_run (mkCsvSt recs fields cur MInQ) (csv_escape_body f) = mkCsvSt recs fields (cur ++ f) MInQ.
Proof.
  revert cur. induction f as [|b f IH]; intros cur; cbn [csv_escape_body].
  - rewrite app_nil_r. reflexivity.
  - destruct (N.eqb b DQ) eqn:E.
    + apply N.eqb_eq in E. subst b. rewrite !csv_run_cons.
      unfold csv_step at 2. cbn [cs_mode cs_recs cs_fields cs_cur]. rewrite N.eqb_refl.
      unfold csv_step at 1. cbn [cs_mode cs_recs cs_fields cs_cur]. rewrite N.eqb_refl.
      rewrite IH, <- app_assoc. reflexivity.
    + rewrite csv_run_cons. unfold csv_step at 1. cbn [cs_mode cs_recs cs_fields cs_cur]. rewrite E.
      rewrite IH, <- app_assoc. reflexivity.
Qed.

Definition starts_field (m : csv_mode) : Prop := m = MRec \/ m = MField.

Lemma csv_run_field recs fields cur m f :
  starts_field m ->
  csv_run (mkCsvSt recs fields cur m) (csv_escape f) = mkCsvSt recs fields f MQQ.
Proof.
  intros Hm. unfold csv_escape. rewrite csv_run_cons.
  assert (E : csv_step (mkCsvSt recs fields cur m) DQ = mkCsvSt recs fields [] MInQ).
  { destruct Hm; subst m; reflexivity. }
  rewrite E, csv_run_app, csv_run_body. reflexivity.
Qed.

Lemma csv_run_fields recs done cur m fs :
  starts_field m -> fs <> [] ->
  csv_run (mkCsvSt recs done cur m) (join [COMMA] (map csv_escape fs) ++ [LF])
  = mkCsvSt (recs ++ [done ++ fs]) [] [] MRec.
Proof.
  revert done cur m. induction fs as [|f fs IH]; intros done cur m Hm Hne; [congruence|].
  destruct fs as [|g fs'].
  - cbn [map join]. rewrite csv_run_app, csv_run_field by exact Hm. reflexivity.
  - cbn [map]. rewrite join_cons_ne by discriminate.
    rewrite <- !app_assoc, csv_run_app, csv_run_field by exact Hm.
    cbn [app]. rewrite csv_run_cons.
    replace (csv_step (mkCsvSt recs done f MQQ) COMMA) with (mkCsvSt recs (done ++ [f]) [] MField) by reflexivity.
    change (csv_escape g :: map csv_escape fs') with (map csv_escape (g :: fs')).
    rewrite (IH (done ++ [f]) [] MField) by (unfold starts_field; auto; discriminate).
    rewrite <- app_assoc. reflexivity.
Qed.

Lemma csv_run_lines recs lines :
  Forall (fun l => l <> []) lines ->
  csv_run (mkCsvSt recs [] [] MRec) (concat (map csv_line lines)) = mkCsvSt (recs ++ lines) [] [] MRec.
Proof.
  intros H. revert recs. induction H as [|l lines Hl _ IH]; intros recs; cbn [map concat].
  - rewrite app_nil_r. reflexivity.
  - rewrite csv_run_app. unfold csv_line at 1.
    rewrite csv_run_fields by (unfold starts_field; auto).
    cbn [app]. rewrite IH, <- app_assoc. reflexivity.
Qed.

Lemma parse_csv_lines lines :
  Forall (fun l => l <> []) lines -> parse_csv (concat (map csv_line lines)) = Some lines.
Proof.
  intros H. unfold parse_csv, csv_init. rewrite csv_run_lines by exact H. reflexivity.
Qed.

(* ---------- round trip ---------- *)

Definition csv_expected (v : view) : list (list bytes) :=
  map (pad_to (v_ncols v)) (csv_records v).

Lemma pad_to_length n r : length r <= n -> length (pad_to n r) = n.
Proof. intros H. unfold pad_to. rewrite app_length, repeat_length. lia. Qed.

Lemma csv_roundtrip v out :
  csv_render v = Ok out ->
  parse_csv out = Some (csv_expected v)
  /\ Forall (fun r => length r = v_ncols v) (csv_expected v).
Proof.
  unfold csv_render, csv_render_writes. intros H.
  destruct (v_ncols v <? 1) eqn:E; [discriminate|]. apply Nat.ltb_ge in E.
  destruct (csv_emit_rows (v_ncols v) (csv_records v)) as [ws| |] eqn:Er; cbn [bind] in H; try discriminate.
  inversion H; subst out. destruct (csv_emit_rows_ok _ _ _ E Er) as [Hfit Hc].
  unfold csv_expected. split.
  - rewrite Hc, <- map_map. apply parse_csv_lines.
    apply Forall_forall. intros l Hl. apply in_map_iff in Hl as (r & <- & Hr).
    rewrite Forall_forall in Hfit. specialize (Hfit r Hr).
    intros Hnil. apply (f_equal (@length _)) in Hnil. rewrite pad_to_length in Hnil by exact Hfit.
    simpl in Hnil. lia.
  - apply Forall_forall. intros l Hl. apply in_map_iff in Hl as (r & <- & Hr).
    rewrite Forall_forall in Hfit. apply pad_to_length, Hfit, Hr.
Qed.

Lemma csv_no_panic v : csv_render v <> Panic.
Proof.
  unfold csv_render, csv_render_writes. destruct (v_ncols v <? 1); [discriminate|].
  pose proof (csv_emit_rows_no_panic (v_ncols v) (csv_records v)).
  destruct (csv_emit_rows _ _); cbn [bind]; congruence.
Qed.

Lemma csv_refuses_empty v : v_ncols v = 0 -> csv_render v = Err.
Proof. intros H. unfold csv_render, csv_render_writes. rewrite H. reflexivity. Qed.

Lemma csv_records_fit v : wf_view v -> Forall (fun r => length r <= v_ncols v) (csv_records v).
Proof.
  intros (Hrows & Hh & _). unfold csv_records. apply Forall_app. split.
  - destruct (v_header v) as [h|]; [|constructor]. constructor; [|constructor].
    unfold row_texts. rewrite map_length. exact Hh.
  - apply Forall_forall. intros r Hr. apply in_map_iff in Hr as (cs & <- & Hcs).
    unfold body_rows in Hcs. apply in_flat_map in Hcs as (row & Hrow & Hin).
    rewrite Forall_forall in Hrows. specialize (Hrows row Hrow).
    destruct row as [cs'|]; simpl in Hin; [|contradiction].
    destruct Hin as [<-|[]]. unfold row_texts. rewrite map_length. exact Hrows.
Qed.

Lemma csv_succeeds v : wf_view v -> 1 <= v_ncols v -> exists out, csv_render v = Ok out.
Proof.
  intros Hwf Hn. unfold csv_render, csv_render_writes.
  destruct (v_ncols v <? 1) eqn:E; [apply Nat.ltb_lt in E; lia|].
  destruct (csv_emit_rows_total _ _ Hn (csv_records_fit v Hwf)) as (ws & Ews).
  rewrite Ews. cbn [bind]. eauto.
Qed.
