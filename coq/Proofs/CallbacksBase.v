(* C13 proofs, part 1: list plumbing, the registration matrix, and the link
   between the model's callback sets and the specification's registration list. *)
From Tab Require Export Model.Callbacks Spec.CbTrace.

(* ---- lists *)
Lemma set_nth_length {A} (l : list A) i x : length (set_nth l i x) = length l.
Proof. revert i; induction l as [|y l IH]; intros [|i]; simpl; auto. Qed.

Lemma nth_error_set_nth_eq {A} (l : list A) i x : i < length l -> nth_error (set_nth l i x) i = Some x.
Proof. revert i; induction l as [|y l IH]; intros [|i] H; simpl in *; try lia; auto. apply IH. lia. Qed.

Lemma nth_error_set_nth_neq {A} (l : list A) i j x : i <> j -> nth_error (set_nth l i x) j = nth_error l j.
Proof. revert i j; induction l as [|y l IH]; intros [|i] [|j] H; simpl; auto; try congruence. Qed.

Lemma map_set_nth {A B} (f : A -> B) l i x : map f (set_nth l i x) = set_nth (map f l) i (f x).
Proof. revert i; induction l as [|y l IH]; intros [|i]; simpl; auto. rewrite IH. reflexivity. Qed.

Lemma set_nth_app_last {A} (l : list A) y x : set_nth (l ++ [y]) (length l) x = l ++ [x].
Proof. induction l; simpl; auto. rewrite IHl. reflexivity. Qed.

Lemma nth_error_app_last {A} (l : list A) y : nth_error (l ++ [y]) (length l) = Some y.
Proof. induction l; simpl; auto. Qed.

Lemma nth_error_app_lt {A} (l l' : list A) i : i < length l -> nth_error (l ++ l') i = nth_error l i.
Proof. intros H. apply nth_error_app1. exact H. Qed.

Lemma nth_error_lt {A} (l : list A) i x : nth_error l i = Some x -> i < length l.
Proof. intros H. apply nth_error_Some. congruence. Qed.

Lemma set_nth_same {A} (l : list A) i x : nth_error l i = Some x -> set_nth l i x = l.
Proof. revert i; induction l as [|y l IH]; intros [|i] H; simpl in *; try discriminate; auto.
  - congruence.
  - rewrite IH; auto.
Qed.

Lemma idx_Some {A} (l : list A) i x : nth_error l i = Some x -> idx l i = Ok x.
Proof. intros H. unfold idx. rewrite H. reflexivity. Qed.

Lemma seq_snoc a n : seq a (S n) = seq a n ++ [a + n].
Proof. rewrite seq_S. reflexivity. Qed.

Lemma flat_map_app' {A B} (f : A -> list B) l1 l2 : flat_map f (l1 ++ l2) = flat_map f l1 ++ flat_map f l2.
Proof. induction l1; simpl; auto. rewrite IHl1, app_assoc. reflexivity. Qed.

(* ---- the registration matrix *)
Lemma deref_owner_not_err st o : deref_owner st o <> Err.
Proof.
  destruct o as [|n|r|r c]; simpl; try discriminate.
  - destruct (st_ncols st <? n); try discriminate.
    unfold idx_n. destruct (n <? st_lencols st); simpl; discriminate.
  - unfold idx. destruct (nth_error (st_rows st) r); simpl; discriminate.
  - unfold idx. destruct (nth_error (st_rows st) r) as [row|]; simpl; try discriminate.
    destruct (rw_cells row) as [cells|]; try discriminate.
    destruct c as [|c']; try discriminate.
    destruct (nth_error cells c'); simpl; discriminate.
Qed.

Lemma select_set_accepts o g : (select_set o g = None) <-> accepts (kind o) g = false.
Proof. destruct o, g; simpl; split; intros H; try discriminate; reflexivity. Qed.

Lemma register_err_iff st o tm g cb : register st o tm g cb = Err <-> accepts (kind o) g = false.
Proof.
  unfold register. rewrite <- select_set_accepts.
  destruct (select_set o g) as [sl|]; split; intros H; try reflexivity; try discriminate.
  exfalso. destruct (deref_owner st o) eqn:E; simpl in H; try discriminate.
  apply (deref_owner_not_err st o). exact E.
Qed.

(* ---- callback sets versus registrations *)
(* whose callbacks, aimed at what, a set holds *)
Definition slot_owner (sl : slot) : owner * target :=
  match sl with
  | SlTableSelf => (OTable, GItself)
  | SlTableCell => (OTable, GCell)
  | SlTableRow => (OTable, GRow)
  | SlColSelf n => (OColumn n, GItself)
  | SlColCell n => (OColumn n, GCell)
  | SlRowSelf r => (ORow r, GItself)
  | SlRowCell r => (ORow r, GCell)
  | SlCellSelf r c => (OCell r c, GItself)
  end.

Definition sel (regs : list reg) (sl : slot) (tm : ctime) : list nat :=
  map r_cb (filter (is_for (fst (slot_owner sl)) (snd (slot_owner sl)) tm) regs).

Definition sets_ok (sets : list (slot * cbset)) (regs : list reg) : Prop :=
  forall sl tm, cblist (find_set sets sl) tm = sel regs sl tm.

Lemma sets_ok_init : sets_ok [] [].
Proof. intros sl tm. destruct tm; reflexivity. Qed.

Lemma invoke_list_map cbs x : invoke_list cbs x = map (fun cb => (cb, x)) cbs.
Proof. induction cbs as [|c l IH]; simpl; [reflexivity | rewrite IH; reflexivity]. Qed.

Lemma invoke_fire st regs sl tm x :
  sets_ok (st_sets st) regs ->
  invoke st sl tm x = fire regs (fst (slot_owner sl)) (snd (slot_owner sl)) tm x.
Proof.
  intros H. unfold invoke, get_set, fire. rewrite (H sl tm). unfold sel.
  rewrite invoke_list_map, map_map. reflexivity.
Qed.

Lemma cblist_cb_append s tm cb tm' :
  cblist (cb_append s tm cb) tm' = cblist s tm' ++ (if ctime_eqb tm tm' then [cb] else []).
Proof. destruct tm, tm'; simpl; rewrite ?app_nil_r; reflexivity. Qed.

Lemma slot_eqb_refl sl : slot_eqb sl sl = true.
Proof. destruct sl; simpl; rewrite ?Nat.eqb_refl; reflexivity. Qed.

(* a supported registration lands in exactly the set the two switches select *)
Lemma is_for_select o g sl tm cb sl' tm' :
  select_set o g = Some sl ->
  is_for (fst (slot_owner sl')) (snd (slot_owner sl')) tm' (mkReg o tm g cb) = slot_eqb sl sl' && ctime_eqb tm tm'.
Proof.
  intros H. unfold is_for; simpl.
  destruct o, g; simpl in H; try discriminate; inversion H; subst; clear H;
    destruct sl'; simpl;
    repeat match goal with |- context [?a =? ?b] => destruct (a =? b) end; simpl;
    reflexivity.
Qed.

Lemma sets_ok_register sets regs o tm g cb sl :
  sets_ok sets regs ->
  select_set o g = Some sl ->
  sets_ok ((sl, cb_append (find_set sets sl) tm cb) :: sets) (regs ++ [mkReg o tm g cb]).
Proof.
  intros H Hs sl' tm'. unfold sel. rewrite filter_app, map_app. simpl.
  rewrite (is_for_select _ _ _ _ _ _ _ Hs).
  destruct (slot_eqb sl sl') eqn:E.
  - assert (sl = sl').
    { destruct sl, sl'; simpl in E; try discriminate; try reflexivity;
        try (apply Nat.eqb_eq in E; congruence).
      apply andb_true_iff in E as [E1 E2]. apply Nat.eqb_eq in E1, E2. congruence. }
    subst sl'. rewrite cblist_cb_append. rewrite (H sl tm'). unfold sel. simpl.
    destruct (ctime_eqb tm tm'); reflexivity.
  - simpl. rewrite app_nil_r. apply (H sl' tm').
Qed.
