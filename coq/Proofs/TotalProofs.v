(* Composition for C09: cells made from items are in the text renderer's
   domain, for every item whatsoever (size overrides included). *)
From Tab Require Import Model.Cell Spec.TextLayout Proofs.LengthProofs Proofs.CellProofs.

Lemma lines_of_nil : lines_of [] = [].
Proof. reflexivity. Qed.

Section Total.
  Variable W : bytes -> nat.
  Variable e : env.

  Lemma new_cell_width_formula it : item_is_widther e it = false ->
    c_width (new_cell W e it) = Z.of_nat (list_max (map W (lines_of (c_str (new_cell W e it))))).
  Proof.
    intros Hw. destruct it as [| s | r | o | id]; try discriminate.
    - rewrite new_cell_nil. reflexivity.
    - unfold new_cell, update, update_r. cbn [c_raw as_widther as_heighter c_width c_height c_str].
      destruct (is_nil s) eqn:E.
      + apply is_nil_true in E. subst s. reflexivity.
      + rewrite longest_line_with_max. cbn [bind c_width c_str]. reflexivity.
    - unfold new_cell, update, update_r. cbn [c_raw as_widther as_heighter c_width c_height c_str].
      destruct (is_nil (utf8_of_rune r)) eqn:E.
      + apply is_nil_true in E. rewrite E. reflexivity.
      + rewrite longest_line_with_max. cbn [bind c_width c_str]. reflexivity.
    - cbn [item_is_widther] in Hw. unfold new_cell, update, update_r. cbn [c_raw as_widther c_width c_height c_str].
      destruct (m_width (e id)) eqn:Em; [discriminate|].
      match goal with |- context [is_nil ?t] => set (str := t) end.
      destruct (is_nil str) eqn:E.
      + apply is_nil_true in E. destruct (as_heighter e (IObj id)); cbn [c_width c_str]; rewrite E; reflexivity.
      + destruct (as_heighter e (IObj id)); rewrite longest_line_with_max; cbn [bind c_width c_str]; reflexivity.
  Qed.

  Lemma vcell_of_item_cell_ok j it : cell_ok W (vcell_of_item W e j it).
  Proof.
    destruct (vcell_of_item_nonneg W e j it) as [H1 H2].
    unfold cell_ok. split; [exact H1|]. split; [exact H2|].
    unfold vcell_of_item. cbn [vc_widther vc_tw vc_text]. intros Hw.
    unfold cell_lines. cbn [vc_text]. unfold cell_width, cell_text.
    rewrite (new_cell_width_formula it Hw).
    destruct (Z.ltb_spec (Z.of_nat (list_max (map W (lines_of (c_str (new_cell W e it)))))) 0); [lia | reflexivity].
  Qed.
End Total.

(* every cell of a view built by the core from items is [f item] *)
From Tab Require Import Model.Core.

Lemma Forall_concat {A} (P : A -> Prop) (ls : list (list A)) :
  Forall (fun l => Forall P l) ls -> Forall P (concat ls).
Proof. induction 1; cbn; [constructor | apply Forall_app; split; assumption]. Qed.

Lemma view_of_cells_all {A} (P : vcell -> Prop) (f : A -> vcell) (st : Core.state A) :
  (forall a, P (f a)) -> Forall P (all_cells (view_of f st)).
Proof.
  intros HP. unfold all_cells, all_rows. apply Forall_concat. apply Forall_app. split.
  - unfold view_of. cbn [v_header]. destruct (t_header st) as [hc|]; cbn [option_map]; [|constructor].
    constructor; [|constructor]. apply Forall_forall. intros c Hc. apply in_map_iff in Hc as (x & <- & _). apply HP.
  - unfold body_rows, view_of. cbn [v_rows]. apply Forall_forall. intros r Hr.
    apply in_flat_map in Hr as (ro & Hro & Hin). apply in_map_iff in Hro as (tr & <- & _).
    destruct (row_cells tr) as [cs|]; cbn [option_map] in Hin; [|destruct Hin].
    destruct Hin as [<-|[]]. apply Forall_forall. intros c Hc. apply in_map_iff in Hc as (x & <- & _). apply HP.
Qed.
