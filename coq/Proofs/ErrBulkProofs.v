(* C11 at volume: the loops of Model/ErrBulk.v compute what the plain model
   computes on the expanded history; Errors() grows by exactly what is handed
   in, whatever it already holds (no ceiling). *)
From Tab Require Import Model.ErrCont Model.ErrRoute Model.ErrBulk Spec.ErrLog Spec.ErrBulk
  Proofs.ErrContProofs Proofs.ErrRouteProofs Proofs.ErrOnceProofs.

(* ---- loops are folds over the expanded history *)

Lemma add_many_fold n : forall c k,
  add_many c k n = fold_left cont_step (map (fun i => OpAdd (Some i)) (ids_from k n)) c.
Proof. induction n as [|n IH]; intros c k; [reflexivity|]. cbn [add_many ids_from map fold_left]. apply IH. Qed.

Lemma vstep_expand c o : vstep c o = fold_left cont_step (vexpand o) c.
Proof. destruct o as [o|k n|gs]; [reflexivity | apply add_many_fold | reflexivity]. Qed.

Lemma vrun_from_expand ops : forall c,
  fold_left vstep ops c = fold_left cont_step (vexpand_all ops) c.
Proof.
  induction ops as [|o ops IH]; intros c; [reflexivity|].
  cbn [fold_left vexpand_all flat_map]. rewrite fold_left_app, <- vstep_expand. apply IH.
Qed.

Lemma vrun_expand m ops : vrun m ops = cont_run m (vexpand_all ops).
Proof. apply vrun_from_expand. Qed.

Lemma loop_fold {S} (f : S -> errid -> S) (g : S -> event -> S) (mk : errid -> event) :
  (forall st i, f st i = g st (mk i)) ->
  forall n st k, loop f st k n = fold_left g (map mk (ids_from k n)) st.
Proof.
  intros H n. induction n as [|n IH]; intros st k; [reflexivity|].
  cbn [loop ids_from map fold_left]. rewrite H. apply IH.
Qed.

Lemma bstep_expand st b : bstep st b = run_from st (bexpand b).
Proof.
  destruct b as [ev|r k n|k n|s r k n]; [reflexivity| | |];
    unfold bstep, bexpand, run_from; apply loop_fold; reflexivity.
Qed.

Lemma brun_from_expand bh : forall st, brun_from st bh = run_from st (bexpand_all bh).
Proof.
  induction bh as [|b bh IH]; intros st; [reflexivity|].
  unfold brun_from, run_from in *. cbn [fold_left bexpand_all flat_map].
  rewrite fold_left_app. fold (run_from st (bexpand b)). rewrite <- bstep_expand. apply IH.
Qed.

Lemma brun_expand bh : brun bh = run (bexpand_all bh).
Proof. apply brun_from_expand. Qed.

(* ---- the bulk spec is the plain spec of the expanded history *)

Lemma raised_from_app a : forall acc b, raised_from acc (a ++ b) = raised_from (raised_from acc a) b.
Proof.
  induction a as [|o a IH]; intros acc b; [reflexivity|].
  cbn [app]. rewrite raised_from_cons, (raised_from_cons acc o a). apply IH.
Qed.

Lemma raised_from_adds n : forall acc k,
  raised_from acc (map (fun i => OpAdd (Some i)) (ids_from k n)) = acc ++ ids_from k n.
Proof.
  induction n as [|n IH]; intros acc k; cbn [ids_from map raised_from].
  - rewrite app_nil_r. reflexivity.
  - rewrite IH, <- app_assoc. reflexivity.
Qed.

Lemma vraised_expand ops : forall acc, vraised_from acc ops = raised_from acc (vexpand_all ops).
Proof.
  induction ops as [|o ops IH]; intros acc; [reflexivity|].
  cbn [vexpand_all flat_map]. rewrite raised_from_app. destruct o as [o|k n|gs]; cbn [vraised_from vexpand].
  - apply IH.
  - rewrite raised_from_adds. apply IH.
  - apply IH.
Qed.

Lemma vexpected_expand m ops : vexpected m ops = cont_expected m (vexpand_all ops).
Proof. destruct m; [reflexivity| |]; apply vraised_expand. Qed.

(* Errors() after any bulk history, for every way of making the container *)
Theorem bulk_container_log : forall m ops, errors (vrun m ops) = view (vexpected m ops).
Proof. intros m ops. rewrite vrun_expand, vexpected_expand. apply cont_errors_view. Qed.

(* ---- no ceiling: the container *)

(* one more non-nil error: Errors() is what it was, plus that error at the end *)
Theorem container_grows : forall m ops e, m <> MNil ->
  log_of (errors (cont_run m (ops ++ [OpAdd (Some e)])))
  = log_of (errors (cont_run m ops)) ++ [Some e].
Proof.
  intros m ops e Hm. rewrite !cont_errors_view, !log_of_view.
  destruct m; [congruence| |]; unfold cont_expected, raised_non_nil;
    rewrite raised_from_app; cbn [raised_from]; rewrite map_app; reflexivity.
Qed.

Lemma length_ids_from n : forall k, length (ids_from k n) = n.
Proof. induction n as [|n IH]; intros k; [reflexivity|]. cbn [ids_from length]. rewrite IH. reflexivity. Qed.

(* n more: Errors() is longer by exactly n, for every n and after every history *)
Theorem container_no_ceiling : forall m ops k n, m <> MNil ->
  log_of (errors (add_many (cont_run m ops) k n))
  = log_of (errors (cont_run m ops)) ++ map Some (ids_from k n)
  /\ length (log_of (errors (add_many (cont_run m ops) k n)))
     = length (log_of (errors (cont_run m ops))) + n.
Proof.
  intros m ops k n Hm.
  assert (E : log_of (errors (add_many (cont_run m ops) k n))
              = log_of (errors (cont_run m ops)) ++ map Some (ids_from k n)).
  { assert (F : add_many (cont_run m ops) k n
                 = cont_run m (ops ++ map (fun i => OpAdd (Some i)) (ids_from k n))).
    { rewrite add_many_fold. unfold cont_run. rewrite fold_left_app. reflexivity. }
    rewrite F, !cont_errors_view, !log_of_view.
    destruct m; [congruence| |]; unfold cont_expected, raised_non_nil;
      rewrite raised_from_app, raised_from_adds, map_app; reflexivity. }
  split; [exact E|]. rewrite E, app_length, map_length, length_ids_from. reflexivity.
Qed.

(* ---- no ceiling: the table *)

(* one more event: Table.Errors() is what it was, plus what the event owes the
   table (its own errors if its source reports to the table, a row's pending
   errors at the attach), whatever the table already holds *)
Theorem table_grows : forall h ev, wf_hist (h ++ [ev]) ->
  log_of (table_errors (run (h ++ [ev])))
  = log_of (table_errors (run h)) ++ map Some (contribution h ev).
Proof.
  intros h ev W. pose proof (wf_prefix h [ev] W) as W0.
  rewrite (table_log _ W), (table_log _ W0), !log_of_view, expected_snoc, map_app. reflexivity.
Qed.

(* Table.Errors() after any bulk history *)
Theorem bulk_table_log : forall bh, wf_hist (bexpand_all bh) ->
  table_errors (brun bh) = view (expected_errors (bexpand_all bh))
  /\ forall r, row_errors (brun bh) r = view (expected_row (bexpand_all bh) r).
Proof.
  intros bh W. rewrite brun_expand. split; [apply table_log; exact W|].
  intros r. apply row_log. exact W.
Qed.

(* a callback that fails n times in a row for a row of the table (once per
   cell of a row of n cells): exactly those n errors are added to the table's
   list, in order, for every n and whatever the list already holds *)
Lemma callbacks_grow n : forall h s r k,
  wf_hist h -> joined h r = true -> taken h r = false ->
  let h' := h ++ map (fun i => CallbackFails s r (Some i)) (ids_from k n) in
  wf_hist h' /\ expected_errors h' = expected_errors h ++ ids_from k n.
Proof.
  induction n as [|n IH]; intros h s r k W J T; cbn [ids_from map].
  - rewrite !app_nil_r. split; [exact W | reflexivity].
  - cbv zeta.
    assert (A : forall t, h ++ CallbackFails s r (Some k) :: t = (h ++ [CallbackFails s r (Some k)]) ++ t).
    { intros t. rewrite <- app_assoc. reflexivity. }
    rewrite A. clear A.
    assert (W1 : wf_hist (h ++ [CallbackFails s r (Some k)])).
    { unfold wf_hist. rewrite wf_snoc. apply andb_true_intro. split; [exact W|].
      cbn [wf_event]. rewrite J, T, orb_true_r. reflexivity. }
    assert (J1 : joined (h ++ [CallbackFails s r (Some k)]) r = true).
    { rewrite joined_snoc, J. reflexivity. }
    assert (T1 : taken (h ++ [CallbackFails s r (Some k)]) r = false).
    { rewrite taken_snoc, T. reflexivity. }
    destruct (IH _ s r (N.succ k) W1 J1 T1) as (W2 & E2). split; [exact W2|].
    rewrite E2, expected_snoc. unfold contribution. cbn [ev_src ev_ids app].
    assert (D : delivered h (if site_has_row s then Some r else None) = true).
    { destruct (site_has_row s); [exact J | reflexivity]. }
    rewrite D, <- app_assoc. reflexivity.
Qed.

Theorem every_cell_fails : forall h s r k n,
  wf_hist h -> joined h r = true -> taken h r = false ->
  log_of (table_errors (brun_from (run h) [BCallbacks s r k n]))
  = log_of (table_errors (run h)) ++ map Some (ids_from k (N.to_nat n)).
Proof.
  intros h s r k n W J T.
  destruct (callbacks_grow (N.to_nat n) h s r k W J T) as (W2 & E2).
  unfold brun_from. cbn [fold_left]. rewrite bstep_expand. cbn [bexpand].
  unfold run, run_from in *. rewrite <- fold_left_app.
  pose proof (table_log _ W2) as L2. pose proof (table_log _ W) as L.
  unfold run, run_from in L2, L. rewrite L2, L, !log_of_view, E2, map_app. reflexivity.
Qed.

(* The running-state form of the table spec (Spec/ErrBulk.v [srun]) against
   [expected_errors] of the expanded history: checked here on a history that
   uses every bulk event, pending errors, attach, separator and misuse; the
   general equivalence is not proved (notes/r6-C11.md). *)
Example srun_agrees_on_sample :
  let bh := [ BOne (AttachRow 1); BCallbacks STblCellAddRow 1 0 4; BRowErrs 9 100 5;
              BOne (CallbackFails SRowCellAdd 9 (Some 50%N)); BTableErrs 60 3;
              BOne (AttachRow 9); BRowErrs 9 105 2; BOne (AddSeparator 7); BOne (RowAddOnSeparator 7 70%N);
              BOne (TableAddErrorList (Some (unruns [(None, 2%N); (Some 200%N, 3%N)]))); BRowErrs 8 300 2;
              BCallbacks STblItselfPre 0 400 2 ] in
  wf_hist (bexpand_all bh)
  /\ s_log (srun bh) = expected_errors (bexpand_all bh)
  /\ pend_of (s_pend (srun bh)) 8 = raised_by (bexpand_all bh) (Some 8).
Proof. cbv zeta. repeat split; vm_compute; reflexivity. Qed.
