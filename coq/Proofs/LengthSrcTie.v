(* The tie between the TRANSLATED SOURCE of length/length.go (Generated/LengthSrc.v,
   written by tools/go2coq from the Go text) and the hand-written model
   Model/Length.v: for EVERY string (and every width measure W) the translated
   functions return Ok of exactly what the model defines - no panic (in
   particular ss[len(ss)-1] is in range because strings.Split never returns an
   empty list), no loop bound involved (the loops range over a slice).

   The generated bodies are only run symbolically; the loop is handled by
   range_idx_fold (Base/GoSem.v) with the body's effect stated as a function. *)
From Tab Require Import Base.GoSem Model.Length Spec.Length Proofs.LengthProofs.
From Tab Require Import Generated.LengthSrc.
Local Open Scope Z_scope.

Lemma mbind_ret_l' {A B} (a : A) (f : A -> M B) : mbind ([], Done (Ok a)) f = f a.
Proof. apply mbind_ret_l. Qed.
Lemma sbind_norm' {S S' L R} (s : S) (k : S -> M (ctl S' L R)) : sbind ([], Done (Ok (Norm s))) k = k s.
Proof. apply sbind_norm. Qed.
Lemma sbind_ret_ret {S S' L R} (r : R) (k : S -> M (ctl S' L R)) : sbind (ret (Ret r)) k = ret (Ret r).
Proof. unfold sbind. rewrite mbind_ret_l. reflexivity. Qed.
Ltac mstep := rewrite ?mbind_ret_l, ?sbind_norm, ?mbind_ret_l', ?sbind_norm', ?lift_pure_ok, ?sbind_ret_ret; cbv beta iota zeta.

(* what a model result looks like on the source's side: int is Z *)
Definition res_Z (r : res nat) : fres Z :=
  Done (match r with Ok n => Ok (Z.of_nat n) | Err => Err | Panic => Panic end).

(* ---------------------------------------------------------------- strings.Split *)
Lemma strings_Split1_LF s : strings_Split1 s 10%N = split_lf s.
Proof.
  induction s as [|b r IH]; [reflexivity|]. cbn [strings_Split1 split_lf]. rewrite IH. reflexivity.
Qed.

Lemma snoc_cases {A} (l : list A) : l <> [] -> exists init x, l = init ++ [x].
Proof. intros H. destruct (exists_last H) as (i & x & ->). eauto. Qed.

(* ---------------------------------------------------------------- the measures *)
Theorem src_StringBytes_is_model s : src_StringBytes s = Ok (Z.of_nat (string_bytes s)).
Proof. reflexivity. Qed.

Theorem src_StringRunes_is_model s : src_StringRunes s = Ok (Z.of_nat (string_runes s)).
Proof. reflexivity. Qed.

Theorem src_StringCells_is_model (W : bytes -> nat) s :
  src_StringCells (fun x => Z.of_nat (W x)) s = Ok (Z.of_nat (W s)).
Proof. reflexivity. Qed.

(* ---------------------------------------------------------------- Lines *)
Theorem src_Lines_is_model s : src_Lines s = Done (lines s).
Proof.
  unfold src_Lines, pure_fn, fn_body. cbv zeta. rewrite strings_Split1_LF.
  rewrite lines_dle.
  destruct (snoc_cases (split_lf s) (split_lf_nonempty s)) as (init & x & E). rewrite E.
  rewrite index_last. mstep. rewrite dle_snoc.
  destruct x as [|b x]; cbn [bytes_eqb is_nil].
  - rewrite slice_to_last. repeat mstep. reflexivity.
  - repeat mstep. reflexivity.
Qed.

Theorem src_Lines_total s : src_Lines s = Ok (lines_of s).
Proof. rewrite src_Lines_is_model, lines_lines_of. reflexivity. Qed.

(* ---------------------------------------------------------------- the longest-line functions *)
Section Longest.
  Variable m : bytes -> nat.

  Definition upd_max (x : bytes) (mx : Z) : Z := if Z.of_nat (m x) >? mx then Z.of_nat (m x) else mx.

  Lemma fold_upd_max ss : forall a : nat,
    fold_left (fun mx x => upd_max x mx) ss (Z.of_nat a) = Z.of_nat (Nat.max a (list_max (map m ss))).
  Proof.
    induction ss as [|x ss IH]; intros a; cbn [fold_left map list_max fold_right].
    - rewrite Nat.max_0_r. reflexivity.
    - replace (upd_max x (Z.of_nat a)) with (Z.of_nat (Nat.max a (m x))).
      + rewrite IH. fold (list_max (map m ss)). rewrite Nat.max_assoc. reflexivity.
      + unfold upd_max. destruct (Z.of_nat (m x) >? Z.of_nat a) eqn:E.
        * apply Z.gtb_lt in E. f_equal. lia.
        * rewrite Z.gtb_ltb in E. apply Z.ltb_ge in E. f_equal. lia.
  Qed.

  (* the loop of the three Go functions, for any body that at index k, holding the
     line x, turns max into upd_max x max *)
  Lemma longest_loop {L' R} (ss : list bytes) (body : Z -> Z -> M (ctl Z Z R)) :
    (forall k x mx, nth_error ss k = Some x -> body (Z.of_nat k) mx = ret (Norm (upd_max x mx))) ->
    range_loop (L':=L') (range_idx ss) body 0 = ret (Norm (Z.of_nat (list_max (map m ss)))).
  Proof.
    intros Hb. rewrite (range_idx_fold ss _ upd_max Hb).
    pose proof (fold_upd_max ss 0%nat) as H. cbn [Z.of_nat Nat.max] in H. rewrite H. reflexivity.
  Qed.
End Longest.

(* one proof text for the three functions: unfold, run Lines, split on the number
   of lines, run the loop *)
Ltac longest_tac m Hm :=
  unfold pure_fn, fn_body; rewrite src_Lines_total; repeat mstep;
  destruct (lines_of _) as [|l [|l2 ls]];
  [ reflexivity
  | cbn [Zlen length Z.of_nat Pos.of_succ_nat Z.eqb Pos.eqb]; change (index [l] 0) with (@ret bytes l); repeat mstep;
    rewrite Hm; repeat mstep; cbn [map list_max fold_right]; rewrite Nat.max_0_r; reflexivity
  | set (ss := l :: l2 :: ls);
    assert (E0 : (Zlen ss =? 0) = false) by (apply Z.eqb_neq; unfold Zlen, ss; cbn [length]; lia);
    assert (E1 : (Zlen ss =? 1) = false) by (apply Z.eqb_neq; unfold Zlen, ss; cbn [length]; lia);
    rewrite E0, E1; repeat mstep;
    rewrite (longest_loop m ss);
    [ repeat mstep; reflexivity
    | intros k x mx Hk; rewrite (index_nat ss k x Hk); repeat mstep; rewrite Hm; repeat mstep;
      unfold upd_max; destruct (_ >? _); repeat mstep; reflexivity ] ].

Theorem src_LongestLineBytes_max s :
  src_LongestLineBytes s = Ok (Z.of_nat (list_max (map string_bytes (lines_of s)))).
Proof. unfold src_LongestLineBytes. longest_tac string_bytes src_StringBytes_is_model. Qed.

Theorem src_LongestLineRunes_max s :
  src_LongestLineRunes s = Ok (Z.of_nat (list_max (map string_runes (lines_of s)))).
Proof. unfold src_LongestLineRunes. longest_tac string_runes src_StringRunes_is_model. Qed.

Theorem src_LongestLineCells_max (W : bytes -> nat) s :
  src_LongestLineCells (fun x => Z.of_nat (W x)) s = Ok (Z.of_nat (list_max (map W (lines_of s)))).
Proof. unfold src_LongestLineCells. longest_tac W (src_StringCells_is_model W). Qed.

Theorem src_LongestLineBytes_is_model s : src_LongestLineBytes s = res_Z (longest_line_bytes s).
Proof. unfold longest_line_bytes. rewrite longest_line_with_max. apply src_LongestLineBytes_max. Qed.

Theorem src_LongestLineRunes_is_model s : src_LongestLineRunes s = res_Z (longest_line_runes s).
Proof. unfold longest_line_runes. rewrite longest_line_with_max. apply src_LongestLineRunes_max. Qed.

Theorem src_LongestLineCells_is_model (W : bytes -> nat) s :
  src_LongestLineCells (fun x => Z.of_nat (W x)) s = res_Z (longest_line_with W s).
Proof. rewrite longest_line_with_max. apply src_LongestLineCells_max. Qed.

(* ---------------------------------------------------------------- for Props/C18.v *)
Theorem length_source_is_model :
  (forall s, src_Lines s = Done (lines s))
  /\ (forall s, src_StringBytes s = Ok (Z.of_nat (string_bytes s)))
  /\ (forall s, src_StringRunes s = Ok (Z.of_nat (string_runes s)))
  /\ (forall (W : bytes -> nat) s, src_StringCells (fun x => Z.of_nat (W x)) s = Ok (Z.of_nat (W s)))
  /\ (forall s, src_LongestLineBytes s = res_Z (longest_line_bytes s))
  /\ (forall s, src_LongestLineRunes s = res_Z (longest_line_runes s))
  /\ (forall (W : bytes -> nat) s, src_LongestLineCells (fun x => Z.of_nat (W x)) s = res_Z (longest_line_with W s))
  /\ (forall seg rw s, src_LongestLineCells (fun x => Z.of_nat (string_cells seg rw x)) s = res_Z (longest_line_cells seg rw s)).
Proof.
  repeat split; intros.
  - apply src_Lines_is_model.
  - apply src_LongestLineBytes_is_model.
  - apply src_LongestLineRunes_is_model.
  - apply src_LongestLineCells_is_model.
  - apply src_LongestLineCells_is_model.
Qed.

(* the property on the translated source: Lines never panics and loses nothing
   but the breaks and at most one trailing newline *)
Theorem src_Lines_lossless s : exists ls,
  src_Lines s = Ok ls
  /\ s = join [LF] ls ++ (if ends_with_lf s then [LF] else [])
  /\ Forall (fun l => ~ In LF l) ls
  /\ ls = spec_lines s.
Proof.
  exists (lines_of s). split; [apply src_Lines_total|].
  split; [exact (lines_lossless s)|]. split; [apply lines_no_lf | apply lines_of_spec].
Qed.

(* ... and each longest-line function returns the maximum of its measure over
   exactly those lines, for every measure W of display width *)
Theorem src_longest_three (W : bytes -> nat) s : exists ls,
  src_Lines s = Ok ls
  /\ src_LongestLineBytes s = Ok (Z.of_nat (list_max (map string_bytes ls)))
  /\ src_LongestLineRunes s = Ok (Z.of_nat (list_max (map string_runes ls)))
  /\ src_LongestLineCells (fun x => Z.of_nat (W x)) s = Ok (Z.of_nat (list_max (map W ls))).
Proof.
  exists (lines_of s). split; [apply src_Lines_total|].
  split; [apply src_LongestLineBytes_max|]. split; [apply src_LongestLineRunes_max|apply src_LongestLineCells_max].
Qed.
