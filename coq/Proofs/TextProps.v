(* The statements of Props/C03.v and Props/C04.v in their final form. *)
From Tab Require Import Model.Text Spec.TextLayout Proofs.TextBase Proofs.TextMeasure
     Proofs.TextRefine Proofs.TextTop Proofs.TextGeom Proofs.TextSlots.

Local Open Scope nat_scope.

Lemma cover_ok W v : cells_cover W v -> cells_ok W v.
Proof. unfold cells_cover, cells_ok. apply Forall_impl. tauto. Qed.

Lemma plain_cover W v : plain_view W v -> cells_cover W v.
Proof.
  unfold plain_view, cells_cover. apply Forall_impl. intros c (H1 & H2 & H3).
  split; [split; [|split]|].
  - rewrite H2. lia.
  - rewrite H3. lia.
  - intros _. exact H2.
  - intros Hw. congruence.
Qed.

Lemma colwidth_proof W d v :
  1 <= v_ncols v -> cells_cover W v -> complete d ->
  forall l, In l (layout W d v) ->
  exists gl gi gr bodies,
    l = skeleton gl gi gr bodies
    /\ map segs_width bodies = map (fun i => colw W v i + 2) (seq 0 (v_ncols v)).
Proof.
  intros Hn Hc Hd l Hl.
  destruct (complete_lines_boxed W d v Hn Hc l Hd Hl) as (gl & gi & gr & bodies & E & Hw & _).
  eauto 8.
Qed.

Lemma flat_map_ext_in {A B} (f g : A -> list B) l :
  (forall x, In x l -> f x = g x) -> flat_map f l = flat_map g l.
Proof.
  induction l as [|a l IH]; intros H; [reflexivity|].
  simpl. rewrite (H a) by (left; reflexivity). rewrite IH by (intros; apply H; right; assumption).
  reflexivity.
Qed.

Lemma structure_text_proof W d v :
  1 <= v_ncols v -> plain_view W v ->
  map kind_of (layout W d v) = expected_shape d v.
Proof.
  intros Hn Hp. rewrite (structure_proof W d v Hn).
  unfold expected_shape, expected_shape_with. f_equal; [|f_equal].
  - destruct (v_header v) as [h|] eqn:E; [|reflexivity].
    rewrite (plain_row_height W v Hp h) by (apply header_row_in; exact E). reflexivity.
  - apply flat_map_ext_in. intros [cs|] Hr; [|reflexivity].
    rewrite (plain_row_height W v Hp cs) by (apply body_row_in; exact Hr). reflexivity.
Qed.

(* the model's alignment loop resolves exactly the spec's effective alignment *)
Lemma align_model_proof v :
  wf_view v ->
  exists als, column_aligns v = Ok als
    /\ forall i, i < v_ncols v ->
         exists a, nth_error als i = Some a
           /\ match a with AlNil => AlKnown ALeft | x => x end = AlKnown (eff_align v i).
Proof.
  intros (_ & _ & Hal & _). exists (map (al_of v) (seq 0 (v_ncols v))).
  split; [apply column_aligns_ok; exact Hal|].
  intros i Hi. exists (al_of v i). split; [apply nth_error_map_seq_lt; exact Hi|].
  apply (al_of_eff v i).
Qed.

Lemma no_panic_proof W d v :
  1 <= v_ncols v -> wf_view v -> dec_ok d -> cells_ok W v -> text_render W d v <> Panic.
Proof. intros Hn Hwf Hd Hc. rewrite (text_refines_proof W d v Hn Hwf Hd Hc). discriminate. Qed.

Lemma empty_decoration_err_proof W d v :
  is_empty_decoration d = true -> text_render W d v = Err.
Proof. intros H. unfold text_render, text_render_writes. rewrite H. reflexivity. Qed.
