From Tab Require Import Model.Wrap Model.WrapCb Proofs.WrapProofs.

Section WrapCbProofs.
  Variable U E : Type.
  Variable out : kind -> view -> res bytes.
  Variable degraded : kind -> mstate -> view -> res bytes.
  Notation xstate := (xstate U E).
  Notation xop := (xop U E).

  Lemma if_same {A} (b : bool) (x : A) : (if b then x else x) = x.
  Proof. destruct b; reflexivity. Qed.

  (* one walk over the list, whatever the order of its entries and whatever
     the observers report: every measuring kind in it has measured, every
     report is recorded, in list order *)
  Lemma walk (v : view) (l : list (xcb E)) : forall t m errs,
    invoke_cbs (map (cb_of v) l) (t, m) errs =
    ((if existsb (kind_eqb KText) (measure_kinds l) then MFresh else t,
      if existsb (kind_eqb KMd) (measure_kinds l) then MFresh else m),
     errs ++ reports v l).
  Proof.
    induction l as [|c l IH]; intros t m errs.
    - cbn. rewrite app_nil_r. reflexivity.
    - destruct c as [k|f].
      + destruct k; cbn [map invoke_cbs cb_of fst snd add_error]; rewrite IH;
          cbn [measure_kinds flat_map app existsb kind_eqb orb reports observers];
          rewrite ?if_same; reflexivity.
      + cbn [map invoke_cbs cb_of fst snd]. rewrite IH.
        cbn [measure_kinds flat_map app reports observers].
        fold (observers l). fold (reports v l).
        destruct (f v); cbn [add_error app]; rewrite <- ?app_assoc; reflexivity.
  Qed.

  Lemma erase_invoke (s : xstate) : erase_state (xinvoke s) = invoke (erase_state s).
  Proof.
    unfold xinvoke, erase_state, invoke. rewrite walk. reflexivity.
  Qed.

  Lemma measure_kinds_app (l1 l2 : list (xcb E)) : measure_kinds (l1 ++ l2) = measure_kinds l1 ++ measure_kinds l2.
  Proof. unfold measure_kinds. apply flat_map_app. Qed.

  Lemma erase_step (s : xstate) (o : xop) : erase_state (xstep s o) = run (erase_state s) (erase_op o).
  Proof.
    destruct o as [v u|k|f|k]; cbn [xstep erase_op run fold_left step].
    - reflexivity.
    - unfold erase_state. destruct (measuring k); cbn [x_view x_user x_cbs x_text x_md st_view st_user st_cbs st_text st_md];
        [rewrite measure_kinds_app|]; reflexivity.
    - unfold erase_state. cbn [x_view x_user x_cbs x_text x_md]. rewrite measure_kinds_app. cbn. rewrite app_nil_r. reflexivity.
    - apply erase_invoke.
  Qed.

  (* REFINEMENT: the table state of Model/Wrap.v after the history with the
     observers erased is the erasure of the state after the full history *)
  Theorem refines (ops : list xop) : forall s : xstate,
    erase_state (xrun s ops) = run (erase_state s) (erase ops).
  Proof.
    induction ops as [|o ops IH]; intros s; [reflexivity|].
    cbn [xrun fold_left erase flat_map]. fold (xrun (xstep s o) ops). fold (erase ops).
    rewrite IH, erase_step. unfold run. rewrite fold_left_app. reflexivity.
  Qed.

  Theorem xrender_refines (s : xstate) k :
    xrender out degraded s k = render out degraded (erase_state s) k.
  Proof.
    unfold xrender, render. rewrite <- erase_invoke. reflexivity.
  Qed.

  (* C10 with observers in the lists: a render through a wrapper of kind k is
     format k's output for the current view - wherever the application's
     observers were registered relative to the wrappers' measuring callbacks
     and whatever they report *)
  Theorem x_render_is_out (ops : list xop) (s : xstate) k :
    wrapped k (erase ops) ->
    xrender out degraded (xrun s ops) k = out k (x_view (xrun s ops)).
  Proof.
    intros Hw. rewrite xrender_refines, refines, render_is_out by assumption.
    rewrite <- refines. reflexivity.
  Qed.

  (* two histories that differ only in the observers (which, how many, where
     in the history, reporting or not) render identically *)
  Theorem observers_invisible (ops1 ops2 : list xop) v u k :
    erase ops1 = erase ops2 ->
    xrender out degraded (xrun (xinit v u) ops1) k = xrender out degraded (xrun (xinit v u) ops2) k.
  Proof.
    intros He. rewrite !xrender_refines, !refines, He. reflexivity.
  Qed.

  (* a pass records EVERY observer's report, in list order: it carries on after an error *)
  Theorem pass_records_all (s : xstate) :
    x_errs (xinvoke s) = x_errs s ++ reports (x_view s) (x_cbs s).
  Proof. unfold xinvoke. rewrite walk. reflexivity. Qed.
End WrapCbProofs.
