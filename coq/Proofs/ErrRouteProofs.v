(* C11, part 2: the model of error routing in a table (Model/ErrRoute.v)
   refines the expected log of Spec/ErrLog.v, for every well-formed history. *)
From Tab Require Import Model.ErrCont Model.ErrRoute Spec.ErrLog Proofs.ErrContProofs.

(* ---- the spec, one event at a time *)

Lemma scan_snoc {A} (f : list event -> event -> A) h : forall pre ev,
  scan f pre (h ++ [ev]) = scan f pre h ++ [f (pre ++ h) ev].
Proof.
  induction h as [|x h IH]; intros pre ev; simpl.
  - rewrite app_nil_r. reflexivity.
  - rewrite IH. rewrite <- app_assoc. reflexivity.
Qed.

Lemma expected_snoc h ev : expected_errors (h ++ [ev]) = expected_errors h ++ contribution h ev.
Proof.
  unfold expected_errors. rewrite scan_snoc, concat_app. simpl. rewrite app_nil_r. reflexivity.
Qed.

Lemma wf_snoc h ev : wf_histb (h ++ [ev]) = wf_histb h && wf_event h ev.
Proof.
  unfold wf_histb. rewrite scan_snoc, forallb_app. simpl. rewrite andb_true_r. reflexivity.
Qed.

Lemma raised_by_snoc h ev w :
  raised_by (h ++ [ev]) w = raised_by h w ++ (if src_eqb (ev_src ev) w then ev_ids ev else []).
Proof. unfold raised_by. rewrite flat_map_app. simpl. rewrite app_nil_r. reflexivity. Qed.

Lemma joined_snoc h ev r : joined (h ++ [ev]) r = joined h r || joins ev r.
Proof. unfold joined. rewrite existsb_app. simpl. rewrite orb_false_r. reflexivity. Qed.

Lemma taken_snoc h ev r : taken (h ++ [ev]) r = taken h r || takes ev r.
Proof. unfold taken. rewrite existsb_app. simpl. rewrite orb_false_r. reflexivity. Qed.

Lemma other_snoc h ev : other_expected (h ++ [ev]) = other_expected h ++ other_contribution h ev.
Proof.
  unfold other_expected. rewrite scan_snoc, concat_app. simpl. rewrite app_nil_r. reflexivity.
Qed.

Lemma all_ids_snoc h ev : all_ids (h ++ [ev]) = all_ids h ++ ev_ids ev.
Proof. unfold all_ids. rewrite flat_map_app. simpl. rewrite app_nil_r. reflexivity. Qed.

Lemma src_eqb_eq a b : src_eqb a b = true <-> a = b.
Proof.
  destruct a, b; simpl; split; intros H; try discriminate; try reflexivity.
  - apply Nat.eqb_eq in H. congruence.
  - inversion H. apply Nat.eqb_refl.
Qed.

Lemma src_eqb_refl a : src_eqb a a = true.
Proof. apply src_eqb_eq. reflexivity. Qed.

Lemma src_eqb_neq a b : a <> b -> src_eqb a b = false.
Proof. intros H. destruct (src_eqb a b) eqn:E; [apply src_eqb_eq in E; contradiction | reflexivity]. Qed.

(* ---- the row store *)

Lemma get_set_same st r rs : get_row (set_row st r rs) r = rs.
Proof. unfold get_row, set_row. simpl. rewrite Nat.eqb_refl. reflexivity. Qed.

Lemma get_set_other st r rs r' : r <> r' -> get_row (set_row st r rs) r' = get_row st r'.
Proof.
  intros H. unfold get_row, set_row. simpl.
  destruct (r =? r') eqn:E; [apply Nat.eqb_eq in E; contradiction | reflexivity].
Qed.

(* ---- containers that hold exactly a given log *)

Definition holds (c : cont) (l : list errid) : Prop := exists s, c = Some s /\ slist s = map Some l.

Lemma holds_new : holds (create MNew) [].
Proof. exists (Some []). split; reflexivity. Qed.

Lemma holds_add c l e : holds c l -> holds (add_error c e) (l ++ non_nil [e]).
Proof.
  intros (s & -> & L). destruct e as [x|]; simpl non_nil.
  - rewrite add_error_some. eexists. split; [reflexivity|]. simpl. rewrite L, map_app. reflexivity.
  - rewrite add_error_none, app_nil_r. exists s. split; [reflexivity | exact L].
Qed.

Lemma holds_add_list c l el :
  holds c l -> holds (add_error_list c el) (l ++ non_nil (match el with None => [] | Some x => x end)).
Proof.
  intros (s & -> & L). destruct (add_error_list_some s el) as (s' & E & L').
  exists s'. split; [exact E|]. rewrite L', L, map_app. reflexivity.
Qed.

Lemma holds_errors c l : holds c l -> errors c = view l.
Proof. intros (s & -> & L). apply errors_view. exact L. Qed.

(* ---- the invariant *)

Definition row_inv (h : list event) (st : tstate) (r : nat) : Prop :=
  if taken h r
  then r_ec (get_row st r) = ECOther
  else if joined h r
  then r_ec (get_row st r) = ECTable
  else (r_ec (get_row st r) = ECNil /\ raised_by h (Some r) = [])
       \/ (exists c, r_ec (get_row st r) = ECOwn c /\ holds c (raised_by h (Some r))).

Definition Inv (h : list event) (st : tstate) : Prop :=
  holds (t_ec st) (expected_errors h) /\ holds (t_oec st) (other_expected h) /\ forall r, row_inv h st r.

Lemma inv_init : Inv [] init.
Proof.
  split; [|split].
  - exact holds_new.
  - exact holds_new.
  - intros r. unfold row_inv. simpl. left. split; reflexivity.
Qed.

(* an event that joins no row and is not an attach *)
Definition plain (ev : event) : Prop :=
  match ev with AttachRow _ | AddSeparator _ | AddHeaders _ => False | _ => True end.

(* an event of this table alone: the other table is not involved *)
Definition local (ev : event) : Prop :=
  match ev with OtherAttachRow _ | OtherAddError _ | OtherRowAddError _ _ => False | _ => True end.

Lemma local_taken h ev r : local ev -> taken (h ++ [ev]) r = taken h r.
Proof.
  intros H. rewrite taken_snoc. destruct ev; simpl in *; try apply orb_false_r; contradiction.
Qed.

Lemma local_other h ev : local ev -> other_expected (h ++ [ev]) = other_expected h.
Proof.
  intros H. rewrite other_snoc. destruct ev; simpl in *; try apply app_nil_r; contradiction.
Qed.

Lemma plain_joins ev r : plain ev -> joins ev r = false.
Proof. destruct ev; simpl; intros H; try reflexivity; contradiction. Qed.

Lemma plain_contribution h ev : plain ev ->
  contribution h ev = if delivered h (ev_src ev) then ev_ids ev else [].
Proof. destruct ev; simpl; intros H; try reflexivity; contradiction. Qed.

Lemma plain_joined h ev r : plain ev -> joined (h ++ [ev]) r = joined h r.
Proof. intros H. rewrite joined_snoc, plain_joins by exact H. apply orb_false_r. Qed.

(* the row part of the invariant, when the event raises nothing on row r *)
Lemma row_inv_silent h st st' ev r :
  plain ev -> local ev -> get_row st' r = get_row st r ->
  (if src_eqb (ev_src ev) (Some r) then ev_ids ev else []) = [] \/ joined h r = true \/ taken h r = true ->
  row_inv h st r -> row_inv (h ++ [ev]) st' r.
Proof.
  intros Hp Hl G Hs HR. unfold row_inv in *.
  rewrite local_taken by exact Hl. rewrite plain_joined by exact Hp. rewrite G.
  destruct (taken h r); [exact HR|]. destruct (joined h r); [exact HR|].
  destruct Hs as [Hs|[Hs|Hs]]; try discriminate.
  rewrite raised_by_snoc, Hs, app_nil_r. exact HR.
Qed.

(* the event's errors go to the end of the table's log *)
Lemma inv_deliver h st ev c' :
  Inv h st -> plain ev -> local ev -> delivered h (ev_src ev) = true ->
  holds c' (expected_errors h ++ ev_ids ev) ->
  Inv (h ++ [ev]) (set_tec st c').
Proof.
  intros (HT & HO & HR) Hp Hl Hd Hc. split; [|split].
  - simpl. rewrite expected_snoc, plain_contribution, Hd by exact Hp. exact Hc.
  - simpl. rewrite local_other by exact Hl. exact HO.
  - intros r. apply (row_inv_silent h st); try assumption; [reflexivity| |exact (HR r)].
    destruct (ev_src ev) as [r'|] eqn:S; [|left; reflexivity]. simpl in Hd. simpl.
    destruct (r' =? r) eqn:Q; [|left; reflexivity]. apply Nat.eqb_eq in Q. subst r'.
    right. left. exact Hd.
Qed.

(* the event's errors go to the private container of a row outside the table *)
Lemma inv_pending h st ev r rs c' :
  Inv h st -> plain ev -> local ev -> ev_src ev = Some r -> joined h r = false -> taken h r = false ->
  r_ec rs = ECOwn c' -> holds c' (raised_by h (Some r) ++ ev_ids ev) ->
  Inv (h ++ [ev]) (set_row st r rs).
Proof.
  intros (HT & HO & HR) Hp Hl Hs Hj Ht Hec Hc. split; [|split].
  - simpl. rewrite expected_snoc, plain_contribution, Hs by exact Hp. simpl. rewrite Hj, app_nil_r. exact HT.
  - simpl. rewrite local_other by exact Hl. exact HO.
  - intros r'. destruct (Nat.eq_dec r r') as [<-|N].
    + unfold row_inv. rewrite local_taken by exact Hl. rewrite plain_joined by exact Hp.
      rewrite raised_by_snoc, Hs, Ht, Hj, get_set_same, src_eqb_refl. right. exists c'. split; assumption.
    + apply (row_inv_silent h st); try assumption; [apply get_set_other; exact N| |exact (HR r')].
      left. rewrite Hs. rewrite src_eqb_neq by congruence. reflexivity.
Qed.

(* nothing raised, nothing changed *)
Lemma inv_noop h st ev : Inv h st -> plain ev -> local ev -> ev_ids ev = [] -> Inv (h ++ [ev]) st.
Proof.
  intros (HT & HO & HR) Hp Hl Hi. split; [|split].
  - rewrite expected_snoc, plain_contribution, Hi by exact Hp.
    destruct (delivered h (ev_src ev)); rewrite app_nil_r; exact HT.
  - rewrite local_other by exact Hl. exact HO.
  - intros r. apply (row_inv_silent h st); try assumption; [reflexivity| |exact (HR r)].
    left. rewrite Hi. destruct (src_eqb (ev_src ev) (Some r)); reflexivity.
Qed.

(* t.AddError / a taker that is the table's container *)
Lemma table_add_error_inv h st ev e :
  Inv h st -> plain ev -> local ev -> delivered h (ev_src ev) = true -> ev_ids ev = non_nil [e] ->
  Inv (h ++ [ev]) (table_add_error st e).
Proof.
  intros HI Hp Hl Hd Hi. unfold table_add_error. apply inv_deliver; try assumption.
  rewrite Hi. apply holds_add. exact (proj1 HI).
Qed.

(* Row.AddError: the table's log for a row inside the table, the row's own
   container (made on demand) otherwise *)
Lemma row_add_error_inv h st ev r e :
  Inv h st -> plain ev -> local ev -> ev_src ev = Some r -> taken h r = false -> ev_ids ev = non_nil [e] ->
  Inv (h ++ [ev]) (row_add_error st r e).
Proof.
  intros HI Hp Hl Hs Ht Hi. pose proof (proj2 (proj2 HI) r) as HR. unfold row_inv in HR. rewrite Ht in HR.
  unfold row_add_error, rowec_add_error.
  destruct (joined h r) eqn:J.
  - rewrite HR. rewrite HR. apply table_add_error_inv; try assumption. rewrite Hs. exact J.
  - destruct HR as [[E R0]|(c & E & Hc)]; rewrite E.
    + rewrite get_set_same. cbn [r_ec with_ec].
      replace (set_row (set_row st r (with_ec (get_row st r) (ECOwn (create MNew)))) r
                 (with_ec (with_ec (get_row st r) (ECOwn (create MNew))) (ECOwn (add_error (create MNew) e))))
        with (set_row (set_row st r (with_ec (get_row st r) (ECOwn (create MNew)))) r
                 (mkRow (ECOwn (add_error (create MNew) e)) (r_in_table (get_row st r)) (r_sep (get_row st r))))
        by reflexivity.
      assert (HI1 : Inv h (set_row st r (with_ec (get_row st r) (ECOwn (create MNew))))).
      { destruct HI as (HT & HO & HRs). split; [exact HT|]. split; [exact HO|]. intros r'. unfold row_inv.
        destruct (Nat.eq_dec r r') as [<-|N].
        - rewrite Ht, J, get_set_same. right. exists (create MNew). split; [reflexivity|]. rewrite R0. exact holds_new.
        - rewrite get_set_other by exact N. exact (HRs r'). }
      eapply inv_pending; try eassumption; [reflexivity|].
      rewrite R0, Hi. apply (holds_add _ []). exact holds_new.
    + rewrite E. eapply inv_pending; try eassumption; [reflexivity|].
      rewrite Hi. apply holds_add. exact Hc.
Qed.

(* row.ErrorContainer as a taker, for a row inside the table *)
Lemma rowec_add_error_inv h st ev r e :
  Inv h st -> plain ev -> local ev -> ev_src ev = Some r -> joined h r = true -> taken h r = false ->
  ev_ids ev = non_nil [e] ->
  Inv (h ++ [ev]) (rowec_add_error st r e).
Proof.
  intros HI Hp Hl Hs J Ht Hi. pose proof (proj2 (proj2 HI) r) as HR. unfold row_inv in HR. rewrite Ht, J in HR.
  unfold rowec_add_error. rewrite HR. apply table_add_error_inv; try assumption. rewrite Hs. exact J.
Qed.

Lemma attach_inv h st r :
  Inv h st -> joined h r = false -> taken h r = false -> Inv (h ++ [AttachRow r]) (table_add_row st r).
Proof.
  intros (HT & HO & HR) J Tk.
  assert (HT1 : exists st1, (match row_errors st r with
                            | Some l => table_add_error_list st (Some l)
                            | None => st end) = st1
                 /\ t_rows st1 = t_rows st /\ t_oec st1 = t_oec st
                 /\ holds (t_ec st1) (expected_errors h ++ raised_by h (Some r))).
  { pose proof (HR r) as Hr. unfold row_inv in Hr. rewrite Tk, J in Hr. unfold row_errors.
    destruct Hr as [[E R0]|(c & E & Hc)]; rewrite E.
    - exists st. rewrite R0, app_nil_r. repeat split; assumption.
    - rewrite (holds_errors _ _ Hc). destruct (raised_by h (Some r)) as [|x l] eqn:R.
      + exists st. rewrite app_nil_r. repeat split; assumption.
      + eexists. split; [reflexivity|]. split; [reflexivity|]. split; [reflexivity|].
        cbn [view table_add_error_list set_tec t_ec].
        replace (x :: l) with (non_nil (map Some (x :: l))) at 2 by apply non_nil_map_some.
        apply (holds_add_list _ _ (Some (map Some (x :: l)))). exact HT. }
  destruct HT1 as (st1 & E1 & Rows & Oec & H1). unfold table_add_row. rewrite E1. split; [|split].
  - simpl. rewrite expected_snoc. unfold contribution. simpl. rewrite app_nil_r. exact H1.
  - simpl. rewrite Oec. rewrite local_other by exact I. exact HO.
  - intros r'. unfold row_inv. rewrite local_taken by exact I.
    rewrite joined_snoc. simpl joins. rewrite raised_by_snoc. simpl. rewrite app_nil_r.
    destruct (Nat.eq_dec r r') as [<-|N].
    + rewrite Tk, Nat.eqb_refl, orb_true_r, get_set_same. reflexivity.
    + rewrite get_set_other by exact N.
      replace (r =? r') with false by (symmetry; apply Nat.eqb_neq; exact N). rewrite orb_false_r.
      unfold get_row. rewrite Rows. exact (HR r').
Qed.

Lemma fresh_not_taken h r : fresh h r = true -> taken h r = false.
Proof.
  unfold fresh, taken. induction h as [|ev h IH]; simpl; intros H; [reflexivity|].
  apply negb_true_iff in H. apply orb_false_iff in H as [M R].
  rewrite IH by (apply negb_true_iff; exact R). rewrite orb_false_r.
  destruct ev; simpl in *; try reflexivity; exact M.
Qed.

(* AddSeparator / AddHeaders: a row made inside the table *)
Lemma made_inv h st ev r hd :
  Inv h st -> (ev = AddSeparator r \/ ev = AddHeaders r) -> fresh h r = true -> forall rs, r_ec rs = ECTable ->
  Inv (h ++ [ev]) (mkT (t_ec st) ((r, rs) :: t_rows st) hd (t_oec st)).
Proof.
  intros (HT & HO & HR) Hev F rs Hrs.
  assert (C : contribution h ev = []) by (destruct Hev; subst; reflexivity).
  assert (Jn : forall r', joins ev r' = (r =? r')) by (destruct Hev; subst; reflexivity).
  assert (S : ev_src ev = None /\ ev_ids ev = []) by (destruct Hev; subst; split; reflexivity).
  assert (L : local ev) by (destruct Hev; subst; exact I).
  split; [|split].
  - simpl. rewrite expected_snoc, C, app_nil_r. exact HT.
  - simpl. rewrite local_other by exact L. exact HO.
  - intros r'. unfold row_inv. rewrite local_taken by exact L. rewrite joined_snoc, Jn, raised_by_snoc.
    destruct S as [S1 S2]. rewrite S1. simpl src_eqb. rewrite app_nil_r.
    unfold get_row. simpl. destruct (r =? r') eqn:Q.
    + apply Nat.eqb_eq in Q. subst r'. rewrite (fresh_not_taken h r F), orb_true_r. exact Hrs.
    + rewrite orb_false_r. exact (HR r').
Qed.

(* ---- the other table *)

Lemma holds_shown h st r : Inv h st -> taken h r = false -> row_errors st r = view (shown h r).
Proof.
  intros (HT & HO & HR) Tk. specialize (HR r). unfold row_inv in HR. rewrite Tk in HR.
  unfold row_errors, shown. destruct (joined h r).
  - rewrite HR. apply holds_errors. exact HT.
  - destruct HR as [[E R0]|(c & E & Hc)]; rewrite E.
    + rewrite R0. reflexivity.
    + apply holds_errors. exact Hc.
Qed.

(* u.AddRow(r): the other table gets what the row shows; this table's
   container and every other row are as they were *)
Lemma other_attach_inv h st r :
  Inv h st -> taken h r = false -> Inv (h ++ [OtherAttachRow r]) (other_add_row st r).
Proof.
  intros HI Tk. pose proof (holds_shown h st r HI Tk) as Hs. destruct HI as (HT & HO & HR).
  assert (H1 : exists st1, (match row_errors st r with
                            | Some l => set_oec st (add_error_list (t_oec st) (Some l))
                            | None => st end) = st1
                 /\ t_rows st1 = t_rows st /\ t_ec st1 = t_ec st
                 /\ holds (t_oec st1) (other_expected h ++ shown h r)).
  { rewrite Hs. destruct (shown h r) as [|x l] eqn:R.
    - exists st. rewrite app_nil_r. repeat split; assumption.
    - eexists. split; [reflexivity|]. split; [reflexivity|]. split; [reflexivity|].
      cbn [view set_oec t_oec].
      replace (x :: l) with (non_nil (map Some (x :: l))) at 2 by apply non_nil_map_some.
      apply (holds_add_list _ _ (Some (map Some (x :: l)))). exact HO. }
  destruct H1 as (st1 & E1 & Rows & Tec & H1). unfold other_add_row. rewrite E1. split; [|split].
  - simpl. rewrite Tec, expected_snoc. simpl. rewrite app_nil_r. exact HT.
  - simpl. rewrite other_snoc. exact H1.
  - intros r'. unfold row_inv. rewrite taken_snoc. simpl takes.
    rewrite joined_snoc. simpl joins. rewrite raised_by_snoc. simpl. rewrite app_nil_r, orb_false_r.
    destruct (Nat.eq_dec r r') as [<-|N].
    + rewrite Nat.eqb_refl, orb_true_r, get_set_same. reflexivity.
    + rewrite get_set_other by exact N.
      replace (r =? r') with false by (symmetry; apply Nat.eqb_neq; exact N). rewrite orb_false_r.
      unfold get_row. rewrite Rows. exact (HR r').
Qed.

(* an error that goes to the other table's container: nothing of this table moves *)
Lemma other_add_error_inv h st ev e :
  Inv h st -> plain ev -> ev_src ev = None -> ev_ids ev = [] -> (forall r, takes ev r = false) ->
  other_contribution h ev = non_nil [e] ->
  Inv (h ++ [ev]) (other_add_error st e).
Proof.
  intros (HT & HO & HR) Hp Hs Hi Hk Hc. split; [|split].
  - simpl. rewrite expected_snoc, plain_contribution, Hi by exact Hp.
    destruct (delivered h (ev_src ev)); rewrite app_nil_r; exact HT.
  - simpl. rewrite other_snoc, Hc. apply holds_add. exact HO.
  - intros r. specialize (HR r). unfold row_inv in *. rewrite taken_snoc, Hk, orb_false_r.
    rewrite plain_joined by exact Hp. rewrite raised_by_snoc, Hs. simpl. rewrite app_nil_r. exact HR.
Qed.

Lemma site_taker_row_has_row s : site_taker s = TkRow -> site_has_row s = true.
Proof. destruct s; simpl; intros H; try reflexivity; discriminate. Qed.

Lemma site_taker_rowec s : site_taker s = TkRowEC -> site_has_row s = true /\ site_detached_ok s = false.
Proof. destruct s; simpl; intros H; try discriminate; split; reflexivity. Qed.

Lemma site_taker_table s : site_taker s = TkTable -> site_has_row s = false \/ site_detached_ok s = false.
Proof. destruct s; simpl; intros H; try discriminate; auto. Qed.

(* the spec's reading of the call sites and the model's agree *)
Lemma site_via_row_taker s : site_via_row s = negb (match site_taker s with TkTable => true | _ => false end).
Proof. destruct s; reflexivity. Qed.

Lemma step_inv h st ev : Inv h st -> wf_event h ev = true -> Inv (h ++ [ev]) (step st ev).
Proof.
  intros HI W. destruct ev as [r e|e|es|r|r|r|r e|s r e|r|e|r e]; cbn [step].
  - simpl in W. apply negb_true_iff in W.
    apply row_add_error_inv; try assumption; try exact I; try reflexivity; try (destruct e; reflexivity).
  - apply table_add_error_inv; try assumption; try exact I; try reflexivity; try (destruct e; reflexivity).
  - unfold table_add_error_list. apply inv_deliver; try assumption; try exact I; try reflexivity.
    replace (ev_ids (TableAddErrorList es)) with (non_nil (match es with None => [] | Some x => x end))
      by (destruct es; reflexivity).
    apply holds_add_list. exact (proj1 HI).
  - simpl in W. apply andb_true_iff in W as [W1 W2]. apply negb_true_iff in W1, W2.
    apply attach_inv; assumption.
  - unfold add_separator, set_row. eapply made_inv; [assumption | left; reflexivity | exact W | reflexivity].
  - unfold add_headers, set_hdr, set_row. cbn [t_ec t_rows t_oec].
    eapply made_inv; [assumption | right; reflexivity | exact W | reflexivity].
  - simpl in W. apply andb_true_iff in W as [W1 W2]. apply negb_true_iff in W2.
    unfold row_add_misuse. apply row_add_error_inv; try assumption; try exact I; reflexivity.
  - unfold invoke_fail. destruct e as [x|].
    + simpl in W. apply andb_true_iff in W as [W W']. apply negb_true_iff in W'.
      rewrite site_via_row_taker in W'. destruct (site_taker s) eqn:T.
      * simpl in W'. rewrite andb_true_r in W'.
        apply row_add_error_inv; try assumption; try exact I; [|reflexivity].
        simpl. rewrite (site_taker_row_has_row s T). reflexivity.
      * simpl in W'. rewrite andb_true_r in W'.
        destruct (site_taker_rowec s T) as [Hh Hd]. rewrite Hd in W. simpl in W.
        apply rowec_add_error_inv; try assumption; try exact I; [|reflexivity].
        simpl. rewrite Hh. reflexivity.
      * apply table_add_error_inv; try assumption; try exact I; [|reflexivity].
        simpl ev_src. destruct (site_has_row s) eqn:Hh; [|reflexivity].
        destruct (site_taker_table s T) as [Q|Q]; [congruence|]. rewrite Q in W. exact W.
    + apply inv_noop; [assumption | exact I | exact I | reflexivity].
  - simpl in W. apply negb_true_iff in W. apply other_attach_inv; assumption.
  - apply other_add_error_inv; try assumption; try exact I; try reflexivity; try (destruct e; reflexivity).
  - simpl in W. pose proof (proj2 (proj2 HI) r) as HR. unfold row_inv in HR. rewrite W in HR.
    unfold row_add_error, rowec_add_error. rewrite HR. rewrite HR.
    apply other_add_error_inv; try assumption; try exact I; try reflexivity; try (destruct e; reflexivity).
Qed.

Lemma run_snoc h ev : run (h ++ [ev]) = step (run h) ev.
Proof. unfold run, run_from. rewrite fold_left_app. reflexivity. Qed.

Lemma run_inv h : wf_hist h -> Inv h (run h).
Proof.
  induction h as [|ev h IH] using rev_ind; intros W.
  - exact inv_init.
  - unfold wf_hist in W. rewrite wf_snoc in W. apply andb_true_iff in W as [W1 W2].
    rewrite run_snoc. apply step_inv; [apply IH; exact W1 | exact W2].
Qed.

(* ---- the refinement *)

Theorem table_log : forall h, wf_hist h -> table_errors (run h) = view (expected_errors h).
Proof. intros h W. unfold table_errors. apply holds_errors. exact (proj1 (run_inv h W)). Qed.

(* the other table's log *)
Theorem other_log : forall h, wf_hist h -> other_errors (run h) = view (other_expected h).
Proof. intros h W. unfold other_errors. apply holds_errors. exact (proj1 (proj2 (run_inv h W))). Qed.

(* the log a row itself shows: the table's once it belongs to the table, its
   own pending errors before, the other table's once that one has taken it *)
Theorem row_log : forall h r, wf_hist h -> row_errors (run h) r = view (expected_row h r).
Proof.
  intros h r W. pose proof (run_inv h W) as HI. unfold expected_row.
  destruct (taken h r) eqn:Tk.
  - destruct HI as (HT & HO & HR). specialize (HR r). unfold row_inv in HR. rewrite Tk in HR.
    unfold row_errors. rewrite HR. apply holds_errors. exact HO.
  - apply holds_shown; assumption.
Qed.

(* Another table taking a row - one still outside this table, or one of its
   own rows - is no event of this table: whatever came before and whatever
   comes after, the log is the one of the history without it. *)
Lemma wf_prefix h1 h2 : wf_hist (h1 ++ h2) -> wf_hist h1.
Proof.
  revert h1. induction h2 as [|ev h2 IH] using rev_ind; intros h1 W.
  - rewrite app_nil_r in W. exact W.
  - rewrite app_assoc in W. unfold wf_hist in W. rewrite wf_snoc in W.
    apply andb_true_iff in W as [W _]. apply IH. exact W.
Qed.

Theorem take_keeps_log : forall h r, wf_hist (h ++ [OtherAttachRow r]) ->
  table_errors (run (h ++ [OtherAttachRow r])) = table_errors (run h).
Proof.
  intros h r W. rewrite (table_log _ W), (table_log h (wf_prefix _ _ W)).
  rewrite expected_snoc. simpl. rewrite app_nil_r. reflexivity.
Qed.
