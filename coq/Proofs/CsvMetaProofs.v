From Tab Require Import Model.Csv Model.CsvMeta Spec.CsvParse Proofs.CsvProofs.

Lemma mt_run_tops_gen h t : mt_tops (fold_left mt_step h t) = mt_tops t ++ m_tops h.
Proof.
  revert t. induction h as [|o h IH]; intros t; cbn [fold_left m_tops flat_map].
  - rewrite app_nil_r. reflexivity.
  - rewrite IH. destruct o as [x|n s|w k v|s]; cbn [mt_step mt_tops app].
    + rewrite <- app_assoc. reflexivity.
    + destruct (n <=? hist_ncols (mt_tops t)); reflexivity.
    + reflexivity.
    + reflexivity.
Qed.

Lemma mt_run_tops h : mt_tops (mt_run h) = m_tops h.
Proof. unfold mt_run. rewrite mt_run_tops_gen. reflexivity. Qed.

(* a Name given to a column that exists is there to be read (so the calls are not no-ops) *)
Lemma mt_name_set h n s : n <= hist_ncols (m_tops h) -> mt_name (mt_run (h ++ [MColName n s])) n = s.
Proof.
  intros Hn. unfold mt_run. rewrite fold_left_app. cbn [fold_left mt_step].
  fold (mt_run h). rewrite mt_run_tops. destruct (n <=? hist_ncols (m_tops h)) eqn:E; [|apply Nat.leb_gt in E; lia].
  unfold mt_name. cbn [mt_names assoc]. rewrite Nat.eqb_refl. reflexivity.
Qed.

Section Render.
  Variable W : list N -> nat.
  Variable e : env.
  Variable json : item -> option (list N).

  Theorem csv_meta_history h out :
    twf_hist (m_tops h) -> csv_render_mt W e json (mt_run h) = Ok out ->
    parse_csv out = Some (map (pad_to (hist_ncols (m_tops h))) (map (map (documented_text e)) (hist_records (m_tops h))))
    /\ Forall (fun r => length r = hist_ncols (m_tops h))
              (map (pad_to (hist_ncols (m_tops h))) (map (map (documented_text e)) (hist_records (m_tops h)))).
  Proof.
    unfold csv_render_mt. rewrite mt_run_tops. apply csv_history.
  Qed.

  Theorem csv_meta_succeeds h :
    twf_hist (m_tops h) -> 1 <= hist_ncols (m_tops h) -> exists out, csv_render_mt W e json (mt_run h) = Ok out.
  Proof. unfold csv_render_mt. rewrite mt_run_tops. apply csv_history_succeeds. Qed.

  (* two histories with the same building calls render the same, whatever
     names, properties and errors either of them put on the table *)
  Theorem csv_meta_not_content h1 h2 :
    m_tops h1 = m_tops h2 -> csv_render_mt W e json (mt_run h1) = csv_render_mt W e json (mt_run h2).
  Proof. unfold csv_render_mt. rewrite !mt_run_tops. intros ->. reflexivity. Qed.
End Render.
