(* Histories with nested building calls (Spec/HistorySegs.v, Model/CoreSegs.v):
   the dumps taken after every segment are the expected ones, and Row.Add on
   the header row - current or replaced - is a history of AddHeaders calls. *)
From Tab Require Import Base.Ops Model.Core Model.CoreSegs Spec.History Spec.HistorySegs
  Proofs.CoreInv Proofs.CoreSim Proofs.CoreObs.

Lemma run_app {A} (h1 h2 : list (op A)) : fold_left step h2 (run h1) = run (h1 ++ h2).
Proof. unfold run. rewrite fold_left_app. reflexivity. Qed.

Lemma spec_run_app {A} (h1 h2 : list (op A)) : fold_left sp_step h2 (spec_run h1) = spec_run (h1 ++ h2).
Proof. unfold spec_run. rewrite fold_left_app. reflexivity. Qed.

Lemma trace_segs_run : forall (ns : list nat) (h2 h1 : list (op N)), wf_hist (h1 ++ h2) ->
  trace_segs (run h1) h2 ns = spec_trace_segs (spec_run h1) h2 ns.
Proof.
  induction ns as [|n ns IH]; intros h2 h1 W; [reflexivity|].
  cbn [trace_segs spec_trace_segs]. cbv zeta.
  rewrite run_app, spec_run_app.
  assert (W' : wf_hist ((h1 ++ firstn n h2) ++ skipn n h2)).
  { rewrite <- app_assoc, firstn_skipn. exact W. }
  rewrite (observe_expected _ (wf_prefix _ _ W')). f_equal. apply IH, W'.
Qed.

Theorem model_dump_segs_expected : forall (h : list (op N)) (ns : list nat), wf_hist h ->
  model_dump_segs h ns = spec_dump_segs h ns.
Proof. intros h ns W. unfold model_dump_segs, spec_dump_segs. f_equal. apply (trace_segs_run ns h [] W). Qed.

(* with one segment per op, the segmented dump is the dump after every op *)
Lemma trace_segs_ones : forall (h : list (op N)) st, trace_segs st h (repeat 1 (length h)) = trace_from st h.
Proof.
  induction h as [|o h IH]; intros st; [reflexivity|].
  cbn [length repeat trace_segs trace_from firstn skipn fold_left]. cbv zeta. rewrite IH. reflexivity.
Qed.

Theorem model_dump_segs_ones : forall h : list (op N), model_dump_segs h (repeat 1 (length h)) = model_dump h.
Proof. intros h. unfold model_dump_segs, model_dump. rewrite trace_segs_ones. reflexivity. Qed.

Section HeaderRow.
Context {A : Type}.

(* refilling a row with the items of numbered cells rebuilds those cells *)
Lemma refill_numbered : forall (cs pre : list (cell A)), numbered (pre ++ cs) ->
  fold_left row_add_cell (map c_item cs) pre = pre ++ cs.
Proof.
  induction cs as [|c cs IH]; intros pre H; cbn [map fold_left]; [rewrite app_nil_r; reflexivity|].
  assert (E : row_add_cell pre (c_item c) = pre ++ [c]).
  { unfold row_add_cell. f_equal. f_equal.
    specialize (H (length pre) c). rewrite nth_error_app2, Nat.sub_diag in H by lia.
    specialize (H eq_refl). destruct c as [it col]. cbn [c_item c_col] in *. rewrite H. reflexivity. }
  rewrite E, IH; rewrite <- app_assoc; [reflexivity | exact H].
Qed.

Lemma refill_add (cs : list (cell A)) x : numbered cs ->
  fold_left row_add_cell (map c_item cs ++ [x]) [] = row_add_cell cs x.
Proof.
  intros H. rewrite fold_left_app, (refill_numbered cs [] H). reflexivity.
Qed.

Lemma header_le_ncols hs (st : state A) cs : Inv hs st -> t_header st = Some cs -> length cs <= t_ncols st.
Proof.
  intros I E. pose proof (inv_header _ _ I) as Hh. rewrite E in Hh. destruct Hh as [_ Hin].
  rewrite (inv_ncols _ _ I), list_max_app.
  pose proof (list_max_ge hs _ Hin). lia.
Qed.

Lemma header_add_as_headers hs (st : state A) cs x : Inv hs st -> t_header st = Some cs ->
  header_add st x = add_headers st (map c_item cs ++ [x]).
Proof.
  intros I E. pose proof (inv_header _ _ I) as Hh. rewrite E in Hh. destruct Hh as [Hn _].
  unfold header_add, add_headers. rewrite E. cbv zeta.
  rewrite (refill_add cs x Hn).
  rewrite !resize_eq; cbn [with_header t_cols t_ncols]; try apply (inv_cols _ _ I).
  unfold with_header. cbn [t_rows t_ncols t_cols t_header t_handles t_panic].
  unfold row_add_cell. rewrite !app_length, map_length. reflexivity.
Qed.

Lemma stale_header_add_as_headers hs (st : state A) cs ys n : Inv hs st -> t_header st = Some cs ->
  length ys = S n ->
  stale_header_add st n = add_headers (add_headers st ys) (map c_item cs).
Proof.
  intros I E L. pose proof (inv_header _ _ I) as Hh. rewrite E in Hh. destruct Hh as [Hn _].
  pose proof (header_le_ncols _ _ _ I E) as Hle.
  unfold stale_header_add, add_headers.
  rewrite (resize_eq st) by apply (inv_cols _ _ I).
  rewrite (resize_eq st) by apply (inv_cols _ _ I).
  rewrite resize_eq by reflexivity.
  unfold with_header. cbn [t_rows t_ncols t_cols t_header t_handles t_panic].
  rewrite (refill_numbered cs [] Hn), map_length, L. cbn [app].
  rewrite (Nat.max_l _ (length cs)) by lia. rewrite E. reflexivity.
Qed.

Theorem core_header_row_add : forall (h : list (op A)) cs x, wf_hist h -> t_header (run h) = Some cs ->
  header_add (run h) x = run (h ++ [AddHeaders (map c_item cs ++ [x])]).
Proof. intros h cs x W E. rewrite run_snoc. apply (header_add_as_headers _ _ _ _ (run_inv h W) E). Qed.

Theorem core_stale_header_row_add : forall (h : list (op A)) cs ys n, wf_hist h -> t_header (run h) = Some cs ->
  length ys = S n ->
  stale_header_add (run h) n = run (h ++ [AddHeaders ys; AddHeaders (map c_item cs)]).
Proof.
  intros h cs ys n W E L.
  replace (h ++ [AddHeaders ys; AddHeaders (map c_item cs)]) with ((h ++ [AddHeaders ys]) ++ [AddHeaders (map c_item cs)])
    by (rewrite <- app_assoc; reflexivity).
  rewrite !run_snoc. apply (stale_header_add_as_headers _ _ _ _ _ (run_inv h W) E L).
Qed.

(* AddHeaders is a call every program can make: the histories above are in
   the domain of every theorem of Props/C02.v *)
Lemma wf_add_headers : forall (h : list (op A)) xs, wf_hist h -> wf_hist (h ++ [AddHeaders xs]).
Proof. intros h xs W. constructor; [exact W | reflexivity]. Qed.

End HeaderRow.
