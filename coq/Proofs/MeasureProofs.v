(* The measuring pass with a line measure that may panic (Model/Measure.v):
   it panics exactly on the cells one of whose lines is outside the measure's
   domain, and otherwise is Model/Text.v's pass with the total measure. *)
From Tab Require Import Model.Measure Spec.TextLayout Proofs.TextBase Proofs.TextMeasure
                        Proofs.TextAnyDec Proofs.LengthProofs.

Local Open Scope nat_scope.

Lemma text_writes_body W d v :
  text_render_writes W d v
  = if is_empty_decoration d then Err else
    bind (measure_opt W (v_header v)) (fun headers =>
    bind (mapM (measure_opt W) (v_rows v)) (fun rows => text_body d v headers rows)).
Proof. reflexivity. Qed.

Lemma mapM_ext_in {A B} (f g : A -> res B) l :
  (forall x, In x l -> f x = g x) -> mapM f l = mapM g l.
Proof.
  induction l as [|x r IH]; intros H; [reflexivity|]. cbn [mapM].
  rewrite (H x (or_introl eq_refl)), IH; [reflexivity|]. intros y Hy. apply H. right. exact Hy.
Qed.

Lemma mapM_panic {A B} (f : A -> res B) l :
  (forall x, In x l -> f x <> Err) -> Exists (fun x => f x = Panic) l -> mapM f l = Panic.
Proof.
  induction l as [|x r IH]; intros Hne Hex; [inversion Hex|]. cbn [mapM].
  destruct (f x) as [y| |] eqn:E.
  - cbn [bind]. rewrite IH; [reflexivity | | ].
    + intros z Hz. apply Hne. right. exact Hz.
    + inversion Hex; subst; [congruence | assumption].
  - exfalso. apply (Hne x (or_introl eq_refl)). exact E.
  - reflexivity.
Qed.

Section WithWr.
  Variable Wr : bytes -> option nat.

  Definition line_measured (l : bytes) : Prop := Wr l <> None.
  Definition cell_measured (c : vcell) : Prop := Forall line_measured (cell_lines c).
  Definition cell_unmeasured (c : vcell) : Prop := Exists (fun l => Wr l = None) (cell_lines c).

  Lemma cell_measured_dec c : cell_measured c \/ cell_unmeasured c.
  Proof.
    unfold cell_measured, cell_unmeasured, line_measured.
    induction (cell_lines c) as [|l r IH]; [left; constructor|].
    destruct (Wr l) eqn:E.
    - destruct IH as [IH|IH]; [left; constructor; [congruence | exact IH] | right; apply Exists_cons_tl; exact IH].
    - right. apply Exists_cons_hd. exact E.
  Qed.

  Lemma measured_not_unmeasured c : cell_measured c -> ~ cell_unmeasured c.
  Proof.
    unfold cell_measured, cell_unmeasured. intros Hf Hex. apply Exists_exists in Hex as (l & Hin & E).
    rewrite Forall_forall in Hf. exact (Hf l Hin E).
  Qed.

  Lemma fill_lines_r_agree ls : Forall line_measured ls -> forall i arr,
    fill_lines_r Wr i ls arr = fill_lines (total_of Wr) i ls arr.
  Proof.
    induction 1 as [|l r Hl _ IH]; intros i arr; [reflexivity|].
    cbn [fill_lines_r fill_lines]. unfold measure_line, total_of, line_measured in *.
    destruct (Wr l) as [w|]; [|congruence]. cbn [bind].
    destruct (upd arr i _); cbn [bind]; [apply IH | reflexivity | reflexivity].
  Qed.

  Lemma upd_ok_length {A} (arr : list A) i x : i < length arr ->
    exists arr', upd arr i x = Ok arr' /\ length arr' = length arr.
  Proof.
    intros H. unfold upd. apply Nat.ltb_lt in H as Hb. rewrite Hb. eexists. split; [reflexivity|].
    rewrite app_length. cbn [length]. rewrite firstn_length, skipn_length. lia.
  Qed.

  Lemma fill_lines_r_panic ls : Exists (fun l => Wr l = None) ls -> forall i arr,
    i + length ls <= length arr -> fill_lines_r Wr i ls arr = Panic.
  Proof.
    induction ls as [|l r IH]; intros Hex i arr Hlen; [inversion Hex|].
    cbn [fill_lines_r]. unfold measure_line. destruct (Wr l) as [w|] eqn:E; [|reflexivity].
    cbn [bind]. cbn [length] in Hlen.
    destruct (upd_ok_length arr i (mkWS l (Z.of_nat w))) as (arr' & -> & Hl'); [lia|].
    cbn [bind]. apply IH; [inversion Hex; subst; [congruence | assumption] | lia].
  Qed.

  (* the callback on one cell *)
  Lemma setter_r_agree c : cell_measured c ->
    dimension_setter_r Wr c = dimension_setter (total_of Wr) c.
  Proof.
    intros H. unfold dimension_setter_r, dimension_setter. rewrite lines_cell_lines. cbn [bind].
    destruct (_ <? 0)%Z; [reflexivity|]. rewrite (fill_lines_r_agree _ H). reflexivity.
  Qed.

  Lemma setter_r_panic c : cell_unmeasured c -> dimension_setter_r Wr c = Panic.
  Proof.
    intros H. unfold dimension_setter_r. rewrite lines_cell_lines. cbn [bind].
    set (ls := cell_lines c) in *.
    set (nl := if (vc_h c <? Zlen ls)%Z then Zlen ls else vc_h c).
    assert (Hnl : (Zlen ls <= nl)%Z).
    { unfold nl. destruct (Z.ltb_spec (vc_h c) (Zlen ls)); lia. }
    assert (H0 : (nl <? 0)%Z = false) by (apply Z.ltb_ge; unfold Zlen in *; lia).
    rewrite H0. rewrite fill_lines_r_panic; [reflexivity | exact H |].
    rewrite repeat_length. unfold Zlen in Hnl. lia.
  Qed.

  Definition sized (c : vcell) : Prop := (0 <= vc_tw c)%Z /\ (0 <= vc_h c)%Z.

  Lemma setter_r_cases c : sized c ->
    (cell_measured c /\ dimension_setter_r Wr c = Ok (mcell_of (total_of Wr) c))
    \/ (cell_unmeasured c /\ dimension_setter_r Wr c = Panic).
  Proof.
    intros [Htw Hh]. destruct (cell_measured_dec c) as [H|H].
    - left. split; [exact H|]. rewrite (setter_r_agree c H). apply dimension_setter_ok; assumption.
    - right. split; [exact H | apply setter_r_panic; exact H].
  Qed.

  Theorem setter_r_panics_iff c : sized c ->
    (dimension_setter_r Wr c = Panic <-> cell_unmeasured c).
  Proof.
    intros Hs. split; [|apply setter_r_panic].
    intros E. destruct (setter_r_cases c Hs) as [[_ E']|[H _]]; [congruence | exact H].
  Qed.

  Lemma setter_r_no_err c : sized c -> dimension_setter_r Wr c <> Err.
  Proof. intros Hs. destruct (setter_r_cases c Hs) as [[_ E]|[_ E]]; rewrite E; discriminate. Qed.

  (* one row *)
  Lemma measure_opt_r_agree r :
    (forall cs, r = Some cs -> Forall cell_measured cs) ->
    measure_opt_r Wr r = measure_opt (total_of Wr) r.
  Proof.
    destruct r as [cs|]; intros H; [|reflexivity]. cbn [measure_opt_r measure_opt].
    unfold measure_row_r, measure_row. rewrite (mapM_ext_in (dimension_setter_r Wr) (dimension_setter (total_of Wr))); [reflexivity|].
    intros c Hc. apply setter_r_agree. specialize (H cs eq_refl). rewrite Forall_forall in H. apply H. exact Hc.
  Qed.

  Lemma measure_opt_r_panic cs : Forall sized cs -> Exists cell_unmeasured cs ->
    measure_opt_r Wr (Some cs) = Panic.
  Proof.
    intros Hs Hex. cbn [measure_opt_r]. unfold measure_row_r. rewrite mapM_panic; [reflexivity | |].
    - intros c Hc. apply setter_r_no_err. rewrite Forall_forall in Hs. apply Hs. exact Hc.
    - apply Exists_exists in Hex as (c & Hc & Hu). apply Exists_exists. exists c. split; [exact Hc|].
      apply setter_r_panic. exact Hu.
  Qed.

  Lemma measure_opt_r_no_err r : (forall cs, r = Some cs -> Forall sized cs) -> measure_opt_r Wr r <> Err.
  Proof.
    destruct r as [cs|]; intros Hs; [|discriminate]. specialize (Hs cs eq_refl).
    assert (D : Forall cell_measured cs \/ Exists cell_unmeasured cs).
    { clear Hs. induction cs as [|c r IH]; [left; constructor|].
      destruct (cell_measured_dec c) as [Hc|Hc]; [|right; apply Exists_cons_hd; exact Hc].
      destruct IH as [IH|IH]; [left; constructor; assumption | right; apply Exists_cons_tl; exact IH]. }
    destruct D as [D|D].
    - rewrite measure_opt_r_agree by (intros cs' E; inversion E; subst; exact D).
      cbn [measure_opt]. unfold measure_row.
      rewrite (mapM_ok_map _ (mcell_of (total_of Wr))); [discriminate|].
      intros c Hc. rewrite Forall_forall in Hs. destruct (Hs c Hc). apply dimension_setter_ok; assumption.
    - rewrite (measure_opt_r_panic cs Hs D). discriminate.
  Qed.
End WithWr.

(* ------------------------------------------------------------------ *)
(* the whole pass and Render()                                         *)
Section Render.
  Variable Wr : bytes -> option nat.

  Definition view_measured (v : view) : Prop := Forall (cell_measured Wr) (all_cells v).
  Definition view_unmeasured (v : view) : Prop := Exists (cell_unmeasured Wr) (all_cells v).

  Lemma in_header_all v cs c : v_header v = Some cs -> In c cs -> In c (all_cells v).
  Proof.
    intros Eh Hc. unfold all_cells. apply in_concat. exists cs. split; [|exact Hc].
    unfold all_rows. rewrite Eh. left. reflexivity.
  Qed.

  Lemma in_row_all v cs c : In (Some cs) (v_rows v) -> In c cs -> In c (all_cells v).
  Proof.
    intros Hr Hc. unfold all_cells. apply in_concat. exists cs. split; [|exact Hc].
    unfold all_rows. apply in_or_app. right. unfold body_rows. apply in_flat_map.
    exists (Some cs). split; [exact Hr | left; reflexivity].
  Qed.

  Lemma forall_cells_header (P : vcell -> Prop) v cs :
    Forall P (all_cells v) -> v_header v = Some cs -> Forall P cs.
  Proof.
    intros H Eh. rewrite Forall_forall in *. intros c Hc. apply H. eapply in_header_all; eassumption.
  Qed.

  Lemma forall_cells_row (P : vcell -> Prop) v cs :
    Forall P (all_cells v) -> In (Some cs) (v_rows v) -> Forall P cs.
  Proof.
    intros H Hr. rewrite Forall_forall in *. intros c Hc. apply H. eapply in_row_all; eassumption.
  Qed.

  (* every line of every cell inside the measure's domain: the model of
     Model/Text.v, with the total measure *)
  Theorem render_r_agree d v : view_measured v ->
    text_render_r Wr d v = text_render (total_of Wr) d v.
  Proof.
    intros Hm. unfold text_render_r, text_render, text_render_writes_r. rewrite text_writes_body.
    destruct (is_empty_decoration d); [reflexivity|].
    rewrite measure_opt_r_agree by (intros cs E; eapply forall_cells_header; eassumption).
    rewrite (mapM_ext_in (measure_opt_r Wr) (measure_opt (total_of Wr))); [reflexivity|].
    intros r Hr. apply measure_opt_r_agree. intros cs ->. eapply forall_cells_row; eassumption.
  Qed.

  (* some line of some cell outside it: Render panics, under every
     decoration that is rendered at all *)
  Theorem render_r_panic d v : Forall sized (all_cells v) -> is_empty_decoration d = false ->
    view_unmeasured v -> text_render_r Wr d v = Panic.
  Proof.
    intros Hs Hd Hex. unfold text_render_r, text_render_writes_r. rewrite Hd.
    apply Exists_exists in Hex as (c & Hc & Hu).
    unfold all_cells in Hc. apply in_concat in Hc as (cs & Hcs & Hin).
    assert (Hexc : Exists (cell_unmeasured Wr) cs) by (apply Exists_exists; eauto).
    unfold all_rows in Hcs. apply in_app_or in Hcs as [Hcs|Hcs].
    - destruct (v_header v) as [hs|] eqn:Eh; [|inversion Hcs]. destruct Hcs as [->|[]].
      rewrite measure_opt_r_panic; [reflexivity | eapply forall_cells_header; eassumption | exact Hexc].
    - destruct (measure_opt_r Wr (v_header v)) eqn:Eh; [ | | reflexivity].
      2:{ exfalso. revert Eh. apply measure_opt_r_no_err. intros hs E. eapply forall_cells_header; eassumption. }
      cbn [bind]. rewrite mapM_panic; [reflexivity| |].
      + intros r Hr. apply measure_opt_r_no_err. intros cs' ->. eapply forall_cells_row; eassumption.
      + unfold body_rows in Hcs. apply in_flat_map in Hcs as (r & Hr1 & Hr2).
        destruct r as [cs'|]; [|inversion Hr2]. destruct Hr2 as [->|[]].
        apply Exists_exists. exists (Some cs). split; [exact Hr1|].
        apply measure_opt_r_panic; [eapply forall_cells_row; eassumption | exact Hexc].
  Qed.

  Lemma view_measured_dec v : view_measured v \/ view_unmeasured v.
  Proof.
    unfold view_measured, view_unmeasured. induction (all_cells v) as [|c r IH]; [left; constructor|].
    destruct (cell_measured_dec Wr c) as [Hc|Hc]; [|right; apply Exists_cons_hd; exact Hc].
    destruct IH as [IH|IH]; [left; constructor; assumption | right; apply Exists_cons_tl; exact IH].
  Qed.

  Lemma cells_ok_sized W v : cells_ok W v -> Forall sized (all_cells v).
  Proof. unfold cells_ok. apply Forall_impl. intros c (H1 & H2 & _). split; assumption. Qed.

  (* WHEN the text renderer panics: exactly when some line of some cell is
     outside the domain of the line measure (and the decoration is not the
     refused empty one) *)
  Theorem render_r_panics_iff d v :
    length (v_align v) = S (v_ncols v) -> cells_ok (total_of Wr) v ->
    (text_render_r Wr d v = Panic <-> is_empty_decoration d = false /\ view_unmeasured v).
  Proof.
    intros Hal Hc. split.
    - intros E. destruct (is_empty_decoration d) eqn:Ed.
      + unfold text_render_r, text_render_writes_r in E. rewrite Ed in E. discriminate.
      + split; [reflexivity|]. destruct (view_measured_dec v) as [Hm|Hu]; [|exact Hu].
        rewrite (render_r_agree d v Hm) in E. exfalso.
        exact (text_no_panic_any_decoration (total_of Wr) d v Hal Hc E).
    - intros [Ed Hu]. apply render_r_panic; [eapply cells_ok_sized; exact Hc | exact Ed | exact Hu].
  Qed.
End Render.

(* ------------------------------------------------------------------ *)
(* the domain the line measure must be total on: every LF-free byte
   string, no less *)
Lemma split_lf_app_lf l r : ~ In LF l -> split_lf (l ++ LF :: r) = l :: split_lf r.
Proof.
  induction l as [|b l IH]; intros H.
  - cbn [app split_lf]. rewrite N.eqb_refl. reflexivity.
  - cbn [app split_lf]. destruct (N.eqb_spec b LF) as [->|_]; [exfalso; apply H; left; reflexivity|].
    rewrite IH by (intros Hin; apply H; right; exact Hin). reflexivity.
Qed.

Definition probe_text (l : bytes) : bytes := l ++ LF :: [120%N].
Definition probe_cell (l : bytes) : vcell := mkVCell (probe_text l) false None 0%Z 0%Z false.

Lemma probe_lines l : ~ In LF l -> cell_lines (probe_cell l) = [l; [120%N]].
Proof.
  intros H. unfold cell_lines, probe_cell, probe_text. cbn [vc_text].
  rewrite lines_of_dle, split_lf_app_lf by exact H. reflexivity.
Qed.

Theorem setter_total_iff (Wr : bytes -> option nat) :
  (forall c, sized c -> dimension_setter_r Wr c <> Panic)
  <-> (forall l, ~ In LF l -> Wr l <> None).
Proof.
  split.
  - intros H l Hl E. apply (H (probe_cell l)); [split; cbn; lia|].
    apply setter_r_panic. unfold cell_unmeasured. rewrite probe_lines by exact Hl.
    apply Exists_cons_hd. exact E.
  - intros H c Hs E. apply (setter_r_panics_iff Wr c Hs) in E.
    unfold cell_unmeasured in E. apply Exists_exists in E as (l & Hin & E).
    refine (H l _ E). pose proof (lines_no_lf (vc_text c)) as Hno. rewrite Forall_forall in Hno.
    apply Hno. exact Hin.
Qed.

Lemma total_measures_all (Wr : bytes -> option nat) v :
  (forall l, ~ In LF l -> Wr l <> None) -> view_measured Wr v.
Proof.
  intros H. unfold view_measured. apply Forall_forall. intros c _. unfold cell_measured, line_measured.
  apply Forall_forall. intros l Hin. apply H.
  pose proof (lines_no_lf (vc_text c)) as Hno. rewrite Forall_forall in Hno. apply Hno. exact Hin.
Qed.
