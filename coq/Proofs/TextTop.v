(* The refinement theorem: Render() of the modelled renderer is the flattened
   declarative layout; and populate_complete. *)
From Tab Require Import Model.Text Spec.TextLayout Proofs.TextBase Proofs.TextMeasure Proofs.TextRefine.

Local Open Scope nat_scope.

(* ------------------------------------------------------------------ *)
(* Populate fills every glyph                                          *)
Lemma ifnil_ne (t s : bytes) : s <> [] -> (if nilb t then s else t) <> [].
Proof. destruct t; simpl; congruence. Qed.

Theorem populate_complete_proof : forall d, complete (populate d).
Proof.
  intros d. unfold complete, populate, d_fields.
  cbv zeta. cbn [d_Horizontal d_Vertical d_CrossPiece d_TopDown d_VBorder d_HOuter d_HRule d_VHeader
                 d_VBodyBorder d_VBodyInner d_TopLeft d_TopRight d_BottomLeft d_BottomRight
                 d_LeftBodyRule d_RightBodyRule d_HTopDown d_BTopDown d_BBottomUp d_HBCross d_HBLeft d_HBRight].
  repeat (apply Forall_cons; [ repeat (apply dflt_ne); first [discriminate | apply ifnil_ne; discriminate] | ]).
  apply Forall_nil.
Qed.

Lemma populate_keeps_set d f :
  (* a field the caller set is never overwritten *)
  In f (combine (d_fields d) (d_fields (populate d))) -> fst f <> [] -> snd f = fst f.
Proof.
  unfold populate, d_fields. cbv zeta.
  cbn [d_Horizontal d_Vertical d_CrossPiece d_TopDown d_VBorder d_HOuter d_HRule d_VHeader
       d_VBodyBorder d_VBodyInner d_TopLeft d_TopRight d_BottomLeft d_BottomRight
       d_LeftBodyRule d_RightBodyRule d_HTopDown d_BTopDown d_BBottomUp d_HBCross d_HBLeft d_HBRight combine].
  intros H Hne. cbn [In] in H.
  repeat (destruct H as [<-|H];
          [cbn [fst snd] in *; unfold dflt; destruct (nilb _) eqn:E; [|reflexivity];
           exfalso; apply Hne; match type of E with nilb ?x = true => destruct x; [reflexivity|discriminate] end|]).
  contradiction.
Qed.

(* ------------------------------------------------------------------ *)

Lemma complete_field d f : complete d -> In f (d_fields d) -> f <> [].
Proof. unfold complete. rewrite Forall_forall. auto. Qed.

Lemma nobox_field d f : nobox d -> In f (d_fields d) -> f = [].
Proof. unfold nobox. rewrite Forall_forall. intros [H _]. auto. Qed.

Lemma dec_ok_not_empty d : dec_ok d -> is_empty_decoration d = false.
Proof.
  intros [H|[_ H]]; unfold is_empty_decoration.
  - apply andb_false_iff. left.
    pose proof (complete_field d (d_Horizontal d) H) as X.
    unfold d_fields in *. cbn [forallb].
    destruct (d_Horizontal d); [exfalso; apply X; [simpl; tauto|reflexivity]|]. reflexivity.
  - rewrite H. apply andb_false_r.
Qed.

Lemma dec_ok_div d : dec_ok d -> div3_ok (hdr_div d) /\ div3_ok (body_div d).
Proof.
  intros [H|H]; unfold hdr_div, body_div, div3_ok.
  - split; left; repeat split; apply (complete_field d _ H); unfold d_fields; simpl; tauto.
  - split; right; repeat split; apply (nobox_field d _ H); unfold d_fields; simpl; tauto.
Qed.

Section Top.
  Variable W : bytes -> nat.

  Lemma cells_ok_header v h : cells_ok W v -> v_header v = Some h -> Forall (cell_ok W) h.
  Proof.
    unfold cells_ok, all_cells, all_rows. intros H E. rewrite E in H.
    cbn [app concat] in H. apply Forall_app in H. tauto.
  Qed.

  Lemma Forall_concat_inv {A} (P : A -> Prop) ls : Forall P (concat ls) -> Forall (Forall P) ls.
  Proof.
    induction ls as [|l ls IH]; intros H; [constructor|].
    simpl in H. apply Forall_app in H as [H1 H2]. constructor; auto.
  Qed.

  Lemma cells_ok_rows v : cells_ok W v -> Forall (vrow_ok W) (v_rows v).
  Proof.
    unfold cells_ok, all_cells, all_rows. intros H.
    rewrite concat_app in H. apply Forall_app in H as [_ H].
    apply Forall_concat_inv in H. unfold body_rows in H.
    induction (v_rows v) as [|r rows IH]; [constructor|].
    destruct r as [cs|]; cbn [flat_map app] in H.
    - inversion H; subst. constructor; auto.
    - constructor; [exact I | auto].
  Qed.

  Lemma colw_unfold v i :
    colw W v i
    = Nat.max (match v_header v with Some h => cellw_at W h i | None => 0 end)
              (list_max (map (fun r => cellw_at W r i) (body_rows v))).
  Proof.
    unfold colw, all_rows. destruct (v_header v); reflexivity.
  Qed.

  (* Rows and headers may hold more cells than the table has columns (a row
     attached to two tables and extended through the other one): the layout
     and the renderer both ignore the extra cells.  All that is needed of the
     view's shape is one alignment slot per column plus column 0. *)
  Theorem text_refines_any_rows d v :
    1 <= v_ncols v -> length (v_align v) = S (v_ncols v) -> dec_ok d -> cells_ok W v ->
    text_render W d v = Ok (render_spec W d v).
  Proof.
    intros Hn Hal Hd Hc.
    pose proof (dec_ok_div d Hd) as Hdiv.
    unfold text_render, text_render_writes.
    rewrite (dec_ok_not_empty d Hd).
    (* first pass *)
    assert (Eh : measure_opt W (v_header v) = Ok (mrow_of W (v_header v))).
    { apply measure_opt_ok. destruct (v_header v) as [h|] eqn:E; [|exact I].
      simpl. eapply cells_ok_header; eauto. }
    rewrite Eh. cbn [bind].
    assert (Er : mapM (measure_opt W) (v_rows v) = Ok (map (mrow_of W) (v_rows v))).
    { apply mapM_ok_map. intros r Hr. apply measure_opt_ok.
      pose proof (cells_ok_rows v Hc) as X. rewrite Forall_forall in X. auto. }
    rewrite Er. cbn [bind].
    (* widths *)
    set (f := fun i => match v_header v with Some h => cellw_at W h i | None => 0 end).
    assert (Ecw1 : match mrow_of W (v_header v) with
                   | Some hs => header_widths (repeat 0%Z (v_ncols v)) hs
                   | None => repeat 0%Z (v_ncols v)
                   end = map Z.of_nat (map f (seq 0 (v_ncols v)))).
    { unfold f. destruct (v_header v) as [h|] eqn:E; cbn [mrow_of option_map].
      - apply header_widths_ok. eapply cells_ok_header; eauto.
      - rewrite map_map. cbn [Z.of_nat]. rewrite map_const_repeat, seq_length. reflexivity. }
    rewrite Ecw1.
    rewrite (body_widths_ok W (v_ncols v) (v_rows v) f (cells_ok_rows v Hc)).
    cbn [bind].
    assert (Ecw : map Z.of_nat
                    (map (fun i => fold_left Nat.max
                                     (map (fun r => cellw_at W r i)
                                          (flat_map (fun r => match r with Some cs => [cs] | None => [] end) (v_rows v)))
                                     (f i)) (seq 0 (v_ncols v)))
                  = cwsZ W v).
    { unfold cwsZ. f_equal. apply map_ext. intros i. rewrite fold_left_max, colw_unfold. reflexivity. }
    rewrite Ecw.
    rewrite (column_aligns_ok v Hal). cbn [bind].
    (* bottom rule and body *)
    unfold line_bottom. rewrite (template_line_ok W d v Hn).
    destruct (body_writes_ok W d v Hn Hdiv (v_rows v)) as (ws & Eb & Cb).
    rewrite Eb.
    unfold render_spec, layout, top_part.
    destruct (v_header v) as [h|] eqn:E; cbn [mrow_of option_map].
    - unfold line_header_top, line_header_body_sep.
      rewrite !(template_line_ok W d v Hn). cbn [bind].
      change (header_dividers d) with (hdr_div d).
      rewrite (rendered_block_ok W v Hn (hdr_div d) h) by apply Hdiv.
      cbn [bind]. f_equal.
      rewrite !map_app, !concat_app. cbn [concat app]. rewrite !concat_app.
      rewrite !concat_rules. cbn [concat]. rewrite Cb, !app_nil_r, <- !app_assoc. reflexivity.
    - unfold line_body_top. rewrite (template_line_ok W d v Hn). cbn [bind]. f_equal.
      rewrite !map_app, !concat_app. cbn [concat app].
      rewrite !concat_rules. rewrite Cb, !app_nil_r. reflexivity.
  Qed.

  Theorem text_refines_proof d v :
    1 <= v_ncols v -> wf_view v -> dec_ok d -> cells_ok W v ->
    text_render W d v = Ok (render_spec W d v).
  Proof.
    intros Hn (_ & _ & Hal & _) Hd Hc. apply text_refines_any_rows; assumption.
  Qed.

  (* the list of writes: Render() is their concatenation *)
  Lemma text_render_is_writes d v ws :
    text_render_writes W d v = Ok ws -> text_render W d v = Ok (concat ws).
  Proof. intros H. unfold text_render. rewrite H. reflexivity. Qed.
End Top.
