(* The render pass (Model/TextPass.v): alignment writes made by render-time
   callbacks are part of the history by the time the renderer reads the
   alignments; the output of the pass is the layout under the alignments in
   force AFTER the callbacks. *)
From Tab Require Import Base.Ops Model.Core Model.Cell Model.Table Spec.History Spec.TableHist Spec.CellText
     Proofs.TableProofs Proofs.E2EProofs Proofs.E2EText.
From Tab Require Import Model.Text Model.Decoration Spec.TextLayout Proofs.TextTop Proofs.TextProps Model.TextPass.

Lemma cb_ops_app ws1 ws2 : cb_ops (ws1 ++ ws2) = cb_ops ws1 ++ cb_ops ws2.
Proof. apply map_app. Qed.

Lemma core_ops_cb ws : core_ops (cb_ops ws) = [].
Proof. induction ws as [|w ws IH]; [reflexivity | exact IH]. Qed.

Lemma core_ops_pass h ws : core_ops (h ++ cb_ops ws) = core_ops h.
Proof. rewrite core_ops_app, core_ops_cb, app_nil_r. reflexivity. Qed.

(* callbacks' property writes keep a well-formed history well formed ... *)
Lemma twf_pass h ws : twf_hist h -> twf_hist (h ++ cb_ops ws).
Proof. unfold twf_hist. rewrite core_ops_pass. exact (fun H => H). Qed.

(* ... and change neither the column count nor any row *)
Lemma hist_ncols_pass h ws : hist_ncols (h ++ cb_ops ws) = hist_ncols h.
Proof. unfold hist_ncols. rewrite !tspec_core, core_ops_pass. reflexivity. Qed.

Lemma hist_header_pass h ws : hist_header (h ++ cb_ops ws) = hist_header h.
Proof. unfold hist_header. rewrite !tspec_core, core_ops_pass. reflexivity. Qed.

Lemma hist_rows_pass h ws : hist_rows (h ++ cb_ops ws) = hist_rows h.
Proof. unfold hist_rows. rewrite !tspec_core, core_ops_pass. reflexivity. Qed.

Lemma trun_pass h ws : trun (h ++ cb_ops ws) = invoke_render_callbacks (trun h) ws.
Proof. unfold trun, invoke_render_callbacks. apply fold_left_app. Qed.

Lemma last_write_snoc ws k a n :
  last_write (ws ++ [(k, a)]) n = if n =? k then Some a else last_write ws n.
Proof. unfold last_write. rewrite rev_app_distr. reflexivity. Qed.

(* the latest setting of column n after the pass: the callbacks' last write to
   it, else what the history before the pass had set *)
Definition pass_align (h : list top) (ws : list cbwrite) (n : nat) : option align :=
  match last_write ws n with Some a => a | None => hist_align h n end.

Lemma hist_align_pass h ws : forall n, n <= hist_ncols h ->
  hist_align (h ++ cb_ops ws) n = pass_align h ws n.
Proof.
  induction ws as [|[k a] ws IH] using rev_ind; intros n Hn.
  - unfold pass_align, last_write. cbn [cb_ops map rev assoc]. rewrite app_nil_r. reflexivity.
  - unfold pass_align. rewrite last_write_snoc, cb_ops_app, app_assoc.
    cbn [cb_ops map fst snd]. unfold hist_align. rewrite tspec_run_snoc. cbn [tspec_step].
    fold (hist_ncols (h ++ cb_ops ws)). rewrite hist_ncols_pass.
    destruct (Nat.leb_spec k (hist_ncols h)) as [Hk|Hk]; cbn [ts_align].
    + rewrite setting_cons. destruct (n =? k); [reflexivity|]. apply IH, Hn.
    + destruct (Nat.eqb_spec n k); [lia|]. apply IH, Hn.
Qed.

Section Pass.
  Variable W : bytes -> nat.
  Variable e : env.
  Variable json : item -> option bytes.
  Notation f := (vcell_of_item W e json).

  (* one write, said on the table and said on the view *)
  Lemma hview_set_align h k a : twf_hist h ->
    hview W e json (h ++ [TSetAlign k a]) = view_set_align (hview W e json h) k a.
  Proof.
    intros Hw. unfold hview. rewrite trun_snoc. cbn [tstep]. unfold view_set_align.
    replace (has_column (tb_core (trun h)) k) with (k <=? t_ncols (tb_core (trun h)))
      by (rewrite trun_core; symmetry; apply has_column_wf, Hw).
    cbn [table_view v_ncols]. destruct (k <=? t_ncols (tb_core (trun h))); reflexivity.
  Qed.

  (* the view after the pass is the view before it with the writes applied in order *)
  Lemma hview_pass h ws : twf_hist h ->
    hview W e json (h ++ cb_ops ws) = after_callbacks ws (hview W e json h).
  Proof.
    intros Hw. induction ws as [|[k a] ws IH] using rev_ind.
    - cbn [cb_ops map after_callbacks fold_left]. rewrite app_nil_r. reflexivity.
    - rewrite cb_ops_app, app_assoc. cbn [cb_ops map fst snd].
      rewrite hview_set_align by (apply twf_pass, Hw). rewrite IH.
      unfold after_callbacks. rewrite fold_left_app. reflexivity.
  Qed.

  (* the pass, as the wrapper runs it, ends in the table the extended history builds ... *)
  Lemma pass_state d h ws : is_empty_decoration d = false ->
    text_render_to W d f (trun h) ws
    = (text_render W d (hview W e json (h ++ cb_ops ws)), trun (h ++ cb_ops ws)).
  Proof. intros Hd. unfold text_render_to, hview. rewrite Hd, trun_pass. reflexivity. Qed.

  (* ... and emits the flattened layout of the view AFTER the callbacks *)
  Theorem pass_refines_proof : forall d (h : list top) (ws : list cbwrite),
    twf_hist h -> 1 <= hist_ncols h -> dec_ok d ->
    fst (text_render_to W d f (trun h) ws)
    = Ok (concat (map flatten (layout W d (after_callbacks ws (hview W e json h))))).
  Proof.
    intros d h ws Hw Hn Hd. rewrite (pass_state d h ws (dec_ok_not_empty d Hd)). cbn [fst].
    rewrite <- (hview_pass h ws Hw).
    apply text_history_refines; [apply twf_pass, Hw | rewrite hist_ncols_pass; exact Hn | exact Hd].
  Qed.

  (* a refused decoration: an error, and no callback has run *)
  Theorem pass_refused_proof : forall d (st : tstate) (ws : list cbwrite),
    is_empty_decoration d = true -> text_render_to W d f st ws = (Err, st).
  Proof. intros d st ws Hd. unfold text_render_to. rewrite Hd. reflexivity. Qed.

  (* the alignment of column i in that output: the callbacks' last write to the
     column, else the history's own latest setting; failing both, the same for
     the all-columns default on column 0; else left *)
  Theorem pass_alignment_proof : forall (h : list top) (ws : list cbwrite) i,
    twf_hist h -> i < hist_ncols h ->
    eff_align (after_callbacks ws (hview W e json h)) i
    = match pass_align h ws (S i) with
      | Some a => a
      | None => match pass_align h ws 0 with Some a => a | None => ALeft end
      end.
  Proof.
    intros h ws i Hw Hi. rewrite <- (hview_pass h ws Hw).
    rewrite (text_history_alignment W e json (h ++ cb_ops ws) i (twf_pass h ws Hw))
      by (rewrite hist_ncols_pass; exact Hi).
    rewrite !hist_align_pass by lia. reflexivity.
  Qed.

  (* nothing else of the view moves: same columns, same header, same rows *)
  Theorem pass_shape_proof : forall (h : list top) (ws : list cbwrite),
    twf_hist h ->
    v_ncols (after_callbacks ws (hview W e json h)) = v_ncols (hview W e json h)
    /\ v_header (after_callbacks ws (hview W e json h)) = v_header (hview W e json h)
    /\ v_rows (after_callbacks ws (hview W e json h)) = v_rows (hview W e json h).
  Proof.
    intros h ws Hw. rewrite <- (hview_pass h ws Hw).
    pose proof (twf_pass h ws Hw) as Hw'.
    rewrite (hview_ncols W e json _ Hw'), (hview_header W e json _ Hw'), (hview_rows W e json _ Hw').
    rewrite (hview_ncols W e json _ Hw), (hview_header W e json _ Hw), (hview_rows W e json _ Hw).
    rewrite hist_ncols_pass, hist_header_pass, hist_rows_pass. repeat split.
  Qed.

  (* a pass ends in the table the history extended by the writes builds *)
  Theorem pass_is_history_proof : forall (h : list top) (ws : list cbwrite),
    twf_hist h ->
    hview W e json (h ++ cb_ops ws) = after_callbacks ws (hview W e json h)
    /\ trun (h ++ cb_ops ws) = invoke_render_callbacks (trun h) ws
    /\ twf_hist (h ++ cb_ops ws).
  Proof. intros h ws Hw. exact (conj (hview_pass h ws Hw) (conj (trun_pass h ws) (twf_pass h ws Hw))). Qed.
End Pass.
