(* C04 over items that change and cells that hold cells (Model/TextMut.v). *)
From Tab Require Import Base.Ops Model.Core Model.Cell Model.Table Model.TableMut Model.TextMut Spec.CellText
     Spec.TextLayout Proofs.CellProofs Proofs.TotalProofs Proofs.TableProofs Proofs.TextTop Proofs.TableMutProofs.

(* ------------------------------------------------------------ cells holding cells *)

Lemma new_cell_of_cell W e o :
  new_cell W e (ICell o) = mkCell (ICell o) (c_str o) (c_width o) (c_height o) (c_empty o).
Proof. reflexivity. Qed.

Lemma vcell_of_cell_item W e json o :
  vcell_of_item W e json (ICell o)
  = mkVCell (c_str o) (c_empty o) (json (ICell o)) (Cell.cell_width o) (Cell.cell_height o) true.
Proof. reflexivity. Qed.

(* a cell holding a cell holding ... x shows x: the text (hence the lines of
   its slot), emptiness, width and height of the cell made of x itself; and it
   is a TerminalCellWidther, being a Cell *)
Theorem wrapped_shows_inner : forall W e json n it,
  let c := vcell_of_item W e json (wrap_cell W e n it) in
  let c0 := vcell_of_item W e json it in
  vc_text c = documented_text e it
  /\ cell_lines c = lines_of (documented_text e it)
  /\ vc_empty c = vc_empty c0 /\ vc_tw c = vc_tw c0 /\ vc_h c = vc_h c0
  /\ (1 <= n -> vc_widther c = true).
Proof.
  intros W e json n it. cbv zeta.
  assert (G : vc_text (vcell_of_item W e json (wrap_cell W e n it)) = vc_text (vcell_of_item W e json it)
              /\ vc_empty (vcell_of_item W e json (wrap_cell W e n it)) = vc_empty (vcell_of_item W e json it)
              /\ vc_tw (vcell_of_item W e json (wrap_cell W e n it)) = vc_tw (vcell_of_item W e json it)
              /\ vc_h (vcell_of_item W e json (wrap_cell W e n it)) = vc_h (vcell_of_item W e json it)).
  { induction n as [|n IH]; [repeat split|].
    cbn [wrap_cell]. rewrite vcell_of_cell_item. cbn [vc_text vc_empty vc_tw vc_h].
    destruct IH as (I1 & I2 & I3 & I4). split; [exact I1|]. split; [exact I2|]. split; [exact I3|exact I4]. }
  destruct G as (G1 & G2 & G3 & G4).
  split; [rewrite G1; apply vcell_of_item_text|].
  split; [unfold cell_lines; rewrite G1, vcell_of_item_text; reflexivity|].
  split; [exact G2|]. split; [exact G3|]. split; [exact G4|].
  intros Hn. destruct n as [|n]; [lia|]. reflexivity.
Qed.

(* ------------------------------------------------------------ declared sizes *)

(* an object that declares a width and a height: the cell made of it has
   exactly those (clamped as Cell.TerminalCellWidth / Cell.Height clamp them),
   whatever its text is *)
Theorem declared_sizes_read : forall W e json id w h,
  m_width (e id) = Some w -> m_height (e id) = Some h ->
  let c := vcell_of_item W e json (IObj id) in
  let cw := (if w <? 0 then 0 else w)%Z in
  vc_widther c = true /\ vc_tw c = cw
  /\ vc_h c = (if h <? 1 then (if 0 <? cw then 1 else 0) else h)%Z.
Proof.
  intros W e json id w h Hw Hh. cbv zeta.
  unfold vcell_of_item. cbn [vc_widther vc_tw vc_h item_is_widther]. rewrite Hw.
  split; [reflexivity|].
  unfold new_cell, update, update_r. cbn [c_raw as_heighter as_widther]. rewrite Hw, Hh.
  unfold Cell.cell_height, Cell.cell_width. cbn [c_width c_height]. split; reflexivity.
Qed.

Theorem declared_width_read : forall W e json id w,
  m_width (e id) = Some w ->
  let c := vcell_of_item W e json (IObj id) in
  vc_widther c = true /\ vc_tw c = (if w <? 0 then 0 else w)%Z.
Proof.
  intros W e json id w Hw. cbv zeta.
  unfold vcell_of_item. cbn [vc_widther vc_tw item_is_widther]. rewrite Hw.
  split; [reflexivity|].
  unfold new_cell, update, update_r. cbn [c_raw as_heighter as_widther]. rewrite Hw.
  unfold Cell.cell_width. cbn [c_width]. reflexivity.
Qed.

(* ------------------------------------------------------------ the machine *)

Section Mut.
  Variable W : bytes -> nat.
  Variable json : item -> option bytes.

  Lemma table_view_cells_all {A} (P : vcell -> Prop) (f : A -> vcell) (t : gtstate A) :
    (forall a, P (f a)) -> Forall P (all_cells (table_view f t)).
  Proof.
    intros HP. unfold all_cells, all_rows. apply Forall_concat. apply Forall_app. split.
    - unfold table_view. cbn [v_header]. destruct (t_header (tb_core t)) as [hc|]; cbn [option_map]; [|constructor].
      constructor; [|constructor]. apply Forall_forall. intros c Hc. apply in_map_iff in Hc as (x & <- & _). apply HP.
    - unfold body_rows, table_view. cbn [v_rows]. apply Forall_forall. intros r Hr.
      apply in_flat_map in Hr as (ro & Hro & Hin). apply in_map_iff in Hro as (tr & <- & _).
      destruct (row_cells tr) as [cs|]; cbn [option_map] in Hin; [|destruct Hin].
      destruct Hin as [<-|[]]. apply Forall_forall. intros c Hc. apply in_map_iff in Hc as (x & <- & _). apply HP.
  Qed.

  Lemma tmview_cells_ok st : cells_ok W (tmview W json st).
  Proof. apply table_view_cells_all. intros s. apply vcell_of_item_cell_ok. Qed.

  (* one alignment slot per column record, whatever the program *)
  Definition aligned {A} (t : gtstate A) : Prop := length (tb_align t) = S (t_ncols (tb_core t)).

  Lemma tstep_aligned {A} (t : gtstate A) o : aligned t -> aligned (tstep t o).
  Proof.
    unfold aligned. intros H. destruct o as [c|n a|n s]; cbn [tstep].
    - cbn [tb_align tb_core]. unfold pad_none. rewrite app_length, repeat_length.
      pose proof (step_mono (tb_core t) c). lia.
    - destruct (has_column (tb_core t) n); [|exact H]. cbn [tb_align tb_core]. rewrite upd_length. exact H.
    - destruct (has_column (tb_core t) n); exact H.
  Qed.

  Lemma update_at_ncols {A} (g : A -> A) (st : Core.state A) r c : t_ncols (core_update_at g st r c) = t_ncols st.
  Proof.
    unfold core_update_at. destruct (nth_error (t_rows st) r) as [tr|]; [|reflexivity].
    destruct (r_body tr); reflexivity.
  Qed.
  Lemma update_header_ncols {A} (g : A -> A) (st : Core.state A) c : t_ncols (core_update_header g st c) = t_ncols st.
  Proof. unfold core_update_header. destruct (t_header st); reflexivity. Qed.

  Lemma mstep_aligned st o : aligned (m_tab st) -> aligned (m_tab (mstep st o)).
  Proof.
    intros H. destruct o as [t|id ob|r c|c]; cbn [mstep m_tab].
    - apply tstep_aligned, H.
    - exact H.
    - unfold aligned, on_core. cbn [tb_align tb_core]. rewrite update_at_ncols. exact H.
    - unfold aligned, on_core. cbn [tb_align tb_core]. rewrite update_header_ncols. exact H.
  Qed.

  Lemma mrun_aligned e p : aligned (m_tab (mrun e p)).
  Proof.
    unfold mrun. assert (G : forall st, aligned (m_tab st) -> aligned (m_tab (fold_left mstep p st))).
    { induction p as [|o p IH]; intros st H; [exact H|]. cbn [fold_left]. apply IH, mstep_aligned, H. }
    apply G. reflexivity.
  Qed.

  (* After ANY program of building calls, column settings, mutations of items
     and Updates - well formed or not - Render() is exactly the flattened
     declarative layout of the table in which every cell shows its item as of
     the cell's last read: text, declared width and declared height alike *)
  Theorem mut_refines : forall d e (p : list mop),
    1 <= t_ncols (tb_core (m_tab (mrun e p))) -> dec_ok d ->
    mtext_render W json d (mrun e p)
    = Ok (concat (map flatten (layout W d (tmview W json (mrun e p))))).
  Proof.
    intros d e p Hn Hd. unfold mtext_render. apply text_refines_any_rows.
    - exact Hn.
    - apply (mrun_aligned e p).
    - exact Hd.
    - apply tmview_cells_ok.
  Qed.

  (* mutating an item shows nothing - neither a new text nor a new declared
     size - until the cell is updated *)
  Theorem mutate_not_shown : forall st id ob, tmview W json (mstep st (MMutate id ob)) = tmview W json st.
  Proof. reflexivity. Qed.

  (* Update on the cell at (r, c): afterwards that cell - and only it - is the
     cell made of its item in the objects' PRESENT state, whichever of text,
     declared width and declared height changed since the last read *)
  Theorem update_rereads : forall st r c tr cs x,
    nth_error (t_rows (tb_core (m_tab st))) r = Some tr -> r_body tr = RCells cs -> nth_error cs c = Some x ->
    let v' := tmview W json (mstep st (MUpdateAt r c)) in
    exists vcs,
      nth_error (v_rows v') r = Some (Some vcs)
      /\ nth_error vcs c = Some (vcell_of_item W (m_env st) json (fst (c_item x)))
      /\ (forall c', c' <> c -> nth_error vcs c' = option_map (fun y => shown W json (c_item y)) (nth_error cs c'))
      /\ (forall r', r' <> r -> nth_error (v_rows v') r' = nth_error (v_rows (tmview W json st)) r')
      /\ v_header v' = v_header (tmview W json st) /\ v_ncols v' = v_ncols (tmview W json st)
      /\ v_align v' = v_align (tmview W json st).
  Proof.
    intros st r c tr cs x Hr Hb Hc v'.
    destruct (nth_error_upd_cell (reread (m_env st)) cs c x Hc) as [Hsame Hother].
    unfold v', tmview, table_view. cbn [mstep m_tab m_env on_core tb_core tb_align tb_skip v_rows v_header v_ncols v_align].
    unfold core_update_at. rewrite Hr, Hb. cbn [with_rows t_rows t_header t_ncols].
    exists (map (fun y => shown W json (c_item y)) (upd_cell (reread (m_env st)) cs c)).
    split; [|split; [|split; [|split; [|split; [|split]]]]].
    - rewrite nth_error_map, nth_error_upd_same by (apply nth_error_Some; congruence).
      cbn [option_map row_cells r_body]. reflexivity.
    - rewrite nth_error_map, Hsame. reflexivity.
    - intros c' Hne. rewrite nth_error_map, (Hother c' Hne). reflexivity.
    - intros r' Hne. rewrite !nth_error_map, nth_error_upd_other by congruence. reflexivity.
    - reflexivity.
    - reflexivity.
    - reflexivity.
  Qed.

  Theorem update_header_rereads : forall st c cs x,
    t_header (tb_core (m_tab st)) = Some cs -> nth_error cs c = Some x ->
    let v' := tmview W json (mstep st (MUpdateHeader c)) in
    exists vcs,
      v_header v' = Some vcs
      /\ nth_error vcs c = Some (vcell_of_item W (m_env st) json (fst (c_item x)))
      /\ (forall c', c' <> c -> nth_error vcs c' = option_map (fun y => shown W json (c_item y)) (nth_error cs c'))
      /\ v_rows v' = v_rows (tmview W json st) /\ v_ncols v' = v_ncols (tmview W json st)
      /\ v_align v' = v_align (tmview W json st).
  Proof.
    intros st c cs x Hh Hc v'.
    destruct (nth_error_upd_cell (reread (m_env st)) cs c x Hc) as [Hsame Hother].
    unfold v', tmview, table_view. cbn [mstep m_tab m_env on_core tb_core tb_align tb_skip v_rows v_header v_ncols v_align].
    unfold core_update_header. rewrite Hh. cbn [with_header t_rows t_header t_ncols option_map].
    eexists. split; [reflexivity|]. split; [|split; [|split; [|split]]].
    - rewrite nth_error_map, Hsame. reflexivity.
    - intros c' Hne. rewrite nth_error_map, (Hother c' Hne). reflexivity.
    - reflexivity.
    - reflexivity.
    - reflexivity.
  Qed.

  (* the tie to C01's view of the same machine (Model/TableMut.v mview, which
     asks the LIVE item for its method set): where method sets are static - as
     they are in Go - both views show the same text, sizes and widther flag *)
  Theorem shown_is_snap : forall e_now s,
    methods_static (snd s) e_now (fst s) ->
    let a := shown W json s in let b := snap_vcell W json e_now s in
    vc_text a = vc_text b /\ vc_empty a = vc_empty b /\ vc_tw a = vc_tw b /\ vc_h a = vc_h b
    /\ vc_widther a = vc_widther b.
  Proof. intros e_now s H. cbv zeta. unfold shown, snap_vcell, vcell_of_item. cbn. repeat split. symmetry. exact H. Qed.

  (* a program without mutation or Update: the view of the end-to-end theorems *)
  Theorem tmview_mutation_free : forall e (h : list top),
    tmview W json (mrun e (map MOp h)) = Proofs.E2EProofs.hview W e json h.
  Proof.
    intros e h. rewrite mrun_ops. unfold tmview, Proofs.E2EProofs.hview. cbn [m_tab].
    rewrite (Proofs.CoreMap.trun_map (fun it : item => (it, e)) h), Proofs.CoreMap.table_view_map. reflexivity.
  Qed.
End Mut.
