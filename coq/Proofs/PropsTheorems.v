(* C12 - the statements of Props/C12.v in their final wording, assembled from
   PropsProofs / PropsHeapProofs / PropsMachineProofs. *)
From Tab Require Import Model.Props Model.PropsHeap Spec.PropMap
  Proofs.PropsProofs Proofs.PropsHeapProofs Proofs.PropsMachineProofs.

(* a set adds at most one link, none when the key was present, and setting nil
   never grows the chain (and leaves it alone when the key was absent) *)
Lemma bounded m k v m' :
  set_property m k v = Ok m' ->
  length m' <= S (length m)
  /\ (forall x y, get_property m k = Some x -> v = Some y -> length m' = length m)
  /\ (v = None -> length m' <= length m)
  /\ (get_property m k = None -> v = None -> m' = m).
Proof. exact (set_bounded m k v m'). Qed.

Lemma live_keys_universe m U :
  NoDup (keys m) -> NoDup U -> incl (keys m) U ->
  length m = live_count U (fun k => get_property m k).
Proof. intros. symmetry. apply live_count_length; auto. Qed.

(* SetProperty on the heap: never panics on a well-formed heap, computes what
   the value model computes on the chain the pointer reads, keeps the heap
   well-formed, and every chain that could be read before reads the same *)
Lemma heap_set_refines h ps c k v :
  hwf h -> reads h ps c ->
  exists h' p' c',
    hset_property h ps k v = Ok (h', p') /\ set_property c k v = Ok c'
    /\ reads h' p' c' /\ hwf h' /\ extends h h'
    /\ forall q cq, reads h q cq -> reads h' q cq.
Proof.
  intros W R. destruct (hset_ok h ps c k v W R) as (h2 & p2 & E & R2 & W2).
  exists (h ++ h2), p2, (set_result c k v). repeat split; auto.
  - apply set_property_ok.
  - exists h2. reflexivity.
  - intros q cq Rq. apply path_ext. exact Rq.
Qed.

Lemma owner_ok_get h p a : owner_ok h p a -> forall k, hget_property h p k = Ok (a k).
Proof. intros (c & R & N & A) k. rewrite (hget_ok h p c k R). rewrite A. reflexivity. Qed.

(* the frame property over histories, read through GetProperty *)
Lemma frame_history ops h os (view : nat -> amap) :
  hwf h ->
  (forall j p, nth_error os j = Some p -> owner_ok h p (view j)) ->
  exists h' os', hrun h os ops = Ok (h', os') /\ hwf h' /\ extends h h'
    /\ forall j p, nth_error os j = Some p ->
         exists p', nth_error os' j = Some p'
           /\ forall k, hget_property h' p' k = Ok (own_view j (view j) ops k).
Proof.
  intros W I. destruct (frame_hist ops h os view W I) as (h' & os' & E & W' & X & L & F).
  exists h', os'. repeat split; auto. intros j p Ej. destruct (F j p Ej) as (p' & Ep & O).
  exists p'. split; auto. apply owner_ok_get. exact O.
Qed.

(* every in-range pointer of a well-formed heap is a faithful store of the map
   it reads, provided its chain has no duplicate key: the hypothesis of
   frame_history is about the initial chains only, not about who shares what *)
Lemma owner_ok_of_reads h p c : reads h p c -> NoDup (keys c) -> owner_ok h p (fun k => get_property c k).
Proof. intros R N. exists c. auto. Qed.
