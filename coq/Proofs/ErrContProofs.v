(* C11, part 1: the container alone. *)
From Tab Require Import Model.ErrCont Spec.ErrLog.

Lemma non_nil_app a b : non_nil (a ++ b) = non_nil a ++ non_nil b.
Proof.
  induction a as [|[x|] a IH]; simpl; [reflexivity | rewrite IH; reflexivity | exact IH].
Qed.

Lemma non_nil_map_some l : non_nil (map Some l) = l.
Proof. induction l; simpl; congruence. Qed.

Lemma not_in_none_map_some (l : list errid) : ~ In None (map Some l).
Proof. intros H. apply in_map_iff in H as (x & E & _). discriminate. Qed.

(* the slice of a non-nil container, nil slice read as empty *)
Definition slist (s : slice) : list err := match s with None => [] | Some l => l end.

Lemma add_error_some s (e : errid) :
  add_error (Some s) (Some e) = Some (Some (slist s ++ [Some e])).
Proof. destruct s; reflexivity. Qed.

Lemma add_error_none s : add_error (Some s) None = Some s.
Proof. reflexivity. Qed.

(* the loop of AddErrorList over a non-nil container: appends the non-nil entries *)
Lemma fold_add_error l : forall s,
  exists s', fold_left add_error l (Some s) = Some s'
             /\ slist s' = slist s ++ map Some (non_nil l).
Proof.
  induction l as [|[e|] l IH]; intros s; cbn [fold_left].
  - exists s. split; [reflexivity | simpl; rewrite app_nil_r; reflexivity].
  - rewrite add_error_some. destruct (IH (Some (slist s ++ [Some e]))) as (s' & E & L).
    exists s'. split; [exact E|]. rewrite L. simpl. rewrite <- app_assoc. reflexivity.
  - rewrite add_error_none. exact (IH s).
Qed.

Lemma add_error_list_some s el :
  exists s', add_error_list (Some s) el = Some s'
             /\ slist s' = slist s ++ map Some (non_nil (match el with None => [] | Some l => l end)).
Proof.
  destruct el as [l|]; simpl.
  - apply fold_add_error.
  - exists s. split; [reflexivity | rewrite app_nil_r; reflexivity].
Qed.

Lemma errors_some s : errors (Some s) = match slist s with [] => None | l => Some l end.
Proof. destruct s as [[|x l]|]; reflexivity. Qed.

Lemma errors_view s l : slist s = map Some l -> errors (Some s) = view l.
Proof. intros E. rewrite errors_some, E. destruct l; reflexivity. Qed.

(* one step keeps "the slice is exactly the log so far" *)
Lemma cont_step_inv s acc o :
  slist s = map Some acc ->
  exists s', cont_step (Some s) o = Some s' /\ slist s' = map Some (raised_from acc [o]).
Proof.
  intros H. destruct o as [[e|]|[l|]| |]; simpl raised_from.
  - cbn [cont_step]. rewrite add_error_some. eexists. split; [reflexivity|].
    simpl. rewrite H, map_app. reflexivity.
  - exists s. split; [reflexivity | exact H].
  - destruct (add_error_list_some s (Some l)) as (s' & E & L). exists s'. split; [exact E|].
    rewrite L, H, map_app. reflexivity.
  - exists s. split; [reflexivity | exact H].
  - exists s. split; [reflexivity | exact H].
  - cbn [cont_step]. destruct (add_error_list_some s (errors (Some s))) as (s' & E & L).
    exists s'. split; [exact E|]. rewrite L, map_app. f_equal; [exact H|]. f_equal.
    rewrite errors_some, H. destruct acc; simpl; [reflexivity|].
    f_equal. apply non_nil_map_some.
Qed.

Lemma raised_from_cons acc o ops : raised_from acc (o :: ops) = raised_from (raised_from acc [o]) ops.
Proof. destruct o as [[e|]|[l|]| |]; reflexivity. Qed.

Lemma cont_run_inv ops : forall s acc,
  slist s = map Some acc ->
  exists s', fold_left cont_step ops (Some s) = Some s' /\ slist s' = map Some (raised_from acc ops).
Proof.
  induction ops as [|o ops IH]; intros s acc H.
  - exists s. split; [reflexivity | exact H].
  - destruct (cont_step_inv s acc o H) as (s1 & E1 & L1).
    cbn [fold_left]. rewrite E1. rewrite raised_from_cons. apply IH. exact L1.
Qed.

Lemma cont_run_nil ops : fold_left cont_step ops None = None.
Proof.
  induction ops as [|o ops IH]; [reflexivity|].
  simpl. destruct o as [e|el| |]; simpl; exact IH.
Qed.

(* what Errors() returns after any history, for every way of making the container *)
Lemma cont_errors_view m ops : errors (cont_run m ops) = view (cont_expected m ops).
Proof.
  unfold cont_run. destruct m; unfold create.
  - rewrite cont_run_nil. reflexivity.
  - destruct (cont_run_inv ops None [] eq_refl) as (s' & E & L).
    unfold slice in *. rewrite E. apply errors_view. exact L.
  - destruct (cont_run_inv ops (Some []) [] eq_refl) as (s' & E & L).
    unfold slice in *. rewrite E. apply errors_view. exact L.
Qed.

Lemma view_none l : view l = None <-> l = [].
Proof. destruct l; simpl; split; intros H; congruence. Qed.

Lemma view_some l l' : view l = Some l' -> l' <> [] /\ ~ In None l' /\ l' = map Some l.
Proof.
  destruct l as [|x l]; simpl; intros H; [discriminate|].
  inversion H; subst. split; [discriminate|]. split; [|reflexivity].
  apply (not_in_none_map_some (x :: l)).
Qed.

Theorem container_log : forall m ops,
  let c := cont_run m ops in
  (errors c = None <-> cont_expected m ops = [])
  /\ (forall l, errors c = Some l -> l <> [] /\ ~ In None l /\ l = map Some (cont_expected m ops)).
Proof.
  intros m ops c. unfold c. rewrite cont_errors_view. split.
  - apply view_none.
  - apply view_some.
Qed.

(* the statement of DESIGN 6 for the containers that accept errors *)
Theorem container_log_non_nil : forall m ops, m <> MNil ->
  let c := cont_run m ops in
  (errors c = None <-> raised_non_nil ops = [])
  /\ (forall l, errors c = Some l -> l <> [] /\ ~ In None l /\ l = map Some (raised_non_nil ops)).
Proof.
  intros m ops Hm. pose proof (container_log m ops) as H.
  destruct m; [congruence | exact H | exact H].
Qed.

(* a nil container: nothing in, nothing out, for any history *)
Theorem container_nil : forall ops, cont_run MNil ops = None /\ errors (cont_run MNil ops) = None.
Proof. intros ops. unfold cont_run, create. rewrite cont_run_nil. split; reflexivity. Qed.

Definition err_eq_dec (a b : err) : {a = b} + {a <> b}.
Proof. decide equality. apply N.eq_dec. Defined.

(* no duplication, no loss, as counting: every error value occurs in the view
   exactly as often as it was handed in *)
Theorem container_counts : forall m ops l e,
  errors (cont_run m ops) = Some l ->
  count_occ err_eq_dec l (Some e) = count_occ N.eq_dec (cont_expected m ops) e.
Proof.
  intros m ops l e H. rewrite cont_errors_view in H. apply view_some in H as (_ & _ & ->).
  induction (cont_expected m ops) as [|x xs IH]; [reflexivity|].
  simpl. destruct (err_eq_dec (Some x) (Some e)) as [E|E]; destruct (N.eq_dec x e) as [E'|E'];
    try congruence; rewrite IH; reflexivity.
Qed.
