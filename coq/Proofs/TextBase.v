(* Generic list / result lemmas used by the text-renderer proofs. *)
From Tab Require Import Model.Text.

Lemma idx_app_mid {A} (pre : list A) y post i :
  i = length pre -> idx (pre ++ y :: post) i = Ok y.
Proof.
  intros ->. unfold idx. rewrite nth_error_app2 by lia. rewrite Nat.sub_diag. reflexivity.
Qed.

Lemma upd_app_mid {A} (pre : list A) y post i x :
  i = length pre -> upd (pre ++ y :: post) i x = Ok (pre ++ x :: post).
Proof.
  intros ->. unfold upd.
  replace (length pre <? length (pre ++ y :: post))%nat with true
    by (symmetry; apply Nat.ltb_lt; rewrite app_length; simpl; lia).
  rewrite firstn_app, firstn_all, Nat.sub_diag, firstn_O, app_nil_r.
  rewrite skipn_app, skipn_all2 by lia.
  replace (S (length pre) - length pre) with 1 by lia. reflexivity.
Qed.

Fixpoint replace_last {A} (l : list A) (x : A) : list A :=
  match l with
  | [] => []
  | [y] => [x]
  | y :: r => y :: replace_last r x
  end.

Lemma replace_last_snoc {A} (pre : list A) y x : replace_last (pre ++ [y]) x = pre ++ [x].
Proof.
  induction pre as [|a pre IH]; [reflexivity|].
  simpl. rewrite IH. destruct pre; reflexivity.
Qed.

Lemma set_last_ok {A} (l : list A) x : l <> [] -> set_last l x = Ok (replace_last l x).
Proof.
  intros H. destruct (exists_last H) as (pre & y & ->).
  unfold set_last. rewrite replace_last_snoc. apply upd_app_mid.
  rewrite app_length. simpl. lia.
Qed.

Lemma mapM_ok_map {A B} (f : A -> res B) (g : A -> B) l :
  (forall x, In x l -> f x = Ok (g x)) -> mapM f l = Ok (map g l).
Proof.
  induction l as [|a l IH]; intros H; [reflexivity|].
  simpl. rewrite (H a) by (left; reflexivity). simpl.
  rewrite IH by (intros; apply H; right; assumption). reflexivity.
Qed.

Lemma mapM_map {A B C} (f : B -> res C) (g : A -> B) (h : A -> C) l :
  (forall x, In x l -> f (g x) = Ok (h x)) -> mapM f (map g l) = Ok (map h l).
Proof.
  induction l as [|a l IH]; intros H; [reflexivity|].
  simpl. rewrite (H a) by (left; reflexivity). simpl.
  rewrite IH by (intros; apply H; right; assumption). reflexivity.
Qed.

Lemma nth_error_seq s n j : j < n -> nth_error (seq s n) j = Some (s + j).
Proof.
  revert s j; induction n as [|n IH]; intros s j H; [lia|].
  destruct j as [|j]; simpl.
  - f_equal. lia.
  - rewrite IH by lia. f_equal. lia.
Qed.

Lemma nth_error_map_seq {A} (f : nat -> A) n j x :
  nth_error (map f (seq 0 n)) j = Some x -> j < n /\ x = f j.
Proof.
  intros H.
  assert (Hj : j < n).
  { assert (E : nth_error (map f (seq 0 n)) j <> None) by congruence.
    apply nth_error_Some in E. rewrite map_length, seq_length in E. exact E. }
  split; [exact Hj|].
  rewrite nth_error_map, nth_error_seq in H by exact Hj. simpl in H. congruence.
Qed.

Lemma nth_error_map_seq_lt {A} (f : nat -> A) n j :
  j < n -> nth_error (map f (seq 0 n)) j = Some (f j).
Proof. intros H. rewrite nth_error_map, nth_error_seq by exact H. reflexivity. Qed.

(* reading a list by index over its own length is mapping over it *)
Lemma map_nth_error_seq {A B} (g : option A -> B) (l : list A) :
  map (fun i => g (nth_error l i)) (seq 0 (length l)) = map (fun x => g (Some x)) l.
Proof.
  induction l as [|a l IH]; [reflexivity|].
  simpl. f_equal. rewrite <- seq_shift, map_map. simpl. exact IH.
Qed.

Lemma map_const_repeat {A B} (x : B) (l : list A) : map (fun _ => x) l = repeat x (length l).
Proof. induction l; simpl; congruence. Qed.

Lemma list_max_ge l x : In x l -> x <= list_max l.
Proof.
  induction l as [|a l IH]; simpl; [tauto|]. intros [->|H]; [lia|]. specialize (IH H). lia.
Qed.

Lemma fold_left_max l a : fold_left Nat.max l a = Nat.max a (list_max l).
Proof.
  revert a; induction l as [|x l IH]; intros a; simpl; [lia|]. rewrite IH. lia.
Qed.

Lemma flat_map_map {A B C} (f : B -> list C) (g : A -> B) l :
  flat_map f (map g l) = flat_map (fun x => f (g x)) l.
Proof. induction l; simpl; congruence. Qed.

Lemma nth_error_repeat_dflt {A} (x : A) m j :
  match nth_error (repeat x m) j with Some y => y | None => x end = x.
Proof.
  destruct (nth_error (repeat x m) j) eqn:E; [|reflexivity].
  apply nth_error_In in E. apply repeat_spec in E. exact E.
Qed.
