(* The table machine (Model/Table.v) refines the history spec
   (Spec/TableHist.v): for every well-formed history, what a renderer sees is
   exactly what the history says it must see.  Then the facts every end-to-end
   statement needs of that view. *)
From Tab Require Import Base.Ops Model.Core Model.Table Spec.History Spec.TableHist
     Proofs.CoreInv Proofs.CoreSim Proofs.CoreObs.

Section Generic.
Context {A : Type}.

Lemma core_ops_app (h1 h2 : list (gtop A)) : core_ops (h1 ++ h2) = core_ops h1 ++ core_ops h2.
Proof. apply flat_map_app. Qed.

Lemma trun_snoc (h : list (gtop A)) o : trun (h ++ [o]) = tstep (trun h) o.
Proof. unfold trun. rewrite fold_left_app. reflexivity. Qed.

Lemma tspec_run_snoc (h : list (gtop A)) o : tspec_run (h ++ [o]) = tspec_step (tspec_run h) o.
Proof. unfold tspec_run. rewrite fold_left_app. reflexivity. Qed.

Lemma trun_core (h : list (gtop A)) : tb_core (trun h) = run (core_ops h).
Proof.
  induction h as [|o h IH] using rev_ind; [reflexivity|].
  rewrite trun_snoc, core_ops_app. destruct o as [c|n a|n s]; cbn [core_ops flat_map app tstep].
  - rewrite run_snoc, <- IH. reflexivity.
  - rewrite app_nil_r. destruct (has_column _ _); cbn [tb_core]; exact IH.
  - rewrite app_nil_r. destruct (has_column _ _); cbn [tb_core]; exact IH.
Qed.

Lemma tspec_core (h : list (gtop A)) : ts_sp (tspec_run h) = spec_run (core_ops h).
Proof.
  induction h as [|o h IH] using rev_ind; [reflexivity|].
  rewrite tspec_run_snoc, core_ops_app. destruct o as [c|n a|n s]; cbn [core_ops flat_map app tspec_step].
  - rewrite spec_run_snoc, <- IH. reflexivity.
  - rewrite app_nil_r. destruct (_ <=? _); cbn [ts_sp]; exact IH.
  - rewrite app_nil_r. destruct (_ <=? _); cbn [ts_sp]; exact IH.
Qed.

Lemma twf_snoc_inv (h : list (gtop A)) o : twf_hist (h ++ [o]) -> twf_hist h.
Proof. unfold twf_hist. rewrite core_ops_app. apply wf_prefix. Qed.

(* ---- the column count never shrinks *)
Section Mono.
Lemma resize_mono (st : Core.state A) n : t_ncols st <= t_ncols (resize_columns_at_least st n).
Proof.
  unfold resize_columns_at_least. destruct (n <=? t_ncols st) eqn:E; [lia|].
  apply Nat.leb_gt in E. destruct (S n <? t_cols st); cbn [t_ncols]; lia.
Qed.

Lemma row_add_attached_mono (st : Core.state A) i x : t_ncols st <= t_ncols (row_add_attached st i x).
Proof.
  unfold row_add_attached. destruct (nth_error _ _) as [tr|]; [|lia].
  destruct (r_body tr); [lia|]. cbv zeta. destruct (r_here tr).
  - etransitivity; [|apply resize_mono]. cbn [with_rows t_ncols]. lia.
  - cbn [with_rows t_ncols]. lia.
Qed.

Lemma step_mono (st : Core.state A) o : t_ncols st <= t_ncols (step st o).
Proof.
  destruct o; cbn [step]; try (cbn [bind_handle t_ncols]; lia).
  - unfold append_new_row, add_row_cells. cbn [bind_handle t_ncols].
    etransitivity; [|apply resize_mono]. cbn [with_rows t_ncols]. lia.
  - unfold row_add. destruct ref as [r|i]; [|apply row_add_attached_mono].
    destruct (assoc r (t_handles st)) as [[cs|i]|]; [cbn [bind_handle t_ncols]; lia | apply row_add_attached_mono | lia].
  - unfold add_row. destruct (assoc r (t_handles st)) as [[cs|i]|]; try lia.
    unfold add_row_cells. cbn [bind_handle t_ncols]. etransitivity; [|apply resize_mono]. cbn [with_rows t_ncols]. lia.
  - unfold add_row_items, add_row_cells. etransitivity; [|apply resize_mono]. cbn [with_rows t_ncols]. lia.
  - unfold add_separator. cbn [with_rows t_ncols]. lia.
  - unfold add_headers. cbn [with_header t_ncols]. apply resize_mono.
  - unfold other_add_row, taken_by_other.
    destruct ref as [r|i]; [destruct (assoc r (t_handles st)) as [[cs|i]|]|]; try lia;
      destruct (nth_error _ _); cbn [with_rows t_ncols]; lia.
Qed.
End Mono.

(* ---- one positional property list against its list of settings *)
Section PropList.
Context {B : Type}.

Definition PInv (l : list (option B)) (sets : list (nat * option B)) (n : nat) : Prop :=
  l = map (setting sets) (seq 0 (S n)) /\ forall i a, In (i, a) sets -> i <= n.

Lemma setting_cons k a (sets : list (nat * option B)) i :
  setting ((k, a) :: sets) i = if i =? k then a else setting sets i.
Proof. unfold setting. cbn [assoc]. destruct (i =? k); reflexivity. Qed.

Lemma setting_unbound (sets : list (nat * option B)) i : (forall a, ~ In (i, a) sets) -> setting sets i = None.
Proof.
  intros H. unfold setting. destruct (assoc i sets) as [v|] eqn:E; [|reflexivity].
  apply assoc_In in E. destruct (H _ E).
Qed.

Lemma map_none_seq (g : nat -> option B) k : forall a, (forall i, a <= i < a + k -> g i = None) -> map g (seq a k) = repeat None k.
Proof.
  induction k as [|k IH]; intros a H; [reflexivity|]. cbn [seq map repeat].
  rewrite (H a) by lia. f_equal. apply IH. intros i Hi. apply H. lia.
Qed.

Lemma pinv_pad l sets n n' : PInv l sets n -> n <= n' -> PInv (pad_none l (S n')) sets n'.
Proof.
  intros [E Hb] Hn. split.
  - unfold pad_none. rewrite E at 1. rewrite E, map_length, seq_length.
    replace (S n') with (S n + (n' - n)) at 2 by lia. rewrite seq_app, map_app. f_equal.
    replace (S n' - S n) with (n' - n) by lia. symmetry. apply map_none_seq.
    intros i Hi. apply setting_unbound. intros a Hin. apply Hb in Hin. lia.
  - intros i a Hin. apply Hb in Hin. lia.
Qed.

Lemma upd_map_seq (g : nat -> option B) v m : forall s k,
  upd (map g (seq s m)) k v = map (fun i => if i =? s + k then v else g i) (seq s m).
Proof.
  induction m as [|m IH]; intros s k; [destruct k; reflexivity|].
  cbn [seq map]. destruct k as [|k]; cbn [upd].
  - rewrite Nat.add_0_r, Nat.eqb_refl. f_equal. apply map_ext_in. intros i Hi. apply in_seq in Hi.
    destruct (Nat.eqb_spec i s); [lia | reflexivity].
  - destruct (Nat.eqb_spec s (s + S k)); [lia|]. f_equal. rewrite IH. apply map_ext. intros i.
    replace (S s + k) with (s + S k) by lia. reflexivity.
Qed.

Lemma pinv_set l sets n k a : PInv l sets n -> k <= n -> PInv (upd l k a) ((k, a) :: sets) n.
Proof.
  intros [E Hb] Hk. split.
  - rewrite E, upd_map_seq. apply map_ext. intros i. rewrite setting_cons. reflexivity.
  - intros i x [H|H]; [inversion H; subst; exact Hk | apply Hb in H; exact H].
Qed.
End PropList.

(* ---- Column(n) != nil exactly for n <= NColumns(), on every built table *)
Lemma has_column_wf (h : list (op A)) n : wf_hist h -> has_column (run h) n = (n <=? ncols (run h)).
Proof.
  intros W. unfold has_column. rewrite (core_column h (Z.of_nat n) W).
  destruct (Nat.leb_spec n (ncols (run h))).
  - replace (0 <=? Z.of_nat n)%Z with true by (symmetry; apply Z.leb_le; lia).
    cbn [andb]. apply Z.leb_le. lia.
  - replace (Z.of_nat n <=? Z.of_nat (ncols (run h)))%Z with false by (symmetry; apply Z.leb_gt; lia).
    apply andb_false_r.
Qed.

Lemma props_inv (h : list (gtop A)) : twf_hist h ->
  PInv (tb_align (trun h)) (ts_align (tspec_run h)) (t_ncols (tb_core (trun h)))
  /\ PInv (tb_skip (trun h)) (ts_skip (tspec_run h)) (t_ncols (tb_core (trun h))).
Proof.
  induction h as [|o h IH] using rev_ind; intros W.
  - split; (split; [reflexivity | intros i a []]).
  - specialize (IH (twf_snoc_inv _ _ W)). destruct IH as [IA IS].
    pose proof (twf_snoc_inv _ _ W) as W0. unfold twf_hist in W0.
    assert (Ecols : e_ncols (ts_sp (tspec_run h)) = t_ncols (tb_core (trun h))).
    { rewrite tspec_core, trun_core. symmetry. apply core_ncols_spec, W0. }
    assert (Hcol : forall n, has_column (tb_core (trun h)) n = (n <=? t_ncols (tb_core (trun h)))).
    { intros n. rewrite trun_core. apply has_column_wf, W0. }
    rewrite trun_snoc, tspec_run_snoc. destruct o as [c|n a|n s]; cbn [tstep tspec_step].
    + cbn [tb_align tb_skip tb_core ts_align ts_skip].
      split; (eapply pinv_pad; [eassumption | apply step_mono]).
    + rewrite Ecols, Hcol.
      destruct (Nat.leb_spec n (t_ncols (tb_core (trun h)))); cbn [tb_align tb_skip tb_core ts_align ts_skip].
      * split; [apply pinv_set; assumption | assumption].
      * split; assumption.
    + rewrite Ecols, Hcol.
      destruct (Nat.leb_spec n (t_ncols (tb_core (trun h)))); cbn [tb_align tb_skip tb_core ts_align ts_skip].
      * split; [assumption | apply pinv_set; assumption].
      * split; assumption.
Qed.

(* ---- the refinement: what a renderer sees is what the history says *)
Theorem table_view_spec : forall (f : A -> vcell) (h : list (gtop A)), twf_hist h ->
  table_view f (trun h) = spec_table_view f (tspec_run h).
Proof.
  intros f h W. destruct (props_inv h W) as [[EA _] [ES _]].
  pose proof W as W0. unfold twf_hist in W0.
  assert (Ecols : e_ncols (ts_sp (tspec_run h)) = t_ncols (tb_core (trun h))).
  { rewrite tspec_core, trun_core. symmetry. apply core_ncols_spec, W0. }
  unfold table_view, spec_table_view. rewrite Ecols, <- EA, <- ES.
  pose proof (run_sim (core_ops h)) as S. rewrite <- trun_core, <- tspec_core in S.
  rewrite (sim_header _ _ S), (sim_rows _ _ S). f_equal.
  - destruct (t_header (tb_core (trun h))); cbn [option_map]; [rewrite map_map; reflexivity | reflexivity].
  - rewrite map_map. apply map_ext. intros tr. unfold row_items.
    destruct (row_cells tr); cbn [option_map]; [rewrite map_map; reflexivity | reflexivity].
Qed.

(* ---- and it is well formed (what every renderer theorem asks of a view) *)
Theorem table_view_wf : forall (f : A -> vcell) (h : list (gtop A)), twf_hist h -> wf_view (table_view f (trun h)).
Proof.
  intros f h W. destruct (props_inv h W) as [[EA _] [ES _]].
  pose proof (view_wf f (core_ops h) W) as (H1 & H2 & _ & _).
  rewrite <- trun_core in H1, H2. unfold view_of in H1, H2. cbn [v_rows v_header v_ncols] in H1, H2.
  unfold table_view, wf_view. cbn [v_rows v_header v_ncols v_align v_skip].
  repeat split; try assumption.
  - rewrite EA, map_length, seq_length. reflexivity.
  - rewrite ES, map_length, seq_length. reflexivity.
Qed.
End Generic.
