(* C07, part 1: what Model/Json.v computes, in closed form (no parser yet):
   the header loop, the cell loop, the row loop with its comma look-ahead, and
   exactly when the outcome is Err. *)
From Tab Require Import Model.Json Spec.JsonParse Spec.JsonExpect.

(* ---------- small list facts ---------- *)

Lemma idx_skipn {A} (l : list A) i a : idx l i = Ok a -> skipn i l = a :: skipn (S i) l.
Proof.
  intros H. apply idx_ok_nth in H. revert l H. induction i as [|i IH]; intros [|x l] H; try discriminate.
  - inversion H. reflexivity.
  - cbn [nth_error] in H. cbn [skipn]. rewrite (IH l H). reflexivity.
Qed.

Lemma idx_panic_len {A} (l : list A) i : idx l i = Panic -> length l <= i.
Proof. unfold idx. destruct (nth_error l i) eqn:E; [discriminate|]. intros _. apply nth_error_None. exact E. Qed.

Lemma idx_not_err {A} (l : list A) i : idx l i <> Err.
Proof. unfold idx. destruct (nth_error l i); discriminate. Qed.

Lemma skipn_length_le {A} (l : list A) i : length (skipn i l) = length l - i.
Proof. apply skipn_length. Qed.

Lemma nth_error_firstn_lt {A} (l : list A) : forall n i, i < n -> nth_error (firstn n l) i = nth_error l i.
Proof.
  induction l as [|x l IH]; intros n i H.
  - rewrite firstn_nil. reflexivity.
  - destruct n; [lia|]. destruct i; [reflexivity|]. cbn [firstn nth_error]. apply IH. lia.
Qed.

Lemma bytes_eqb_sym a b : bytes_eqb a b = bytes_eqb b a.
Proof.
  destruct (bytes_eqb a b) eqn:E.
  - apply bytes_eqb_eq in E. subst. symmetry. apply bytes_eqb_refl.
  - destruct (bytes_eqb b a) eqn:E'; [|reflexivity].
    apply bytes_eqb_eq in E'. subst. rewrite bytes_eqb_refl in E. discriminate.
Qed.

Lemma existsb_orb {A} (f g : A -> bool) l :
  existsb (fun x => f x || g x) l = existsb f l || existsb g l.
Proof.
  induction l as [|x l IH]; [reflexivity|]. cbn [existsb]. rewrite IH.
  destruct (f x), (g x), (existsb f l), (existsb g l); reflexivity.
Qed.

Lemma existsb_ext' {A} (f g : A -> bool) l : (forall x, f x = g x) -> existsb f l = existsb g l.
Proof. intros H. induction l as [|x l IH]; [reflexivity|]. cbn [existsb]. rewrite H, IH. reflexivity. Qed.

(* ---------- the header loop ---------- *)

(* the loop's error test, over the texts and raw Skipable values it visits *)
Fixpoint hdr_errb (texts : list bytes) (raws : list (option skipv)) (seen : list bytes) : bool :=
  match texts, raws with
  | t :: ts, r :: rs =>
      is_empty t || existsb (bytes_eqb t) seen || skip_nonbool r || hdr_errb ts rs (t :: seen)
  | _, _ => false
  end.

Lemma hdr_errb_closed texts : forall raws seen, length raws = length texts ->
  hdr_errb texts raws seen
  = existsb is_empty texts
    || existsb (fun t => existsb (bytes_eqb t) seen) texts
    || has_dup texts
    || existsb skip_nonbool raws.
Proof.
  induction texts as [|t ts IH]; intros [|r rs] seen Hl; try discriminate; [reflexivity|].
  cbn [hdr_errb existsb has_dup]. rewrite IH by (simpl in Hl; lia).
  assert (E : existsb (fun u => existsb (bytes_eqb u) (t :: seen)) ts
              = existsb (bytes_eqb t) ts || existsb (fun u => existsb (bytes_eqb u) seen) ts).
  { cbn [existsb]. rewrite existsb_orb. f_equal. apply existsb_ext'. intros x. apply bytes_eqb_sym. }
  rewrite E.
  destruct (is_empty t), (existsb (bytes_eqb t) seen), (skip_nonbool r), (existsb is_empty ts),
    (existsb (bytes_eqb t) ts), (existsb (fun u => existsb (bytes_eqb u) seen) ts), (has_dup ts),
    (existsb skip_nonbool rs); reflexivity.
Qed.

Definition skip_resolve (dflt : bool) (raw : option skipv) : bool :=
  match raw with Some (SkBool b) => b | _ => dflt end.

Lemma nonempty_is_empty {A} (l : list A) : negb (nonempty l) = is_empty l.
Proof. destruct l; reflexivity. Qed.

Section ModelFacts.
  Variable strenc : bytes -> bytes.

  Definition keyenc (h : vcell) : bytes := strenc (vc_text h) ++ js_colon_sp.

  Lemma header_loop_spec v hs dflt : forall n i seen,
    i + n <= length hs -> S (i + n) <= length (v_skip v) ->
    let cells := firstn n (skipn i hs) in
    let raws := firstn n (skipn (S i) (v_skip v)) in
    match json_header_loop strenc v hs dflt n i seen with
    | Ok (sks, keys) =>
        hdr_errb (map vc_text cells) raws seen = false
        /\ sks = map (skip_resolve dflt) raws /\ keys = map keyenc cells
    | Err => hdr_errb (map vc_text cells) raws seen = true
    | Panic => False
    end.
  Proof.
    induction n as [|n IH]; intros i seen Hh Hs; cbn zeta.
    - cbn [json_header_loop firstn map hdr_errb]. auto.
    - cbn [json_header_loop].
      destruct (idx_lt hs i ltac:(lia)) as (h & Hh1 & _). rewrite Hh1. cbn [bind].
      rewrite (idx_skipn _ _ _ Hh1). cbn [firstn map hdr_errb].
      destruct (idx_lt (v_skip v) (i + 1) ltac:(lia)) as (raw & Hr1 & _).
      replace (i + 1) with (S i) in * by lia.
      rewrite (idx_skipn _ _ _ Hr1). cbn [firstn hdr_errb].
      rewrite nonempty_is_empty.
      destruct (is_empty (vc_text h)); [reflexivity|]. cbn [orb].
      destruct (existsb (bytes_eqb (vc_text h)) seen); [reflexivity|]. cbn [orb].
      rewrite Hr1. cbn [bind].
      specialize (IH (S i) (vc_text h :: seen) ltac:(lia) ltac:(lia)). cbn zeta in IH.
      destruct raw as [[b|]|]; cbn [json_skip_value bind skip_nonbool orb].
      + destruct (json_header_loop strenc v hs dflt n (S i) (vc_text h :: seen)) as [[sks keys]| |];
          cbn [bind]; [|exact IH|exact IH].
        destruct IH as (E1 & E2 & E3). subst. auto.
      + reflexivity.
      + destruct (json_header_loop strenc v hs dflt n (S i) (vc_text h :: seen)) as [[sks keys]| |];
          cbn [bind]; [|exact IH|exact IH].
        destruct IH as (E1 & E2 & E3). subst. auto.
  Qed.

  (* ---------- the cell loop ---------- *)

  (* the environment the header loop leaves behind: n columns, skipableColumns
     and keys aligned with the first n header cells *)
  Record hdr_env (v : view) (hs : list vcell) (skips : list bool) (keys : list bytes) : Prop := {
    he_skips : skips = map (eff_skip v) (seq 0 (length keys));
    he_keys : keys = map keyenc (firstn (length keys) hs);
    he_len : length keys <= length hs
  }.

  Lemma hdr_env_at v hs skips keys i :
    hdr_env v hs skips keys -> i < length keys ->
    exists h, idx skips i = Ok (eff_skip v i) /\ idx keys i = Ok (keyenc h)
              /\ skipn i hs = h :: skipn (S i) hs.
  Proof.
    intros [E1 E2 E3] Hi.
    destruct (idx_lt hs i ltac:(lia)) as (h & Hh & Hn).
    exists h. split; [|split].
    - apply idx_ok_nth. rewrite E1. rewrite nth_error_map.
      rewrite (nth_error_nth' _ 0) by (rewrite seq_length; lia). rewrite seq_nth by lia. reflexivity.
    - apply idx_ok_nth. rewrite E2 at 1. rewrite nth_error_map.
      rewrite nth_error_firstn_lt by lia. rewrite Hn. reflexivity.
    - apply idx_skipn. exact Hh.
  Qed.

  Lemma cell_value_result c :
    match json_cell_value strenc c with
    | Ok _ => vc_json c <> None
    | Err => vc_json c = None
    | Panic => False
    end.
  Proof.
    unfold json_cell_value. destruct (vc_json c) as [t|]; [|reflexivity].
    destruct (bytes_eqb t js_empty_obj && nonempty (vc_text c)); discriminate.
  Qed.

  Lemma emit_cells_result v hs skips keys : hdr_env v hs skips keys ->
    forall cells i first, i + length cells <= length keys ->
    match json_emit_cells strenc skips keys cells i first with
    | Ok _ => marshal_fails v i cells = false
    | Err => marshal_fails v i cells = true
    | Panic => False
    end.
  Proof.
    intros He. induction cells as [|c cells IH]; intros i first Hi.
    - reflexivity.
    - cbn [length] in Hi. cbn [json_emit_cells marshal_fails].
      destruct (hdr_env_at v hs skips keys i He ltac:(lia)) as (h & Hs & Hk & _).
      rewrite Hs. cbn [bind].
      destruct (eff_skip v i && vc_empty c) eqn:Esk; cbn [negb andb orb].
      + apply IH. lia.
      + rewrite Hk. cbn [bind].
        pose proof (cell_value_result c) as Hc.
        destruct (json_cell_value strenc c) as [t| |]; cbn [bind]; [| |contradiction].
        * destruct (vc_json c); [|congruence]. cbn [orb].
          specialize (IH (S i) false ltac:(lia)).
          destruct (json_emit_cells strenc skips keys cells (S i) false) as [[ws f]| |]; cbn [bind]; exact IH.
        * rewrite Hc. reflexivity.
  Qed.

  Lemma emit_row_result v hs skips keys cells : hdr_env v hs skips keys ->
    match json_emit_row_object strenc skips keys cells with
    | Ok _ => (length keys <? length cells) || marshal_fails v 0 cells = false
    | Err => (length keys <? length cells) || marshal_fails v 0 cells = true
    | Panic => False
    end.
  Proof.
    intros He. unfold json_emit_row_object.
    destruct (length keys <? length cells) eqn:E; [reflexivity|]. cbn [orb].
    apply Nat.ltb_ge in E.
    pose proof (emit_cells_result v hs skips keys He cells 0 true ltac:(lia)) as H.
    destruct (json_emit_cells strenc skips keys cells 0 true) as [[ws f]| |]; cbn [bind]; exact H.
  Qed.

  (* ---------- the row loop ---------- *)

  Definition row_bad (v : view) (n : nat) (cells : list vcell) : bool :=
    (n <? length cells) || marshal_fails v 0 cells.

  Definition rows_bodies (rows : list vrow) : list (list vcell) :=
    flat_map (fun r => match r with Some cs => [cs] | None => [] end) rows.

  Lemma emit_rows_result v hs skips keys last : hdr_env v hs skips keys ->
    forall rows i,
    match json_emit_rows strenc skips keys rows i last with
    | Ok _ => existsb (row_bad v (length keys)) (rows_bodies rows) = false
    | Err => existsb (row_bad v (length keys)) (rows_bodies rows) = true
    | Panic => False
    end.
  Proof.
    intros He. induction rows as [|[cells|] rows IH]; intros i.
    - reflexivity.
    - cbn [json_emit_rows rows_bodies flat_map app existsb].
      pose proof (emit_row_result v hs skips keys cells He) as Hr. fold (row_bad v (length keys) cells) in Hr.
      destruct (json_emit_row_object strenc skips keys cells) as [w| |]; cbn [bind]; [| |contradiction].
      + rewrite Hr. cbn [orb]. specialize (IH (S i)). fold (rows_bodies rows).
        destruct (json_emit_rows strenc skips keys rows (S i) last); cbn [bind]; exact IH.
      + rewrite Hr. reflexivity.
    - cbn [json_emit_rows rows_bodies flat_map app]. specialize (IH (S i)). fold (rows_bodies rows).
      destruct (json_emit_rows strenc skips keys rows (S i) last); cbn [bind]; exact IH.
  Qed.

  (* ---------- RenderTo: the outcome ---------- *)

  Lemma eff_skip_resolve v j :
    S j < length (v_skip v) ->
    skip_nonbool (match nth_error (v_skip v) 0 with Some o => o | None => None end) = false ->
    forall dflt, json_default_skipable v = Ok dflt ->
    forall raw, nth_error (v_skip v) (S j) = Some raw -> skip_nonbool raw = false ->
    skip_resolve dflt raw = eff_skip v j.
  Proof.
    intros Hj H0 dflt Hd raw Hr Hnb. unfold eff_skip. rewrite Hr.
    unfold json_default_skipable, idx in Hd.
    destruct (nth_error (v_skip v) 0) as [r0|]; [|discriminate]. cbn [bind] in Hd.
    destruct raw as [[b|]|]; try discriminate; cbn [skip_resolve]; [reflexivity|].
    destruct r0 as [[b0|]|]; cbn [json_skip_value] in Hd; inversion Hd; reflexivity.
  Qed.

  Lemma default_skipable_result v : 1 <= length (v_skip v) ->
    match json_default_skipable v with
    | Ok _ => skip_nonbool (match nth_error (v_skip v) 0 with Some o => o | None => None end) = false
    | Err => skip_nonbool (match nth_error (v_skip v) 0 with Some o => o | None => None end) = true
    | Panic => False
    end.
  Proof.
    intros H. unfold json_default_skipable.
    destruct (idx_lt (v_skip v) 0 ltac:(lia)) as (raw & E & En). rewrite E, En. cbn [bind].
    destruct raw as [[b|]|]; reflexivity.
  Qed.

  Lemma skipn1_tl {A} (l : list A) : skipn 1 l = tl l.
  Proof. destruct l; reflexivity. Qed.

  Lemma map_nth_seq {A B} (f : nat -> B) (g : A -> B) (l : list A) :
    (forall j a, nth_error l j = Some a -> g a = f j) ->
    map g l = map f (seq 0 (length l)).
  Proof.
    revert f. induction l as [|a l IH]; intros f H; [reflexivity|].
    cbn [map length seq]. f_equal.
    - apply (H 0 a). reflexivity.
    - rewrite <- seq_shift, map_map. apply IH. intros j b Hj. apply (H (S j) b). exact Hj.
  Qed.

  Lemma existsb_seen_nil (texts : list bytes) :
    existsb (fun t => existsb (bytes_eqb t) []) texts = false.
  Proof. induction texts; [reflexivity|]. cbn [existsb orb]. exact IHtexts. Qed.

  Lemma nth_error_tl {A} (l : list A) j : nth_error (tl l) j = nth_error l (S j).
  Proof. destruct l; [destruct j|]; reflexivity. Qed.

  Lemma nth_error_firstn_some {A} (l : list A) n j a :
    nth_error (firstn n l) j = Some a -> j < n /\ nth_error l j = Some a.
  Proof.
    intros H. assert (j < n).
    { assert (j < length (firstn n l)) by (apply nth_error_Some; congruence).
      rewrite firstn_length in *. lia. }
    split; [assumption|]. rewrite nth_error_firstn_lt in H by assumption. exact H.
  Qed.

  Lemma existsb_false_nth {A} (f : A -> bool) l j a :
    existsb f l = false -> nth_error l j = Some a -> f a = false.
  Proof.
    intros H Hn. destruct (f a) eqn:E; [|reflexivity].
    assert (existsb f l = true) by (apply existsb_exists; exists a; split; [eapply nth_error_In; eauto | exact E]).
    congruence.
  Qed.

  (* RenderTo, decomposed: the outcome is Err exactly on the error conditions;
     otherwise the row loop ran in the header environment *)
  Lemma render_writes_cases v : length (v_skip v) = S (v_ncols v) ->
    match json_render_writes strenc v with
    | Ok ws =>
        json_errb v = false
        /\ exists hs skips keys body,
             v_header v = Some hs /\ hdr_env v hs skips keys /\ length keys = v_ncols v
             /\ json_emit_rows strenc skips keys (v_rows v) 0 (json_last_object (v_rows v) 0 (-1)) = Ok body
             /\ ws = [js_open] ++ body ++ [js_close]
    | Err => json_errb v = true
    | Panic => False
    end.
  Proof.
    intros Hs. unfold json_render_writes, json_errb.
    destruct (v_ncols v <? 1) eqn:E1.
    { apply Nat.ltb_lt in E1. replace (v_ncols v =? 0) with true by (symmetry; apply Nat.eqb_eq; lia). reflexivity. }
    apply Nat.ltb_ge in E1. replace (v_ncols v =? 0) with false by (symmetry; apply Nat.eqb_neq; lia). cbn [orb].
    pose proof (default_skipable_result v ltac:(lia)) as Hd.
    destruct (json_default_skipable v) as [dflt| |] eqn:Ed; cbn [bind]; [| |contradiction].
    2: { rewrite Hd. reflexivity. }
    rewrite Hd. cbn [orb].
    destruct (v_header v) as [hs|]; [|reflexivity].
    destruct (length hs <? v_ncols v) eqn:E2; [reflexivity|]. cbn [orb]. apply Nat.ltb_ge in E2.
    pose proof (header_loop_spec v hs dflt (v_ncols v) 0 [] ltac:(lia) ltac:(lia)) as Hh. cbn zeta in Hh.
    rewrite skipn_O, skipn1_tl in Hh.
    assert (Hl1 : length (firstn (v_ncols v) hs) = v_ncols v) by (rewrite firstn_length; lia).
    assert (Hl2 : length (firstn (v_ncols v) (tl (v_skip v))) = v_ncols v).
    { rewrite firstn_length. destruct (v_skip v); simpl in *; lia. }
    rewrite hdr_errb_closed in Hh by (rewrite map_length; lia).
    rewrite existsb_seen_nil, orb_false_r in Hh. unfold key_texts.
    set (kt := map vc_text (firstn (v_ncols v) hs)) in *.
    set (raws := firstn (v_ncols v) (tl (v_skip v))) in *.
    destruct (json_header_loop strenc v hs dflt (v_ncols v) 0 []) as [[sks keys]| |]; cbn [bind];
      [| rewrite Hh; reflexivity | contradiction].
    destruct Hh as (Hh & Hsk & Hk). rewrite Hh. cbn [orb].
    apply orb_false_iff in Hh as [Hh Hnb].
    assert (Hlk : length keys = v_ncols v) by (rewrite Hk, map_length; exact Hl1).
    assert (He : hdr_env v hs sks keys).
    { constructor.
      - rewrite Hsk, Hlk. rewrite <- Hl2. apply map_nth_seq. intros j raw Hj.
        apply nth_error_firstn_some in Hj as [Hj1 Hj2]. rewrite nth_error_tl in Hj2.
        apply (eff_skip_resolve v j); try assumption; try lia.
        apply (existsb_false_nth skip_nonbool raws j raw Hnb).
        unfold raws. rewrite nth_error_firstn_lt by assumption. rewrite nth_error_tl. exact Hj2.
      - rewrite Hlk. exact Hk.
      - lia. }
    pose proof (emit_rows_result v hs sks keys (json_last_object (v_rows v) 0 (-1)) He (v_rows v) 0) as Hr.
    rewrite Hlk in Hr. change (row_bad v (v_ncols v)) with (row_errb v) in Hr.
    change (rows_bodies (v_rows v)) with (body_rows v) in Hr.
    destruct (json_emit_rows strenc sks keys (v_rows v) 0 (json_last_object (v_rows v) 0 (-1))) as [body| |] eqn:Eb;
      cbn [bind]; [|exact Hr|exact Hr].
    split; [exact Hr|]. exists hs, sks, keys, body. auto.
  Qed.
End ModelFacts.
