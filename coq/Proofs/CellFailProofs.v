(* C18, cell clause over whole histories of Update() calls, some of which are
   cut short by a panic of the item's own text method. *)
From Tab Require Import Model.CellFail Spec.Length Spec.CellText Proofs.LengthProofs Proofs.CellProofs.

Section FailProofs.
  Variable W : bytes -> nat.

  (* the three numbers the clause talks about are untouched *)
  Lemma interrupted_same c :
    cell_text (interrupted c) = cell_text c
    /\ cell_height (interrupted c) = cell_height c
    /\ cell_width (interrupted c) = cell_width c
    /\ c_raw (interrupted c) = c_raw c.
  Proof. destruct c. repeat split; reflexivity. Qed.

  Lemma interrupted_metric c : cell_metric_ok W c -> cell_metric_ok W (interrupted c).
  Proof.
    destruct (interrupted_same c) as (Ht & Hh & Hw & _).
    unfold cell_metric_ok. rewrite Ht, Hh, Hw. exact (fun H => H).
  Qed.

  Lemma failed_update_keeps e c : calls_text_method e (c_raw c) = true ->
    let c' := update_f W e true c in
    cell_text c' = cell_text c /\ cell_height c' = cell_height c /\ cell_width c' = cell_width c.
  Proof.
    intros H c'. unfold c', update_f. rewrite H. cbn [andb].
    destruct (interrupted_same c) as (Ht & Hh & Hw & _). repeat split; assumption.
  Qed.

  (* the caller sees a panic exactly when the method is called and fails *)
  Lemma update_fr_panic e f c :
    update_fr W e f c = Panic <-> (f = true /\ calls_text_method e (c_raw c) = true).
  Proof.
    unfold update_fr.
    destruct f, (calls_text_method e (c_raw c)); cbn [andb]; split; intros H;
      try (split; reflexivity); try reflexivity;
      try (exfalso; exact (update_r_no_panic W e c H));
      destruct H; discriminate.
  Qed.

  (* otherwise it is the plain Update *)
  Lemma update_fr_ok e f c :
    (f && calls_text_method e (c_raw c) = false) ->
    update_fr W e f c = Ok (update W e c) /\ update_f W e f c = update W e c.
  Proof.
    intros H. unfold update_fr, update_f. rewrite H. split; [apply update_r_update | reflexivity].
  Qed.

  (* the state of the cell agrees with what the caller saw *)
  Lemma update_f_fr e f c :
    match update_fr W e f c with
    | Ok c' => update_f W e f c = c'
    | Panic => update_f W e f c = interrupted c
    | Err => False
    end.
  Proof.
    unfold update_fr, update_f. destruct (f && calls_text_method e (c_raw c)).
    - reflexivity.
    - rewrite update_r_update. reflexivity.
  Qed.

  Lemma new_cell_fr_panic e it :
    calls_text_method e it = true -> new_cell_fr W e true it = Panic.
  Proof. intros H. apply update_fr_panic. split; [reflexivity | exact H]. Qed.

  Lemma new_cell_fr_ok e it : new_cell_fr W e false it = Ok (new_cell W e it).
  Proof. unfold new_cell_fr, update_fr. cbn [andb]. apply update_r_update. Qed.

  Lemma update_f_raw e f c : c_raw (update_f W e f c) = c_raw c.
  Proof.
    unfold update_f. destruct (f && calls_text_method e (c_raw c)).
    - destruct c; reflexivity.
    - rewrite update_raw_only. apply new_cell_raw.
  Qed.

  (* one step keeps the clause: a completed Update re-establishes it from the
     item alone, an interrupted one leaves text, height and width alone *)
  Lemma update_f_metric e f c :
    no_override W e (c_raw c) -> cell_metric_ok W c -> cell_metric_ok W (update_f W e f c).
  Proof.
    intros Hn Hc. unfold update_f. destruct (f && calls_text_method e (c_raw c)).
    - apply interrupted_metric. exact Hc.
    - apply update_metric_ok. exact Hn.
  Qed.

  Lemma run_updates_raw c h : c_raw (run_updates W c h) = c_raw c.
  Proof.
    revert c. induction h as [|s h IH]; intros c; [reflexivity|].
    cbn [run_updates fold_left]. fold (run_updates W (update_f W (fst s) (snd s) c) h).
    rewrite IH. apply update_f_raw.
  Qed.

  Lemma run_updates_metric c h :
    cell_metric_ok W c ->
    Forall (fun s : ustep => no_override W (fst s) (c_raw c)) h ->
    cell_metric_ok W (run_updates W c h).
  Proof.
    revert c. induction h as [|s h IH]; intros c Hc Hh; [exact Hc|].
    cbn [run_updates fold_left]. fold (run_updates W (update_f W (fst s) (snd s) c) h).
    inversion Hh as [|? ? Hs Ht]; subst.
    apply IH.
    - apply update_f_metric; assumption.
    - rewrite update_f_raw. exact Ht.
  Qed.

  (* C18, cell clause, for a long-lived cell: created from an item that does
     not override its size, then taken through ANY history of Update() calls
     (the item in any state at each call, its text method failing or not,
     never overriding the size): height is the number of lines of the text the
     cell shows and width is its widest line, after every step. *)
  Lemma history_metric e0 it h :
    no_override W e0 it ->
    Forall (fun s : ustep => no_override W (fst s) it) h ->
    cell_metric_ok W (run_updates W (new_cell W e0 it) h).
  Proof.
    intros H0 Hh. apply run_updates_metric.
    - apply new_cell_metric_ok. exact H0.
    - rewrite new_cell_raw. exact Hh.
  Qed.

  (* and the layout pass of the text renderer allocates exactly the lines the
     emit pass reads, at that point of the history *)
  Lemma history_layout_emit e0 it h :
    no_override W e0 it ->
    Forall (fun s : ustep => no_override W (fst s) it) h ->
    let c := run_updates W (new_cell W e0 it) h in
    cell_lines c = Ok (lines_of (cell_text c))
    /\ layout_nlines c = Ok (Zlen (lines_of (cell_text c))).
  Proof.
    intros H0 Hh c. destruct (history_metric e0 it h H0 Hh) as [Hc _]. fold c in Hc.
    unfold layout_nlines, cell_lines. rewrite lines_lines_of. cbn [bind].
    split; [reflexivity|]. rewrite Hc, Z.ltb_irrefl. reflexivity.
  Qed.
End FailProofs.
