From Tab Require Import Model.Wrap Model.WrapObj Proofs.WrapProofs.

Section WrapObjProofs.
  Variable U O : Type.
  Variable dflt : kind -> O.
  Variable out : kind -> O -> view -> res bytes.
  Variable degraded : kind -> O -> mstate -> view -> res bytes.
  Notation ostate := (ostate U O).
  Notation oop := (oop U O).
  Notation ostep := (ostep dflt).
  Notation orun := (orun dflt).
  Notation orender := (orender out degraded).
  Notation fresh_render := (fresh_render dflt out degraded).
  Notation rend o := (render (fun k v => out k o v) (fun k m v => degraded k o m v)).

  (* a render through a wrapper whose measuring callback (if its kind has one)
     is registered is the kind's output for the current view *)
  Lemma render_registered (t : tstate U) o k :
    (measuring k = true -> existsb (kind_eqb k) (st_cbs t) = true) ->
    rend o t k = out k o (st_view t).
  Proof.
    intros H. unfold render. destruct k; try reflexivity.
    - cbn [invoke st_md st_view]. rewrite (H eq_refl). reflexivity.
    - cbn [invoke st_text st_view]. rewrite (H eq_refl). reflexivity.
  Qed.

  (* ---- the heap *)
  Lemma set_opts_length i o (h : list (wobj O)) : length (set_opts i o h) = length h.
  Proof. revert i. induction h as [|w r IH]; intros [|j]; cbn; auto. Qed.

  Lemma set_opts_nth i o (h : list (wobj O)) : forall j,
    nth_error (set_opts i o h) j =
    if Nat.eqb j i then option_map (fun w => mkW (w_kind w) o) (nth_error h j) else nth_error h j.
  Proof.
    revert i. induction h as [|w r IH]; intros i j.
    - destruct i, j; cbn; try reflexivity. destruct (Nat.eqb j i); reflexivity.
    - destruct i as [|i], j as [|j]; cbn; try reflexivity. apply IH.
  Qed.

  Lemma set_opts_kind i o (h : list (wobj O)) j w :
    nth_error (set_opts i o h) j = Some w -> exists w', nth_error h j = Some w' /\ w_kind w' = w_kind w.
  Proof.
    rewrite set_opts_nth. destruct (Nat.eqb j i).
    - destruct (nth_error h j) as [w'|]; cbn; [|discriminate]. intros E. injection E as <-. exists w'. split; reflexivity.
    - intros E. exists w. split; [exact E|reflexivity].
  Qed.

  (* every wrapper object's measuring callback is registered on the table *)
  Definition heap_ok (s : ostate) : Prop :=
    forall i w, nth_error (o_heap s) i = Some w -> measuring (w_kind w) = true ->
                existsb (kind_eqb (w_kind w)) (st_cbs (o_tab s)) = true.

  Lemma heap_ok_init v u : heap_ok (oinit v u).
  Proof. intros [|i] w H; discriminate H. Qed.

  Lemma nth_error_snoc {A} (h : list A) x i y :
    nth_error (h ++ [x]) i = Some y -> nth_error h i = Some y \/ (i = length h /\ y = x).
  Proof.
    intros H. destruct (Nat.lt_ge_cases i (length h)) as [L|G].
    - rewrite nth_error_app1 in H by exact L. left. exact H.
    - rewrite nth_error_app2 in H by exact G.
      destruct (i - length h) as [|n] eqn:E; cbn in H.
      + injection H as <-. right. split; [|reflexivity]. apply Nat.le_antisymm; [|exact G].
        apply Nat.sub_0_le. exact E.
      + destruct n; discriminate H.
  Qed.

  Lemma heap_ok_step (s : ostate) (p : oop) : heap_ok s -> heap_ok (ostep s p).
  Proof.
    intros Hs i w Hn Hm. unfold ostep in *. cbn [o_tab o_heap] in *.
    assert (Old : forall w', nth_error (o_heap s) i = Some w' -> w_kind w' = w_kind w ->
                  existsb (kind_eqb (w_kind w)) (st_cbs (run (o_tab s) (table_ops s p))) = true).
    { intros w' Hn' Hk. apply run_cbs_mono. rewrite <- Hk. apply (Hs i w' Hn'). rewrite Hk. exact Hm. }
    assert (New : forall k r, w_kind w = k -> table_ops s p = OWrap k :: r ->
                  existsb (kind_eqb (w_kind w)) (st_cbs (run (o_tab s) (table_ops s p))) = true).
    { intros k r Hk Ht. rewrite Ht. apply wrapped_registered; [exact Hm|]. left. rewrite Hk. reflexivity. }
    destruct p as [v u|v|k|j o|j|k]; cbn [heap_after] in Hn.
    - apply (Old w Hn eq_refl).
    - apply (Old w Hn eq_refl).
    - apply nth_error_snoc in Hn. destruct Hn as [Hn|[_ ->]].
      + apply (Old w Hn eq_refl).
      + apply (New k []); reflexivity.
    - apply set_opts_kind in Hn. destruct Hn as [w' [Hn Hk]]. apply (Old w' Hn Hk).
    - apply (Old w Hn eq_refl).
    - apply nth_error_snoc in Hn. destruct Hn as [Hn|[_ ->]].
      + apply (Old w Hn eq_refl).
      + apply (New k [ORender k]); reflexivity.
  Qed.

  Lemma heap_ok_run (ps : list oop) : forall s : ostate, heap_ok s -> heap_ok (orun s ps).
  Proof.
    induction ps as [|p ps IH]; intros s H; [exact H|].
    cbn [WrapObj.orun fold_left]. apply IH, heap_ok_step, H.
  Qed.

  Lemma orender_ok (s : ostate) i w : heap_ok s -> nth_error (o_heap s) i = Some w ->
    orender s i = Some (out (w_kind w) (w_opts w) (st_view (o_tab s))).
  Proof.
    intros Hs Hn. unfold WrapObj.orender. rewrite Hn. f_equal.
    apply render_registered. intros Hm. apply (Hs i w Hn Hm).
  Qed.

  (* ---- C10, wrapper objects: after ANY history of building, in-place
     changes, wrapping, option setting and rendering (through objects or through
     the package-level / auto functions), a render through wrapper object i is
     its kind's output under ITS OWN options for the current view *)
  Theorem obj_render_is_out (ps : list oop) v u i w :
    nth_error (o_heap (orun (oinit v u) ps)) i = Some w ->
    orender (orun (oinit v u) ps) i
    = Some (out (w_kind w) (w_opts w) (st_view (o_tab (orun (oinit v u) ps)))).
  Proof. intros Hn. apply orender_ok; [|exact Hn]. apply heap_ok_run, heap_ok_init. Qed.

  (* the package-level Render/RenderTo and auto.Render/RenderTo: the kind's
     output under the kind's DEFAULT options, in every state *)
  Theorem fresh_is_default (s : ostate) k :
    fresh_render s k = Some (out k (dflt k) (st_view (o_tab s))).
  Proof.
    unfold WrapObj.fresh_render, WrapObj.orender, WrapObj.ostep. cbn [o_heap o_tab heap_after table_ops].
    rewrite nth_error_app2 by apply Nat.le_refl. rewrite Nat.sub_diag. cbn [nth_error w_kind w_opts].
    f_equal. rewrite render_registered.
    - cbn. destruct (measuring k); reflexivity.
    - intros Hm. cbn. rewrite Hm. cbn. apply existsb_app_r, kind_eqb_refl.
  Qed.

  (* hence: a wrapper nobody re-configured, the package-level functions and
     auto agree, whatever else was wrapped, configured and rendered before *)
  Theorem entry_points_agree (ps : list oop) v u i w :
    nth_error (o_heap (orun (oinit v u) ps)) i = Some w -> w_opts w = dflt (w_kind w) ->
    orender (orun (oinit v u) ps) i = fresh_render (orun (oinit v u) ps) (w_kind w).
  Proof.
    intros Hn Ho. rewrite (obj_render_is_out ps v u i w Hn), fresh_is_default, Ho. reflexivity.
  Qed.

  (* an item changed in place (cell updated): every wrapper object, whenever
     it was made, shows the new view; nothing else the caller sees changes *)
  Theorem update_shows (ps : list oop) v u v' i w :
    nth_error (o_heap (orun (oinit v u) ps)) i = Some w ->
    orender (ostep (orun (oinit v u) ps) (PUpdate v')) i = Some (out (w_kind w) (w_opts w) v')
    /\ st_user (o_tab (ostep (orun (oinit v u) ps) (PUpdate v'))) = st_user (o_tab (orun (oinit v u) ps)).
  Proof.
    intros Hn. split; [|reflexivity].
    rewrite (orender_ok _ i w).
    - reflexivity.
    - apply heap_ok_step, heap_ok_run, heap_ok_init.
    - exact Hn.
  Qed.

  (* ---- what other holders set on THEIR wrappers is invisible through wrapper i *)
  Definition sim (i : nat) (s1 s2 : ostate) : Prop :=
    o_tab s1 = o_tab s2 /\ length (o_heap s1) = length (o_heap s2)
    /\ nth_error (o_heap s1) i = nth_error (o_heap s2) i.

  Lemma nth_some_iff_len {A} (h1 h2 : list A) j : length h1 = length h2 ->
    (nth_error h1 j = None <-> nth_error h2 j = None).
  Proof. intros E. rewrite !nth_error_None, E. reflexivity. Qed.

  Lemma table_run_sim i (s1 s2 : ostate) (p : oop) : sim i s1 s2 ->
    run (o_tab s1) (table_ops s1 p) = run (o_tab s2) (table_ops s2 p).
  Proof.
    intros [Et [El _]]. destruct p as [v u|v|k|j o|j|k]; cbn [table_ops]; rewrite <- Et; try reflexivity.
    pose proof (nth_some_iff_len (o_heap s1) (o_heap s2) j El) as N.
    destruct (nth_error (o_heap s1) j) as [w1|], (nth_error (o_heap s2) j) as [w2|]; try reflexivity.
    - destruct N as [_ N]. discriminate (N eq_refl).
    - destruct N as [N _]. discriminate (N eq_refl).
  Qed.

  Lemma snoc_nth_sim {A} (h1 h2 : list A) x i :
    length h1 = length h2 -> nth_error h1 i = nth_error h2 i ->
    nth_error (h1 ++ [x]) i = nth_error (h2 ++ [x]) i.
  Proof.
    intros El En. destruct (Nat.lt_ge_cases i (length h1)) as [L|G].
    - rewrite !nth_error_app1; [exact En| rewrite <- El; exact L | exact L].
    - rewrite !nth_error_app2; [rewrite El; reflexivity | rewrite <- El; exact G | exact G].
  Qed.

  Lemma sim_step_both i (s1 s2 : ostate) (p : oop) : sim i s1 s2 -> sim i (ostep s1 p) (ostep s2 p).
  Proof.
    intros H. pose proof (table_run_sim i s1 s2 p H) as Et. destruct H as [_ [El En]].
    unfold WrapObj.ostep, sim. cbn [o_tab o_heap]. split; [exact Et|].
    destruct p as [v u|v|k|j o|j|k]; cbn [heap_after]; try (split; assumption).
    - split; [rewrite !app_length, El; reflexivity | apply snoc_nth_sim; assumption].
    - split; [rewrite !set_opts_length; exact El | rewrite !set_opts_nth, En; reflexivity].
    - split; [rewrite !app_length, El; reflexivity | apply snoc_nth_sim; assumption].
  Qed.

  Lemma sim_step_tune_other i (s1 s2 : ostate) j o : Nat.eqb j i = false -> sim i s1 s2 -> sim i (ostep s1 (PTune j o)) s2.
  Proof.
    intros Hj [Et [El En]]. unfold WrapObj.ostep, sim. cbn [o_tab o_heap table_ops heap_after run fold_left].
    split; [exact Et|]. split; [rewrite set_opts_length; exact El|].
    rewrite set_opts_nth. rewrite Nat.eqb_sym in Hj. rewrite Hj. exact En.
  Qed.

  Lemma forget_sim i (ps : list oop) : forall s1 s2 : ostate, sim i s1 s2 -> sim i (orun s1 ps) (orun s2 (forget i ps)).
  Proof.
    induction ps as [|p ps IH]; intros s1 s2 H; [exact H|].
    cbn [WrapObj.orun fold_left forget filter].
    destruct p as [v u|v|k|j o|j|k]; cbn [fold_left]; try (apply IH, sim_step_both, H).
    destruct (Nat.eqb j i) eqn:Hj; cbn [fold_left].
    - apply IH, sim_step_both, H.
    - apply IH, sim_step_tune_other; assumption.
  Qed.

  Theorem others_options_invisible (ps : list oop) v u i :
    orender (orun (oinit v u) ps) i = orender (orun (oinit v u) (forget i ps)) i.
  Proof.
    pose proof (forget_sim i ps (oinit v u) (oinit v u)) as H.
    destruct H as [Et [_ En]]; [repeat split|].
    unfold WrapObj.orender. rewrite Et, En. reflexivity.
  Qed.
End WrapObjProofs.
