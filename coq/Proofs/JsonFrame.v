(* C07, part 4: the parser is compositional.  A run of the machine on a stack
   K is the same run on K ++ B for any B below it, as long as the run on K does
   not fail; where the run on K alone finishes the top-level value, the run on
   K ++ B completes that value in B.  Hence an encoding that the parser
   accepts on its own is a self-delimiting value in every context: the oracle
   assumptions str_ok / enc_ok follow from plain validity. *)
From Tab Require Import Model.View Spec.JsonParse Spec.JsonExpect Proofs.JsonProofs.
Local Open Scope N_scope.

Definition is_fail (st : jstate) : bool := match snd st with MFail => true | _ => false end.

(* the state on the extended stack *)
Definition ext (B : list jframe) (st : jstate) : jstate :=
  match st with
  | (_, MFail) => j_fail
  | (_, MDone x) => j_complete B x
  | (K, m) => (K ++ B, m)
  end.

Lemma complete_ext B r x : j_complete (r ++ B) x = ext B (j_complete r x).
Proof.
  destruct r as [|[items|ms [k|]] r]; cbn [app j_complete ext]; try reflexivity.
  destruct x; reflexivity.
Qed.

Lemma start_value_ext B K b : j_start_value (K ++ B) b = ext B (j_start_value K b).
Proof.
  unfold j_start_value.
  repeat match goal with |- context [if ?c then _ else _] => destruct c; [reflexivity|] end.
  reflexivity.
Qed.

Lemma complete_mode B x :
  match snd (j_complete B x) with
  | MAfter | MColon | MDone _ | MFail => True
  | _ => False
  end.
Proof. destruct B as [|[items|ms [k|]] r]; cbn; auto. destruct x; cbn; auto. Qed.

Lemma complete_ws B x b : is_ws b = true -> j_step_main (j_complete B x) b = j_complete B x.
Proof.
  intros Hb. pose proof (complete_mode B x) as Hm.
  destruct (j_complete B x) as [K m]. cbn [snd] in Hm.
  destruct m; try contradiction; cbn [j_step_main]; rewrite ?Hb; reflexivity.
Qed.

Lemma str_step_ext B K acc sub b : str_step (K ++ B) acc sub b = ext B (str_step K acc sub b).
Proof.
  unfold str_step. destruct sub as [hi|hi|hi k cu].
  - destruct (N.eqb b DQ); [apply complete_ext|].
    destruct (N.eqb b BSL); [reflexivity|]. destruct (b <? 32); reflexivity.
  - destruct (N.eqb b 117); [reflexivity|]. destruct (simple_escape b); reflexivity.
  - destruct (hexval b) as [d|]; [|reflexivity].
    assert (F : forall a h c, (K ++ B, finish_cu a h c) = ext B (K, finish_cu a h c)).
    { intros a h c. unfold finish_cu, finish_cu0.
      destruct h; repeat match goal with |- context [if ?c then _ else _] => destruct c end; reflexivity. }
    destruct k as [|[|[|[|k]]]]; try reflexivity. apply F.
Qed.

Lemma step_main_ext B st b :
  (forall lex ns, snd st <> MNum lex ns) ->
  is_fail (j_step_main st b) = false ->
  j_step_main (ext B st) b = ext B (j_step_main st b).
Proof.
  destruct st as [K m]. cbn [snd]. intros Hnum Hnf.
  destruct m; cbn [ext].
  - (* MVal *) cbn [j_step_main] in *. destruct (is_ws b); [reflexivity|]. apply start_value_ext.
  - (* MArrFirst *) cbn [j_step_main] in *. destruct (is_ws b); [reflexivity|].
    destruct (N.eqb b RBRK); [|apply start_value_ext].
    destruct K as [|[items|ms k] r]; try discriminate. cbn [app]. apply complete_ext.
  - (* MObjFirst *) cbn [j_step_main] in *. destruct (is_ws b); [reflexivity|].
    destruct (N.eqb b RBRC).
    + destruct K as [|[items|ms [k|]] r]; try discriminate. cbn [app]. apply complete_ext.
    + destruct (N.eqb b DQ); reflexivity.
  - (* MKey *) cbn [j_step_main] in *. destruct (is_ws b); [reflexivity|]. destruct (N.eqb b DQ); reflexivity.
  - (* MColon *) cbn [j_step_main] in *. destruct (is_ws b); [reflexivity|]. destruct (N.eqb b COLON); reflexivity.
  - (* MAfter *) cbn [j_step_main] in *. destruct (is_ws b); [reflexivity|].
    destruct K as [|[items|ms [k|]] r]; try discriminate; cbn [app].
    + destruct (N.eqb b COMMA); [reflexivity|]. destruct (N.eqb b RBRK); [apply complete_ext | reflexivity].
    + destruct (N.eqb b COMMA); [reflexivity|]. destruct (N.eqb b RBRC); [apply complete_ext | reflexivity].
  - (* MDone *) cbn [j_step_main] in Hnf |- *. destruct (is_ws b) eqn:Hb; [|discriminate].
    cbn [ext]. apply complete_ws, Hb.
  - (* MStr *) cbn [j_step_main]. apply str_step_ext.
  - (* MNum *) exfalso. eapply Hnum. reflexivity.
  - (* MLit *) cbn [j_step_main] in *. destruct rest as [|x rest']; [reflexivity|].
    destruct (N.eqb b x); [|reflexivity]. destruct rest'; [apply complete_ext | reflexivity].
  - (* MFail *) discriminate.
Qed.

Lemma complete_not_num r x lex ns : snd (j_complete r x) <> MNum lex ns.
Proof. pose proof (complete_mode r x) as H. intros E. rewrite E in H. exact H. Qed.

Lemma step_complete_main stk x d : j_step (j_complete stk x) d = j_step_main (j_complete stk x) d.
Proof.
  pose proof (complete_mode stk x) as Hm. destruct (j_complete stk x) as [K m]. cbn [snd] in Hm.
  destruct m; try contradiction; reflexivity.
Qed.

Lemma step_ext B st b :
  is_fail (j_step st b) = false -> j_step (ext B st) b = ext B (j_step st b).
Proof.
  destruct st as [K m]. destruct m as [| | | | | |x0|acc sub|lex ns|rest x0|];
    try (intros H; apply (step_main_ext B _ b); [cbn [snd]; intros ? ?; discriminate | exact H]).
  { (* MDone *)
    intros H. cbn [ext]. rewrite step_complete_main.
    change (j_step (K, MDone x0) b) with (j_step_main (K, MDone x0) b) in *.
    apply (step_main_ext B (K, MDone x0) b); [cbn [snd]; intros ? ?; discriminate | exact H]. }
  (* MNum *)
  cbn [ext j_step]. destruct (num_next ns b); [reflexivity|].
  destruct (num_accepting ns); [|reflexivity].
  intros H. rewrite complete_ext.
  apply step_main_ext; [apply complete_not_num | exact H].
Qed.

Lemma fail_step st b : is_fail st = true -> is_fail (j_step st b) = true.
Proof. destruct st as [K m]. destruct m; try discriminate. reflexivity. Qed.

Lemma fail_run l : forall st, is_fail st = true -> is_fail (j_run st l) = true.
Proof. induction l as [|b l IH]; intros st H; [exact H|]. rewrite j_run_cons. apply IH, fail_step, H. Qed.

Lemma run_ext B l : forall st, is_fail (j_run st l) = false -> j_run (ext B st) l = ext B (j_run st l).
Proof.
  induction l as [|b l IH]; intros st H; [reflexivity|].
  rewrite !j_run_cons in *.
  assert (Hs : is_fail (j_step st b) = false).
  { destruct (is_fail (j_step st b)) eqn:E; [|reflexivity]. rewrite (fail_run l _ E) in H. discriminate. }
  rewrite (step_ext B st b Hs). apply IH, H.
Qed.

(* ---------- validity on its own gives the oracle assumptions ---------- *)

Lemma finish_cases st x : j_finish st = Some x ->
  st = ([], MDone x) \/ exists lex ns, st = ([], MNum lex ns) /\ num_accepting ns = true /\ x = JNum lex.
Proof.
  destruct st as [[|f K] m]; cbn [j_finish]; [|discriminate].
  destruct m; try discriminate.
  - intros H. inversion H. left. reflexivity.
  - destruct (num_accepting ns) eqn:E; [|discriminate]. intros H. inversion H. right. eauto.
Qed.

Lemma is_delim_cases d : is_delim d = true ->
  d = 44 \/ d = 125 \/ d = 93 \/ d = 32 \/ d = 9 \/ d = 10 \/ d = 13.
Proof.
  unfold is_delim, is_ws. rewrite !orb_true_iff, !N.eqb_eq.
  unfold COMMA, RBRC, RBRK, SP, TAB, LF, CR. tauto.
Qed.

Lemma num_next_delim ns d : is_delim d = true -> num_next ns d = None.
Proof.
  intros H. destruct (is_delim_cases d H) as [-> | [-> | [-> | [-> | [-> | [-> | ->]]]]]];
    destruct ns; reflexivity.
Qed.

Theorem enc_ok_from_parse e x : parse_json e = Some x -> enc_ok e x.
Proof.
  unfold parse_json. intros H stk d Hd.
  rewrite j_run_app. change (stk, MVal) with (ext stk j_init).
  apply finish_cases in H as [H | (lex & ns & H & Hacc & ->)].
  - rewrite run_ext by (rewrite H; reflexivity). rewrite H. reflexivity.
  - rewrite run_ext by (rewrite H; reflexivity). rewrite H. cbn [ext app].
    cbn [j_run fold_left j_step]. rewrite (num_next_delim ns d Hd), Hacc.
    symmetry. apply step_complete_main.
Qed.

Theorem str_ok_from_parse e k : parse_json e = Some (JStr k) -> hd_error e = Some DQ -> str_ok e k.
Proof.
  intros H Hq. destruct e as [|q body]; [discriminate|]. cbn [hd_error] in Hq. inversion Hq; subst q.
  exists body. split; [reflexivity|]. intros stk.
  unfold parse_json in H. rewrite j_run_cons in H.
  change (j_step j_init DQ) with ([] : list jframe, MStr [] (SNorm None)) in H.
  apply finish_cases in H as [H | (lex & ns & H & _ & E)]; [|discriminate].
  change (stk, MStr [] (SNorm None)) with (ext stk ([], MStr [] (SNorm None))).
  rewrite run_ext by (rewrite H; reflexivity). rewrite H. reflexivity.
Qed.

(* ---------- the assumption in checkable form ---------- *)

Definition dec_str (e : bytes) : bytes := match parse_json e with Some (JStr k) => k | _ => [] end.
Definition dec_val (e : bytes) : jvalue := match parse_json e with Some x => x | None => JNull end.

Definition str_validb (e : bytes) : bool :=
  match e, parse_json e with
  | q :: _, Some (JStr _) => N.eqb q DQ
  | _, _ => false
  end.
Definition val_validb (e : bytes) : bool := match parse_json e with Some _ => true | None => false end.

Lemma str_validb_ok e : str_validb e = true -> str_ok e (dec_str e).
Proof.
  unfold str_validb, dec_str. destruct e as [|q body]; [discriminate|].
  destruct (parse_json (q :: body)) as [[| | |k| |]|] eqn:E; try discriminate.
  intros H. apply N.eqb_eq in H. subst q. apply str_ok_from_parse; [exact E | reflexivity].
Qed.

Lemma val_validb_ok e : val_validb e = true -> enc_ok e (dec_val e).
Proof.
  unfold val_validb, dec_val. destruct (parse_json e) eqn:E; [|discriminate].
  intros _. apply enc_ok_from_parse, E.
Qed.

Section Checked.
  Variable strenc : bytes -> bytes.

  Definition cell_validb (c : vcell) : bool :=
    match vc_json c with
    | Some e =>
        if bytes_eqb e the_empty_obj && negb (match vc_text c with [] => true | _ => false end)
        then str_validb (strenc (vc_text c))
        else val_validb e
    | None => true
    end.

  (* every oracle encoding of the table is valid JSON for this parser *)
  Definition encodings_validb (v : view) : bool :=
    forallb (fun h => str_validb (strenc (vc_text h))) (header_cells v)
    && forallb (forallb cell_validb) (body_rows v).

  Lemma encodings_validb_ok v :
    encodings_validb v = true ->
    encodings_ok strenc (fun s => dec_str (strenc s)) dec_val v.
  Proof.
    unfold encodings_validb, encodings_ok. rewrite andb_true_iff, !forallb_forall, !Forall_forall.
    intros [H1 H2]. split.
    - intros h Hh. apply str_validb_ok, H1, Hh.
    - intros cells Hc. apply Forall_forall. intros c Hin.
      specialize (H2 cells Hc). rewrite forallb_forall in H2. specialize (H2 c Hin).
      unfold cell_validb in H2. intros e He. rewrite He in H2.
      destruct (bytes_eqb e the_empty_obj && negb (match vc_text c with [] => true | _ => false end)).
      + apply str_validb_ok, H2.
      + apply val_validb_ok, H2.
  Qed.
End Checked.
